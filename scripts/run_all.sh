#!/bin/bash
# run_all.sh <tier> : every check once; prints id, exit code, wall seconds and the summary line
T=${1:-quick}
cd /verif
for i in $(seq -w 1 20); do
  t0=$(date +%s.%N)
  out=$(./check C$i $T 2>/dev/null); code=$?
  t1=$(date +%s.%N)
  printf "C%s exit=%s wall=%.0fs %s\n" $i $code $(echo "$t1 - $t0" | bc) "$(echo "$out" | tr -d '\000' | grep -a "$T:" | tail -1 | cut -c1-120)"
done
