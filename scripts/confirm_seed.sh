#!/bin/bash
# confirm_seed.sh <worktree> <mutation.diff> <demo.diff> <demo test filter> [package]
# Confirms in a scratch worktree: (1) the full suite passes with the mutation, (2) the demo fails
# with the mutation, (3) the demo passes without it. Prints CONFIRMED or NOT-CONFIRMED.
set -u
WT=$1; MUT=$2; DEMO=$3; FILTER=$4; PKG=${5:-trusttunnel}
export CARGO_TARGET_DIR=$WT/target CARGO_NET_OFFLINE=true
cd "$WT" || exit 2
git checkout -q -- . && git clean -fdq -e out -e target
run() { unshare -n sh -c "ip link set lo up; cd $WT && $*"; }
git apply "$MUT" || { echo "NOT-CONFIRMED: mutation does not apply"; exit 1; }
if ! run cargo test --workspace --no-fail-fast --offline >"$WT/out/confirm_suite.log" 2>&1; then
  echo "NOT-CONFIRMED: suite fails with the mutation (see $WT/out/confirm_suite.log)"; git checkout -q -- .; exit 1
fi
git apply "$DEMO" || { echo "NOT-CONFIRMED: demo does not apply on the mutation"; git checkout -q -- .; git clean -fdq -e out -e target; exit 1; }
if run cargo test -p $PKG --offline "$FILTER" >"$WT/out/confirm_demo_mut.log" 2>&1; then
  echo "NOT-CONFIRMED: demo passes with the mutation"; git checkout -q -- .; git clean -fdq -e out -e target; exit 1
fi
git checkout -q -- . && git clean -fdq -e out -e target
git apply "$DEMO"
if ! run cargo test -p $PKG --offline "$FILTER" >"$WT/out/confirm_demo_clean.log" 2>&1; then
  echo "NOT-CONFIRMED: demo fails on the clean tree"; git checkout -q -- .; git clean -fdq -e out -e target; exit 1
fi
git checkout -q -- . && git clean -fdq -e out -e target
echo "CONFIRMED: $MUT"
