#!/usr/bin/env python3
"""Regenerates /verif/MANIFEST.json from the table below (edit here, not the JSON)."""
import json, os
ROOT = os.path.dirname(os.path.dirname(os.path.abspath(__file__)))
ids = [json.loads(l)['id'] for l in open(os.path.join(ROOT, 'properties.jsonl'))]

FAMILY = "bounded-exhaustive exploration of real-code executions against a reference model (model-checking family)"
CHECKS = {
 "C01": dict(cat="exploration",
   text="The full product of 12 Proxy-Authorization values x 7 request kinds x 3 authenticators x 3 SNI policies x {HTTP/1.1, HTTP/2} (1512 sessions) and every history of 2 (quick) / 2-3 (thorough) requests over 4 headers x 3 kinds on one HTTP/2 session, sequential and pipelined, through the real Core::on_tunnel_request over an in-memory transport with connect(2)/getaddrinfo interposed. Oracle: independent authorisation table; refused => 407 + Basic challenge and no egress at all; authorised => not 407 and exactly the named destination contacted; per request, never per session.",
   note="HTTP/3 not driven. With no credentials configured the statement is silent (only 'refused => no egress' is checked). A rejected SNI label closes the connection (any/no answer accepted, egress not).",
   tech="exhaustive decision-table x bounded request-history enumeration on the real accept path with syscall interposition"),
 "C02": dict(cat="model_checking",
   text="Stateless exploration of the production DuplexPipe::exchange driven as a single harness-polled future on four scripted endpoints under a paused clock: (I) every endpoint call is a choice point (deliver/hold/error, accept all/one byte/nothing, ready/hold) and all choice sequences with <=3 (quick) / <=6-7 (thorough) deviations are executed; (II) all interleavings of {deliver left item, deliver right item, advance clock by T/2+1ms} so that idle-timer expirations cancel and restart the copy loops at every point, with <=2 / <=5 sink deviations and error injection on top. Oracle: two byte queues (prefix, no loss/dup/reorder), credit == forwarded == metrics, EOF only after the last byte, clean end iff nothing failed, an injected failure ends the exchange in the same poll, no stall, no self-wake spin.",
   note="Scripted endpoints model the real ones where the pipe depends on unspecified behaviour (end of stream is reported again on re-read; a repeated eof() is ignored). HTTP/3 endpoints are not driven. Real H1/H2/TCP endpoints are exercised by the door-based checks.",
   tech="stateless model checking of the implementation: deviation-bounded DFS over environment choice sequences under a controlled scheduler/clock"),
 "C03": dict(cat="exploration",
   text="Complete enumeration of the classifier's input domain (thorough: all 2^32 IPv4, all 2^32 IPv4-mapped, all 2^32 leading IPv6 words x 6 interface ids) against an IANA-registry oracle, plus every class representative x spelling x flag x ordered resolver list (<=3) through the real TcpForwarder::connect with connect(2)/getaddrinfo interposed.",
   note="Trusted: the IANA-derived oracle; libc interposition sees every connect/getaddrinfo of the process.",
   tech="exhaustive enumeration of the input domain and of environment (resolver/connect) answers on the real code vs an independent classifier"),
 "C04": dict(cat="exploration",
   text="Every rule list up to length 2 (quick) / 3 (thorough) over an alphabet of well-formed and malformed cidr / client_random_prefix / mask / action values x 7 peers (IPv4, IPv6, IPv4-mapped) x 6 client randoms, through RulesEngine::evaluate, through the call core.rs makes, and through the rules_file TOML path, against a reference evaluator written from CONFIGURATION.md.",
   note="Trusted: the reference evaluator; combinations the documentation does not define are unconstrained.",
   tech="bounded-exhaustive enumeration of configurations x inputs on the real code vs a reference evaluator"),
 "C06": dict(cat="exploration",
   text="Every sequence of <=2 (quick) / <=3 (thorough) records over 15 valid and unacceptable record kinds; for each stream the unsegmented run, every 1- and 2-cut, 3-cuts (thorough), and byte-at-a-time delivery through the production decoder driven as DatagramDecoder::read drives it, compared with a one-shot reference decoder written from PROTOCOL.md 6.3/11.2; encoder cross product vs 6.4.",
   note="Trusted: the reference decoder/encoder. Acceptance bounds between the implementation's limit and 65507 payload bytes are not exercised. A decode that does not return in 20 s is reported as wedged.",
   tech="bounded-exhaustive enumeration of inputs x segmentations on the real decoder vs a reference decoder"),
 "C11": dict(cat="exploration",
   text="(a) every sequence of <=2/3 7.3 request records x every 1-,2-,3-cut + byte-at-a-time through the production stream decoder vs a one-shot decoder; (b) every echo request the endpoint would emit for all data word sequences (<=4/5 words over a carry-rich alphabet, optional odd byte) x id x seq: fields at their offsets and an Internet checksum that verifies under a 64-bit fold; (c) every reply / error type x code x quoted-request shape (matching, non-matching, IP options, extension headers, every truncation) through deserialize + responded_echo_request + the 7.4 encoder.",
   note="ICMPv6 checksum is the kernel's (raw ICMPv6 sockets). Waiter histories on raw sockets (sub-check d) are reported separately in the evidence.",
   tech="bounded-exhaustive enumeration of inputs x segmentations on the real codec/serialiser vs RFC 792/4443/1071 reference"),
 "C14": dict(cat="model_checking",
   text="Every activity pattern over a horizon of 8 (quick) / 10 (thorough) steps of T/4+1ms (and T/2+1ms, and the exact grid T/4) - per step: idle / left transfers / right transfers / both / toggle back-pressure - executed on the production DuplexPipe under tokio's paused clock; oracle in virtual time: an idle-timer close happens only >= T after the last transfer, and a tunnel idle for 2T (+2 steps of timer granularity) is closed; endpoints released on close.",
   note="Virtual time replaces real time (exact-grid equality is an artefact and only the safety half is checked there). Establishment timeout (black-hole connect, virtual clock at T-1ms / T+1ms, 502/302, gauge and tasks released) and TLS-handshake timeout (real Core::listen on loopback, ClientHello stalled after k bytes) are scenario sub-checks reported in the evidence.",
   tech="exhaustive enumeration of bounded activity histories on the real pipe under a controlled virtual clock"),
 "C10": dict(cat="exploration",
   text="CONNECT x 14 authority shapes (reserved names, look-alikes, literals, names with/without port) x 12 outcomes of the outbound attempt (connected, ECONNREFUSED, ENETUNREACH, EHOSTUNREACH, ETIMEDOUT, never completes + virtual clock past the establishment timeout, policy loopback / non-routable, resolver failure, only-IPv6 with IPv6 unavailable, EMFILE, bad credentials) x {HTTP/1.1, HTTP/2} x {client waits, client closes}, plus GET/POST/OPTIONS/HEAD on reserved authorities, through the real accept path with the real DirectForwarder; everything the endpoint writes on the stream is parsed: exactly one final response with the documented status / X-Warning / X-Adguard-Vpn-Error, reserved authorities never reach the resolver/connector, session released when the client goes away.",
   note="connect(2)/getaddrinfo answers come from the interposer; HTTP/3 not driven; request lines the protocol library itself refuses are unconstrained.",
   tech="exhaustive decision-table x fault-outcome enumeration on the real accept path with syscall interposition and a virtual clock"),
 "C08": dict(cat="exploration",
   text="18 HTTP/1.1 request heads (valid, at the header-count and size limits, near-miss invalid) + payload, delivered to the real accept path (Http1Codec + HttpDownstream + Tunnel + DirectForwarder) over a scripted transport under every 1-cut and 2-cut segmentation (all byte positions for short streams, structural positions for ~1 KiB heads) and byte-at-a-time, the endpoint running to quiescence between pieces. Oracle: outcome (response, bytes reaching the destination, bytes relayed back, closure) identical to the one-piece delivery, itself checked against an independent expectation; no polling of the transport while input is outstanding; a delivery that never returns is reported by an OS-thread watchdog; bytes pulled before a rejection <= 1 KiB + one read.",
   note="select! start index fixed at 0; quiescence = 40 idle scheduler turns; heads >= 1024 bytes may be accepted or rejected depending on read sizes.",
   tech="bounded-exhaustive enumeration of inputs x segmentations (arrival schedules) on the real accept path, differential + independent oracle, watchdog for non-termination"),
 "C07": dict(cat="model_checking",
   text="Explicit-state breadth-first search over operation histories (depth 6 quick / 9 thorough) of {client datagram on 4 flows incl. a port-53 flow, peer reply, late reply on an expired flow's socket, clock step T/4+1ms, datagram to an unconnectable destination, burst to a closed port} on the real udp_pipe::DuplexPipe + real direct-forwarder multiplexer with real loopback UDP peers under a paused clock. After every operation: each peer received exactly the datagrams addressed to it, distinct flows use distinct sockets, each reply reaches the client labelled (flow destination -> flow source), outbound_udp_sockets equals the live flows of a reference model (expiry after T, DNS flows closed when answered), and the multiplexer is still running.",
   note="States merged on (reference-model state incl. how each flow was last refreshed, gauge). The SOCKS5 UDP relay is not driven here. Loopback delivery is synchronous; 120 scheduler turns count as quiescence.",
   tech="explicit-state model checking: BFS over operation histories, every transition re-executed on the real implementation, invariant + reference-model comparison in every state"),
 "C19": dict(cat="model_checking",
   text="Every complete interleaving (plain DFS over 'which enabled task runs next', no partial-order reduction) of participants {register handler+guard | wait | finish}, early-exit participants, submit (once or twice) and completion (lock held across the await as endpoint/src/main.rs does) for 2 (quick) / up to 3+1 (thorough) participants on the real Shutdown through the crate's doors, on the harness's own single-threaded executor. Oracle: every participant registered before the submission gets Ok from wait(); completion() returns only when no issued guard is alive; no schedule ends with completion or a participant pending. Plus wind-down on the wire through the real accept path: HTTP/1.1 session closed, HTTP/2 session ends gracefully, session task ends, completion() returns.",
   note="Thread-level atomicity of std::sync::Mutex and tokio's broadcast/mpsc is trusted (each API call is one protected operation); worker-thread exhaustion by tasks blocked on the mutex is not modelled; QUIC close not driven.",
   tech="stateless model checking: exhaustive schedule enumeration of the real Shutdown under a harness-owned executor"),
 "C13": dict(cat="exploration",
   text="(A) every string of length 1..3 (quick) / 1..4 (thorough) over {a, space, \", ', \\, #, =, e-acute, emoji, TAB} as user name and as password, written in each of the 4 TOML string forms able to express it, with 1 or 2 [[client]] tables, comments and swapped key order, read through toml::from_str::<Settings>; the configured set, the RegistryBasedAuthenticator verdicts (pair accepted, trimmed/unquoted/unescaped neighbours rejected) and client_config::build(..).compose_toml() must carry exactly the written strings; (B) pairs through the real setup_wizard (non-interactive) and back through trusttunnel_endpoint -c; (C) the start-up truth table 4 listen addresses x credentials x 8 protocol subsets x 5 reverse-proxy sections x 6 host configurations x {builder, TOML} into Core::new: refused iff one of the documented reasons holds.",
   note="TOML semantics = the toml crate's reading of each generated file (which also validates the harness's own writer).",
   tech="bounded-exhaustive enumeration of inputs/configurations on the real deserialisers, authenticator, exporter and binaries vs string equality"),
}
NOT_YET = "check not built yet in this round (planned, see DESIGN.md section 3)"

m = {
 "version": 1,
 "setup_cmd": "cd /verif/harness && CARGO_NET_OFFLINE=true cargo build --release --offline && cd /repo && CARGO_NET_OFFLINE=true cargo build -p trusttunnel_endpoint -p trusttunnel_endpoint_tools --target-dir /verif/target/repo-bins --offline",
 "hooks": {
   "guard": "cargo feature `verif` of crate trusttunnel (lib/Cargo.toml)",
   "enable": "the harness depends on trusttunnel by path with features=[\"verif\"]: cd /verif/harness && cargo build --release --offline",
   "baseline_off_cmd": "cd /repo/$(cat /w/out/cargo_root.txt) && cargo nextest run --workspace --no-fail-fast --tool-config-file pb:/w/lib/nextest.toml --profile pb --test-threads 8 --offline  (fallback: cargo test --workspace --no-fail-fast --offline)",
   "source_commits": json.load(open(os.path.join(ROOT, 'scripts', 'hook_commits.json'))),
   "add_only": True,
 },
 "engines": [{"name": "ttv", "path": "/verif/harness", "serves_properties": sorted(CHECKS),
   "kind_free_text": "Rust harness linking the real crate: deviation-bounded DFS over environment choice sequences, explicit-state BFS over operation histories, exhaustive sweeps of finite input domains; libc interposition (connect/getaddrinfo); patched tokio owning the select! start index"}],
 "checks": [{
   "property_id": i,
   "quick_cmd": f"./check {i} quick",
   "thorough_cmd": f"./check {i} thorough",
   "evidence_file": f"/verif/evidence/{i}.json",
   "replay_cmd_template": f"./check {i} --replay {{path}}",
   "engine": "ttv",
   "level_claimed": {"category": c["cat"], "text": c["text"], "design_ref": f"DESIGN.md section 3, {i}"},
   "level_note": c["note"],
   "technique": c["tech"] + " — " + FAMILY,
 } for i, c in sorted(CHECKS.items())],
 "not_applicable": [{"property_id": i, "reason": NOT_YET} for i in ids if i not in CHECKS],
 "notes": "See DESIGN.md. Known findings and fixed defects: /verif/known_findings.json. Seeded mutations: /verif/seeded/.",
}
json.dump(m, open(os.path.join(ROOT, 'MANIFEST.json'), 'w'), indent=1)
print("claimed:", sorted(CHECKS))
