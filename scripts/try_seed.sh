#!/bin/bash
# try_seed.sh <diff> <tier> <ID> [ID...] : apply a seeded change to /repo, run the checks, undo it
DIFF=$1; TIER=$2; shift 2
cd /repo && git apply "$DIFF" || { echo "cannot apply $DIFF"; exit 2; }
for id in "$@"; do
  out=$(cd /verif && VERIF_ROOT=/tmp/seedrun ./check $id $TIER 2>&1)
  code=$?
  echo "== $id $TIER exit=$code: $(echo "$out" | grep -c '^VIOLATION') violation line(s)"
  echo "$out" | grep "signature:" | head -4
done
cd /repo && git checkout -- . && git status --short | head -3
