#!/bin/bash
# run_seeds.sh [tier] [seed-id-prefix...] : for every stored seeded change apply it to /repo, run the
# checks named in its meta.json, undo it; prints DETECTED / MISSED / NOT-APPLICABLE per seed.
TIER=${1:-quick}; shift
mkdir -p /tmp/seedrun && cp /verif/known_findings.json /tmp/seedrun/ && ln -sfn /verif/fixtures /tmp/seedrun/fixtures
cd /repo && [ -z "$(git status --porcelain)" ] || { echo "/repo is not clean"; exit 2; }
for d in /verif/seeded/S*/; do
  id=$(basename $d)
  if [ $# -gt 0 ]; then m=0; for p in "$@"; do case $id in $p*) m=1;; esac; done; [ $m = 1 ] || continue; fi
  checks=$(python3 -c "import json,sys; print(json.load(open('$d/meta.json'))['checks_run'].split(' quick ')[1])")
  if ! git -C /repo apply --check $d/patch.diff 2>/dev/null; then echo "$id: NOT-APPLICABLE (patch no longer applies to HEAD)"; continue; fi
  git -C /repo apply $d/patch.diff
  hit=""
  for c in $checks; do
    out=$(cd /verif && VERIF_ROOT=/tmp/seedrun ./check $c $TIER 2>&1); code=$?
    if [ $code = 1 ] && echo "$out" | grep -q '^VIOLATION'; then hit="$hit $c:$(echo "$out" | grep -m1 'signature:' | sed 's/.*signature: //')"; fi
    if [ $code -ge 2 ]; then hit="$hit $c:MACHINERY-EXIT-$code"; fi
  done
  git -C /repo checkout -- .
  if [ -n "$hit" ]; then echo "$id: DETECTED$hit"; else echo "$id: MISSED ($checks)"; fi
done
cd /verif && ./check C01 quick >/dev/null 2>&1   # rebuild on the clean tree
