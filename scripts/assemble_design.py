#!/usr/bin/env python3
"""DESIGN.md = docs/part1.md (with the seed table filled from docs/seed_results.txt) + docs/part2_round0.md"""
import json, os, re, glob
ROOT = os.path.dirname(os.path.dirname(os.path.abspath(__file__)))
res = {}
p = os.path.join(ROOT, 'docs', 'seed_results.txt')
if os.path.exists(p):
    for l in open(p):
        m = re.match(r'(S\d+-[^:]+): (DETECTED|MISSED|NOT-APPLICABLE)(.*)', l.strip())
        if m:
            res[m.group(1)] = (m.group(2), m.group(3).strip())
rows = ["| seed | property | needs, to manifest | result of `run_seeds.sh quick` |", "|---|---|---|---|"]
for d in sorted(glob.glob(os.path.join(ROOT, 'seeded', 'S*')), key=lambda d: int(re.match(r'S(\d+)', os.path.basename(d)).group(1))):
    meta = json.load(open(os.path.join(d, 'meta.json')))
    sid = meta['id']
    r = res.get(sid)
    if r is None:
        out = meta['detected_by']
    elif r[0] == 'DETECTED':
        sigs = re.findall(r'(C\d\d):(.*?)(?= C\d\d:C\d\d|$)', r[1])
        out = 'detected: ' + '; '.join(f"{c} `{s}`" for c, s in sigs)
    elif r[0] == 'MISSED':
        out = '**not detected** ' + r[1] + ' — ' + meta['detected_by']
    else:
        out = 'patch no longer applies to HEAD — ' + meta['detected_by']
    esc = lambda t: t.replace('|', '\\|')
    rows.append(f"| {sid.split('-')[0]} `{sid.split('-',2)[2]}` | {meta['property']} | {esc(meta['what_it_needs_to_manifest'])} | {esc(out)} |")
part1 = open(os.path.join(ROOT, 'docs', 'part1.md')).read().replace('@@SEED_TABLE@@', '\n'.join(rows))
part2 = open(os.path.join(ROOT, 'docs', 'part2_round0.md')).read()
open(os.path.join(ROOT, 'DESIGN.md'), 'w').write(part1.rstrip() + "\n\n===========================================================================\n\n" + part2)
print("DESIGN.md written:", len(part1.splitlines()) + len(part2.splitlines()), "lines")
