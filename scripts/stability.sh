#!/bin/bash
# stability.sh [rounds] : run every quick check on the unchanged tree several times; any non-zero exit or VIOLATION line is a flake
R=${1:-3}
cd /verif
for r in $(seq 1 $R); do
  for i in $(seq -w 1 20); do
    out=$(./check C$i quick 2>&1); code=$?
    if [ $code -ne 0 ] || echo "$out" | grep -q '^VIOLATION'; then echo "round $r C$i exit=$code: $(echo "$out" | grep -m2 'signature:\|MACHINERY')"; fi
  done
  echo "round $r done"
done
