//! Violations, known findings, replay files and evidence.

use serde_json::{json, Value};
use std::collections::BTreeMap;
use std::path::PathBuf;
use std::time::Instant;

#[derive(Clone, Debug, serde::Serialize, serde::Deserialize)]
pub struct Violation {
    /// names the input class / call site / history that fails; a different violation of the same
    /// property has a different signature
    pub signature: String,
    pub what: String,
    /// everything needed to re-execute this one case (`ttv <ID> --replay file`)
    pub case: Value,
}

impl Violation {
    pub fn new(signature: impl Into<String>, what: impl Into<String>, case: Value) -> Self {
        Self {
            signature: signature.into(),
            what: what.into(),
            case,
        }
    }
}

#[derive(Clone, Copy, Debug, PartialEq, Eq)]
pub enum Tier {
    Quick,
    Thorough,
}

impl Tier {
    pub fn name(&self) -> &'static str {
        match self {
            Tier::Quick => "quick",
            Tier::Thorough => "thorough",
        }
    }
    pub fn pick<T>(&self, q: T, t: T) -> T {
        match self {
            Tier::Quick => q,
            Tier::Thorough => t,
        }
    }
}

pub fn verif_root() -> PathBuf {
    std::env::var_os("VERIF_ROOT")
        .map(PathBuf::from)
        .unwrap_or_else(|| PathBuf::from("/verif"))
}

#[derive(serde::Deserialize, Debug, Clone)]
pub struct KnownFinding {
    pub property: String,
    pub signature: String,
    pub status: String, // "open" | "fixed"
    #[serde(default)]
    pub commit: Option<String>,
    pub what: String,
}

pub fn load_known() -> Vec<KnownFinding> {
    let p = verif_root().join("known_findings.json");
    match std::fs::read_to_string(&p) {
        Ok(s) => match serde_json::from_str::<Vec<KnownFinding>>(&s) {
            Ok(v) => v,
            Err(e) => {
                eprintln!("MACHINERY: cannot parse {}: {e}", p.display());
                std::process::exit(2);
            }
        },
        Err(_) => vec![],
    }
}

/// Collects what one check run did and produces the verdict lines, replay files and evidence.
pub struct Report {
    pub id: String,
    pub tier: Tier,
    pub level: &'static str,
    started: Instant,
    pub coverage: BTreeMap<String, Value>,
    pub samples: Vec<Value>,
    pub assumptions: Vec<String>,
    /// signature -> (first violation, count)
    violations: BTreeMap<String, (Violation, u64)>,
    pub sub: Vec<Value>,
}

fn slug(s: &str) -> String {
    let mut out: String = s
        .chars()
        .map(|c| if c.is_ascii_alphanumeric() || c == '-' || c == '.' { c } else { '_' })
        .collect();
    if out.len() > 100 {
        out = format!("{}_{:016x}", &out[..80], super::explore::hash_of(&s));
    }
    out
}

impl Report {
    pub fn new(id: &str, tier: Tier, level: &'static str) -> Self {
        Self {
            id: id.to_string(),
            tier,
            level,
            started: Instant::now(),
            coverage: BTreeMap::new(),
            samples: vec![],
            assumptions: vec![],
            violations: BTreeMap::new(),
            sub: vec![],
        }
    }

    pub fn violation(&mut self, v: Violation) {
        self.violations
            .entry(v.signature.clone())
            .and_modify(|e| e.1 += 1)
            .or_insert((v, 1));
    }

    pub fn violations<I: IntoIterator<Item = Violation>>(&mut self, vs: I) {
        for v in vs {
            self.violation(v);
        }
    }

    pub fn cov(&mut self, k: &str, v: impl Into<Value>) {
        self.coverage.insert(k.to_string(), v.into());
    }

    pub fn add(&mut self, k: &str, n: u64) {
        let cur = self.coverage.get(k).and_then(|v| v.as_u64()).unwrap_or(0);
        self.coverage.insert(k.to_string(), json!(cur + n));
    }

    pub fn sample(&mut self, v: Value) {
        if self.samples.len() < 12 {
            self.samples.push(v);
        }
    }

    pub fn assume(&mut self, s: &str) {
        self.assumptions.push(s.to_string());
    }

    pub fn n_violations(&self) -> usize {
        self.violations.len()
    }

    /// Prints KNOWN-FINDING / VIOLATION lines, writes replays and evidence; returns the exit code.
    pub fn finish(mut self) -> i32 {
        let root = verif_root();
        let known = load_known();
        let mut exit = 0;
        let mut n_known = 0u64;
        let mut n_new = 0u64;
        let mut n_machinery = 0u64;
        let replay_dir = root.join("replays").join(&self.id);
        // the directory describes this run only
        if let Ok(rd) = std::fs::read_dir(&replay_dir) {
            for e in rd.flatten() {
                if e.path().extension().map(|x| x == "json").unwrap_or(false) {
                    let _ = std::fs::remove_file(e.path());
                }
            }
        }
        for (sig, (v, count)) in &self.violations {
            let k = known
                .iter()
                .find(|k| k.property == self.id && k.status == "open" && sig_matches(&k.signature, sig));
            let is_machinery = sig.split(':').skip(1).any(|c| c == "machinery");
            if is_machinery {
                // a failure of the harness or its environment is never a verdict about the property
                eprintln!("MACHINERY: {} {} ({} case(s)): {}", self.id, sig, count, v.what);
                n_machinery += 1;
                continue;
            }
            if let Some(k) = k {
                println!(
                    "KNOWN-FINDING: property={} {} [{}] ({} case(s) this run)",
                    self.id, k.what, sig, count
                );
                n_known += 1;
            } else {
                let _ = std::fs::create_dir_all(&replay_dir);
                let path = replay_dir.join(format!("{}.json", slug(sig)));
                let body = json!({
                    "property": self.id,
                    "signature": sig,
                    "what": v.what,
                    "cases_with_this_signature": count,
                    "case": v.case,
                });
                let _ = std::fs::write(&path, serde_json::to_string_pretty(&body).unwrap());
                println!("VIOLATION property={} replay={}", self.id, path.display());
                println!("  signature: {sig}");
                println!("  what: {}", v.what);
                n_new += 1;
                exit = 1;
            }
        }
        // evidence
        let wall = self.started.elapsed().as_secs_f64();
        if !self.coverage.contains_key("samples") {
            self.coverage
                .insert("samples".to_string(), Value::Array(self.samples.clone()));
        }
        if !self.sub.is_empty() {
            self.coverage
                .insert("sub_checks".to_string(), Value::Array(self.sub.clone()));
        }
        self.coverage
            .insert("known_findings_reported".into(), json!(n_known));
        let seed: i64 = std::env::var("VERIF_SEED")
            .ok()
            .and_then(|s| s.parse().ok())
            .unwrap_or(0);
        let ev = json!({
            "property_id": self.id,
            "tier": self.tier.name(),
            "seed": seed,
            "level": self.level,
            "coverage": self.coverage,
            "assumptions": self.assumptions,
            "wall_s": wall,
            "violations": n_new,
        });
        let dir = root.join("evidence");
        let _ = std::fs::create_dir_all(&dir);
        let path = dir.join(format!("{}.json", self.id));
        if let Err(e) = std::fs::write(&path, serde_json::to_string_pretty(&ev).unwrap()) {
            eprintln!("MACHINERY: cannot write evidence {}: {e}", path.display());
            return 2;
        }
        println!(
            "{} {}: {} new violation signature(s), {} known finding(s), wall {:.1}s, evidence {}",
            self.id,
            self.tier.name(),
            n_new,
            n_known,
            wall,
            path.display()
        );
        if exit == 0 && n_machinery > 0 {
            return 2;
        }
        exit
    }
}

/// exact match, or prefix match when the listed signature ends in '*'
pub fn sig_matches(listed: &str, sig: &str) -> bool {
    // `*` matches any run of characters
    let parts: Vec<&str> = listed.split('*').collect();
    if parts.len() == 1 {
        return listed == sig;
    }
    let mut rest = sig;
    for (i, p) in parts.iter().enumerate() {
        if i == 0 {
            match rest.strip_prefix(p) {
                Some(r) => rest = r,
                None => return false,
            }
        } else if i == parts.len() - 1 {
            return p.is_empty() || rest.ends_with(p);
        } else {
            match rest.find(p) {
                Some(k) => rest = &rest[k + p.len()..],
                None => return false,
            }
        }
    }
    true
}
