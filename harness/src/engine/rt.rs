//! Runtime helpers: a paused-clock current-thread tokio runtime per worker thread, the `select!`
//! start-index hook, settle loops, fixtures.

use std::cell::Cell;
use std::future::Future;
use std::path::PathBuf;
use std::time::Duration;

thread_local! {
    static SELECT_START: Cell<u32> = const { Cell::new(0) };
}

fn rng_hook(n: u32) -> u32 {
    SELECT_START.with(|c| c.get()) % n.max(1)
}

/// Own the `tokio::select!` start index on this thread (default 0 = declaration order).
pub fn own_select() {
    tokio::macros::support::verif_set_rng_hook(Some(rng_hook));
}

pub fn set_select_start(v: u32) {
    SELECT_START.with(|c| c.set(v));
}

/// A fresh paused-clock current-thread runtime; runs `f` to completion.
pub fn run_paused<F: Future>(f: F) -> F::Output {
    own_select();
    let rt = tokio::runtime::Builder::new_current_thread()
        .enable_all()
        .event_interval(1)
        .start_paused(true)
        .build()
        .expect("runtime");
    let out = rt.block_on(f);
    // do not wait for blocking-pool threads (resolver) on drop
    rt.shutdown_background();
    out
}

/// A fresh real-time current-thread runtime.
pub fn run_real<F: Future>(f: F) -> F::Output {
    own_select();
    let rt = tokio::runtime::Builder::new_current_thread()
        .enable_all()
        .event_interval(1)
        .build()
        .expect("runtime");
    let out = rt.block_on(f);
    rt.shutdown_background();
    out
}

/// Let every spawned task and the I/O driver run: yields until `progress()` is stable for
/// `stable_rounds` consecutive rounds (bounded by `max_rounds`).
pub async fn settle_with(progress: &dyn Fn() -> u64, stable_rounds: u32, max_rounds: u32) {
    let mut last = progress();
    let mut stable = 0;
    for _ in 0..max_rounds {
        tokio::task::yield_now().await;
        let p = progress();
        if p == last {
            stable += 1;
            if stable >= stable_rounds {
                return;
            }
        } else {
            stable = 0;
            last = p;
        }
    }
}

pub async fn settle() {
    for _ in 0..20 {
        tokio::task::yield_now().await;
    }
}

/// Advance the paused clock by `d` and let timers and tasks run.
pub async fn step_clock(d: Duration) {
    tokio::time::advance(d).await;
    settle().await;
}

pub fn fixtures() -> PathBuf {
    super::report::verif_root().join("fixtures")
}

pub fn cert_path(host: &str) -> String {
    fixtures()
        .join("certs")
        .join(format!("{host}.crt"))
        .to_string_lossy()
        .into_owned()
}

pub fn key_path(host: &str) -> String {
    fixtures()
        .join("certs")
        .join(format!("{host}.key"))
        .to_string_lossy()
        .into_owned()
}

pub fn workers() -> usize {
    std::env::var("VERIF_WORKERS")
        .ok()
        .and_then(|s| s.parse().ok())
        .unwrap_or_else(|| {
            std::thread::available_parallelism()
                .map(|n| n.get())
                .unwrap_or(8)
                .min(16)
        })
}
