pub mod explore;
pub mod report;
pub mod sys;
pub mod rt;
pub mod watch;
pub mod sio;
pub mod sstream;
