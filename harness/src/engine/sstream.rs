//! A scripted byte transport (AsyncRead + AsyncWrite): the harness decides when each piece becomes
//! readable and sees everything written; read polls are counted (spin detection, read budget).

use std::collections::VecDeque;
use std::io;
use std::pin::Pin;
use std::sync::{Arc, Mutex};
use std::task::{Context, Poll, Waker};
use tokio::io::{AsyncRead, AsyncWrite, ReadBuf};

#[derive(Default)]
pub struct SState {
    pub inbound: VecDeque<u8>,
    pub in_eof: bool,
    pub in_reset: bool,
    pub read_waker: Option<Waker>,
    pub out: Vec<u8>,
    pub shutdown: bool,
    pub dropped: bool,
    /// number of poll_read calls that found nothing since the last harness event
    pub empty_read_polls: u64,
    pub read_polls: u64,
    /// bytes handed to the code under test so far
    pub pulled: usize,
    /// largest read buffer capacity offered by the code under test
    pub max_read_capacity: usize,
    /// shutdown of the write side stays pending until released (a slow graceful close)
    pub hold_shutdown: bool,
    pub shutdown_waker: Option<Waker>,
    pub shutdown_requested: bool,
}

#[derive(Clone)]
pub struct Handle(pub Arc<Mutex<SState>>);

pub struct SStream(Arc<Mutex<SState>>);

pub fn pair() -> (SStream, Handle) {
    let s = Arc::new(Mutex::new(SState::default()));
    (SStream(s.clone()), Handle(s))
}

impl Handle {
    pub fn push(&self, bytes: &[u8]) {
        let w = {
            let mut g = self.0.lock().unwrap();
            g.inbound.extend(bytes.iter().copied());
            g.empty_read_polls = 0;
            g.read_waker.take()
        };
        if let Some(w) = w {
            w.wake();
        }
    }
    pub fn close(&self) {
        let w = {
            let mut g = self.0.lock().unwrap();
            g.in_eof = true;
            g.empty_read_polls = 0;
            g.read_waker.take()
        };
        if let Some(w) = w {
            w.wake();
        }
    }
    pub fn reset(&self) {
        let w = {
            let mut g = self.0.lock().unwrap();
            g.in_reset = true;
            g.read_waker.take()
        };
        if let Some(w) = w {
            w.wake();
        }
    }
    pub fn hold_shutdown(&self, hold: bool) {
        let w = {
            let mut g = self.0.lock().unwrap();
            g.hold_shutdown = hold;
            if hold { None } else { g.shutdown_waker.take() }
        };
        if let Some(w) = w {
            w.wake();
        }
    }
    pub fn shutdown_requested(&self) -> bool {
        self.0.lock().unwrap().shutdown_requested
    }
    pub fn take_out(&self) -> Vec<u8> {
        std::mem::take(&mut self.0.lock().unwrap().out)
    }
    pub fn out_len(&self) -> usize {
        self.0.lock().unwrap().out.len()
    }
    pub fn is_shutdown(&self) -> bool {
        let g = self.0.lock().unwrap();
        g.shutdown || g.dropped
    }
    pub fn empty_read_polls(&self) -> u64 {
        self.0.lock().unwrap().empty_read_polls
    }
    pub fn pulled(&self) -> usize {
        self.0.lock().unwrap().pulled
    }
    pub fn unread(&self) -> usize {
        self.0.lock().unwrap().inbound.len()
    }
    pub fn progress(&self) -> u64 {
        let g = self.0.lock().unwrap();
        g.read_polls + g.out.len() as u64 + g.pulled as u64 + g.shutdown as u64 + g.dropped as u64
    }
}

impl AsyncRead for SStream {
    fn poll_read(self: Pin<&mut Self>, cx: &mut Context<'_>, buf: &mut ReadBuf<'_>) -> Poll<io::Result<()>> {
        let mut g = self.0.lock().unwrap();
        g.read_polls += 1;
        g.max_read_capacity = g.max_read_capacity.max(buf.remaining());
        if g.in_reset {
            return Poll::Ready(Err(io::Error::from(io::ErrorKind::ConnectionReset)));
        }
        if !g.inbound.is_empty() {
            let n = buf.remaining().min(g.inbound.len());
            let (a, b) = g.inbound.as_slices();
            if a.len() >= n {
                buf.put_slice(&a[..n]);
            } else {
                buf.put_slice(a);
                buf.put_slice(&b[..n - a.len()]);
            }
            g.inbound.drain(..n);
            g.pulled += n;
            return Poll::Ready(Ok(()));
        }
        if g.in_eof {
            return Poll::Ready(Ok(()));
        }
        g.empty_read_polls += 1;
        g.read_waker = Some(cx.waker().clone());
        Poll::Pending
    }
}

impl AsyncWrite for SStream {
    fn poll_write(self: Pin<&mut Self>, _cx: &mut Context<'_>, data: &[u8]) -> Poll<io::Result<usize>> {
        let mut g = self.0.lock().unwrap();
        if g.shutdown {
            return Poll::Ready(Err(io::Error::from(io::ErrorKind::BrokenPipe)));
        }
        g.out.extend_from_slice(data);
        Poll::Ready(Ok(data.len()))
    }
    fn poll_flush(self: Pin<&mut Self>, _cx: &mut Context<'_>) -> Poll<io::Result<()>> {
        Poll::Ready(Ok(()))
    }
    fn poll_shutdown(self: Pin<&mut Self>, cx: &mut Context<'_>) -> Poll<io::Result<()>> {
        let mut g = self.0.lock().unwrap();
        g.shutdown_requested = true;
        if g.hold_shutdown {
            g.shutdown_waker = Some(cx.waker().clone());
            return Poll::Pending;
        }
        g.shutdown = true;
        Poll::Ready(Ok(()))
    }
}

impl Drop for SStream {
    fn drop(&mut self) {
        self.0.lock().unwrap().dropped = true;
    }
}
