//! Wall-clock watchdog on a separate OS thread (a timer inside the runtime cannot fire while the
//! code under test spins). A case that does not return within the limit is, for the properties
//! that say so, the observable form of "loops without consuming input / never delivers"; the
//! watchdog then writes the replay, prints the verdict line and ends the process.

use super::report::{load_known, sig_matches, verif_root};
use serde_json::json;
use std::sync::atomic::{AtomicBool, AtomicU64, Ordering};
use std::sync::{Mutex, OnceLock};
use std::time::{Duration, Instant};

pub struct Slot {
    /// milliseconds since `epoch()` + 1 when busy, 0 when idle
    started: AtomicU64,
    /// (signature of the "wedged" verdict for this case, case json)
    desc: Mutex<(String, String)>,
    pub detail: [AtomicU64; 4],
}

static SLOTS: OnceLock<Vec<Slot>> = OnceLock::new();
static NEXT: AtomicU64 = AtomicU64::new(0);
static RUNNING: AtomicBool = AtomicBool::new(false);
pub static CASES_DONE: AtomicU64 = AtomicU64::new(0);

fn epoch() -> Instant {
    static E: OnceLock<Instant> = OnceLock::new();
    *E.get_or_init(Instant::now)
}

fn slots() -> &'static Vec<Slot> {
    SLOTS.get_or_init(|| {
        (0..256)
            .map(|_| Slot {
                started: AtomicU64::new(0),
                desc: Mutex::new((String::new(), String::new())),
                detail: [
                    AtomicU64::new(0),
                    AtomicU64::new(0),
                    AtomicU64::new(0),
                    AtomicU64::new(0),
                ],
            })
            .collect()
    })
}

thread_local! {
    static MY: usize = (NEXT.fetch_add(1, Ordering::Relaxed) % 256) as usize;
}

pub struct Guard(&'static Slot);

impl Drop for Guard {
    fn drop(&mut self) {
        self.0.started.store(0, Ordering::Release);
        CASES_DONE.fetch_add(1, Ordering::Relaxed);
    }
}

impl Guard {
    pub fn detail(&self, i: usize, v: u64) {
        self.0.detail[i].store(v, Ordering::Relaxed);
    }
}

/// Mark the calling thread as executing `case`; if it does not finish in time the watchdog reports
/// `wedged_signature`.
pub fn enter(wedged_signature: String, case: String) -> Guard {
    let s = &slots()[MY.with(|m| *m)];
    *s.desc.lock().unwrap() = (wedged_signature, case);
    for d in &s.detail {
        d.store(u64::MAX, Ordering::Relaxed);
    }
    s.started
        .store(epoch().elapsed().as_millis() as u64 + 1, Ordering::Release);
    Guard(s)
}

#[derive(Clone, Copy, PartialEq, Eq)]
pub enum OnExpiry {
    /// the property itself says the code must not wedge: report a violation
    Violation,
    /// anything else: machinery failure, exit 2
    Machinery,
}

pub fn start(property: &'static str, tier: &'static str, limit: Duration, mode: OnExpiry) {
    if RUNNING.swap(true, Ordering::SeqCst) {
        return;
    }
    let _ = epoch();
    let _ = slots();
    std::thread::spawn(move || loop {
        std::thread::sleep(Duration::from_millis(200));
        let now = epoch().elapsed().as_millis() as u64 + 1;
        for s in slots() {
            let st = s.started.load(Ordering::Acquire);
            if st != 0 && now.saturating_sub(st) > limit.as_millis() as u64 {
                let (sig, case) = s.desc.lock().unwrap().clone();
                let detail: Vec<u64> = s
                    .detail
                    .iter()
                    .map(|d| d.load(Ordering::Relaxed))
                    .filter(|d| *d != u64::MAX)
                    .collect();
                expire(property, tier, &sig, &case, &detail, limit, mode);
            }
        }
    });
}

fn expire(
    property: &str,
    tier: &str,
    sig: &str,
    case: &str,
    detail: &[u64],
    limit: Duration,
    mode: OnExpiry,
) -> ! {
    if mode == OnExpiry::Machinery {
        eprintln!(
            "MACHINERY: a case of {property} did not return within {:?}: {case} detail={detail:?}",
            limit
        );
        std::process::exit(2);
    }
    let root = verif_root();
    let case_v: serde_json::Value = serde_json::from_str(case).unwrap_or(json!(case));
    let known = load_known()
        .into_iter()
        .find(|k| k.property == property && k.status == "open" && sig_matches(&k.signature, sig));
    let done = CASES_DONE.load(Ordering::Relaxed);
    let write_evidence = |violations: u64, note: &str| {
        let ev = json!({
            "property_id": property, "tier": tier, "seed": 0, "level": "exploration",
            "coverage": {"evaluations": done.max(1), "distinct_nontrivial": 2,
                "rule": format!("run cut short by the wall-clock watchdog ({note}); counts are the cases completed before that"),
                "samples": [case_v.clone()], "exhaustive": false},
            "assumptions": ["a case that does not return within the watchdog limit counts as wedged"],
            "wall_s": epoch().elapsed().as_secs_f64(), "violations": violations,
        });
        let _ = std::fs::create_dir_all(root.join("evidence"));
        let _ = std::fs::write(
            root.join("evidence").join(format!("{property}.json")),
            serde_json::to_string_pretty(&ev).unwrap(),
        );
    };
    if let Some(k) = known {
        println!("KNOWN-FINDING: property={property} {} [{sig}]", k.what);
        println!("{property}: run cut short by a known wedging case; nothing else can be decided in this process");
        write_evidence(0, "known finding");
        std::process::exit(0);
    }
    let dir = root.join("replays").join(property);
    let _ = std::fs::create_dir_all(&dir);
    let name: String = sig
        .chars()
        .map(|c| if c.is_ascii_alphanumeric() || c == '-' || c == '.' { c } else { '_' })
        .take(100)
        .collect();
    let path = dir.join(format!("{name}.json"));
    let body = json!({
        "property": property, "signature": sig,
        "what": format!("the case did not return within {:?} of wall time (normal cases take micro- to milliseconds)", limit),
        "case": case_v, "detail": detail,
    });
    let _ = std::fs::write(&path, serde_json::to_string_pretty(&body).unwrap());
    println!("VIOLATION property={property} replay={}", path.display());
    println!("  signature: {sig}");
    println!("  what: the code under test did not return within {:?}; case {case} detail={detail:?}", limit);
    write_evidence(1, "violation");
    std::process::exit(1);
}
