//! Static interposition of `getaddrinfo` / `freeaddrinfo` / `connect`: the harness binary defines
//! these symbols itself, so tokio's resolver (`lookup_host`, which runs on the blocking pool) and
//! connector (`TcpStream::connect`, `UdpSocket::connect`) go through them.
//!
//! * resolver answers are scripted per host name (global table, names are unique per case);
//! * `connect` to a non-loopback address is *recorded* and answered by a scripted rule (errno, or
//!   redirect to a loopback canary) without ever emitting a packet; loopback connects pass through
//!   to libc (dlsym RTLD_NEXT) and are recorded as well.

use std::cell::RefCell;
use std::collections::HashMap;
use std::ffi::{CStr, CString};
use std::net::{IpAddr, Ipv4Addr, Ipv6Addr, SocketAddr, SocketAddrV4, SocketAddrV6};
use std::sync::{Mutex, OnceLock, RwLock};

#[derive(Clone, Debug)]
pub enum HostAnswer {
    Addrs(Vec<IpAddr>),
    /// EAI_* code
    Fail(i32),
}

#[derive(Clone, Copy, Debug)]
pub enum ConnectAnswer {
    /// forward to libc unchanged
    PassThrough,
    /// fail immediately with this errno
    Errno(i32),
    /// connect to this loopback port instead (same family), i.e. "the destination accepted"
    RedirectLoopback(u16),
}

#[derive(Clone, Debug, PartialEq, Eq, Hash, serde::Serialize)]
pub enum SysEvent {
    Resolve(String),
    Connect { addr: SocketAddr, sock_type: i32 },
}

type ConnectRule = fn(&SocketAddr, i32) -> ConnectAnswer;

fn hosts() -> &'static RwLock<HashMap<String, HostAnswer>> {
    static H: OnceLock<RwLock<HashMap<String, HostAnswer>>> = OnceLock::new();
    H.get_or_init(|| RwLock::new(HashMap::new()))
}

fn resolve_log() -> &'static Mutex<Vec<String>> {
    static L: OnceLock<Mutex<Vec<String>>> = OnceLock::new();
    L.get_or_init(|| Mutex::new(Vec::new()))
}

thread_local! {
    static CONNECT_LOG: RefCell<Vec<SysEvent>> = const { RefCell::new(Vec::new()) };
    static CONNECT_RULE: RefCell<Option<ConnectRule>> = const { RefCell::new(None) };
    static REDIRECT_PORT: std::cell::Cell<u16> = const { std::cell::Cell::new(0) };
}

pub fn script_host(name: &str, a: HostAnswer) {
    hosts().write().unwrap().insert(name.to_string(), a);
}

pub fn unscript_host(name: &str) {
    hosts().write().unwrap().remove(name);
}

/// per-thread rule for non-loopback connects; default (None) = ENETUNREACH
pub fn script_connect(rule: Option<ConnectRule>) {
    CONNECT_RULE.with(|r| *r.borrow_mut() = rule);
}

pub fn set_redirect_port(p: u16) {
    REDIRECT_PORT.with(|c| c.set(p));
}

pub fn redirect_port() -> u16 {
    REDIRECT_PORT.with(|c| c.get())
}

pub fn take_connect_log() -> Vec<SysEvent> {
    CONNECT_LOG.with(|l| std::mem::take(&mut *l.borrow_mut()))
}

pub fn take_resolve_log(matching: impl Fn(&str) -> bool) -> Vec<String> {
    let mut g = resolve_log().lock().unwrap();
    let (mine, rest): (Vec<String>, Vec<String>) = g.drain(..).partition(|n| matching(n));
    *g = rest;
    mine
}

unsafe fn sockaddr_to_std(addr: *const libc::sockaddr, len: libc::socklen_t) -> Option<SocketAddr> {
    if addr.is_null() {
        return None;
    }
    match (*addr).sa_family as i32 {
        libc::AF_INET if len as usize >= std::mem::size_of::<libc::sockaddr_in>() => {
            let a = &*(addr as *const libc::sockaddr_in);
            Some(SocketAddr::V4(SocketAddrV4::new(
                Ipv4Addr::from(a.sin_addr.s_addr.to_ne_bytes()),
                u16::from_be(a.sin_port),
            )))
        }
        libc::AF_INET6 if len as usize >= std::mem::size_of::<libc::sockaddr_in6>() => {
            let a = &*(addr as *const libc::sockaddr_in6);
            Some(SocketAddr::V6(SocketAddrV6::new(
                Ipv6Addr::from(a.sin6_addr.s6_addr),
                u16::from_be(a.sin6_port),
                a.sin6_flowinfo,
                a.sin6_scope_id,
            )))
        }
        _ => None,
    }
}

type ConnectFn =
    unsafe extern "C" fn(libc::c_int, *const libc::sockaddr, libc::socklen_t) -> libc::c_int;
type GaiFn = unsafe extern "C" fn(
    *const libc::c_char,
    *const libc::c_char,
    *const libc::addrinfo,
    *mut *mut libc::addrinfo,
) -> libc::c_int;
type FreeGaiFn = unsafe extern "C" fn(*mut libc::addrinfo);

unsafe fn next_sym(name: &str) -> *mut libc::c_void {
    let c = CString::new(name).unwrap();
    let p = libc::dlsym(libc::RTLD_NEXT, c.as_ptr());
    if p.is_null() {
        eprintln!("MACHINERY: dlsym(RTLD_NEXT, {name}) failed");
        libc::_exit(2);
    }
    p
}

fn real_connect() -> ConnectFn {
    static F: OnceLock<usize> = OnceLock::new();
    let p = *F.get_or_init(|| unsafe { next_sym("connect") as usize });
    unsafe { std::mem::transmute::<usize, ConnectFn>(p) }
}

type SendFn = unsafe extern "C" fn(libc::c_int, *const libc::c_void, libc::size_t, libc::c_int) -> libc::ssize_t;

fn real_send() -> SendFn {
    static F: OnceLock<usize> = OnceLock::new();
    let p = *F.get_or_init(|| unsafe { next_sym("send") as usize });
    unsafe { std::mem::transmute::<usize, SendFn>(p) }
}

thread_local! {
    /// (bytes offered, accepted by the kernel) for every send(2) on a datagram socket of this thread
    static UDP_SEND_LOG: RefCell<Option<Vec<(usize, bool)>>> = const { RefCell::new(None) };
}

/// start recording send(2) calls on datagram sockets made by this thread
pub fn record_udp_sends() {
    UDP_SEND_LOG.with(|l| *l.borrow_mut() = Some(Vec::new()));
}

/// what was recorded since `record_udp_sends` (recording goes on)
pub fn udp_sends() -> Vec<(usize, bool)> {
    UDP_SEND_LOG.with(|l| l.borrow().clone().unwrap_or_default())
}

pub fn stop_recording_udp_sends() {
    UDP_SEND_LOG.with(|l| *l.borrow_mut() = None);
}

/// # Safety
/// libc ABI
#[no_mangle]
pub unsafe extern "C" fn send(fd: libc::c_int, buf: *const libc::c_void, len: libc::size_t, flags: libc::c_int) -> libc::ssize_t {
    let r = real_send()(fd, buf, len, flags);
    let recording = UDP_SEND_LOG.try_with(|l| l.try_borrow().map(|l| l.is_some()).unwrap_or(false)).unwrap_or(false);
    if recording {
        let saved = *libc::__errno_location();
        let mut sock_type: libc::c_int = 0;
        let mut sl = std::mem::size_of::<libc::c_int>() as libc::socklen_t;
        libc::getsockopt(fd, libc::SOL_SOCKET, libc::SO_TYPE, &mut sock_type as *mut _ as *mut libc::c_void, &mut sl);
        if sock_type == libc::SOCK_DGRAM {
            let would_block = r < 0 && (saved == libc::EAGAIN || saved == libc::EWOULDBLOCK);
            if !would_block {
                let _ = UDP_SEND_LOG.try_with(|l| {
                    if let Ok(mut l) = l.try_borrow_mut() {
                        if let Some(v) = l.as_mut() {
                            v.push((len, r >= 0));
                        }
                    }
                });
            }
        }
        *libc::__errno_location() = saved;
    }
    r
}

fn real_gai() -> GaiFn {
    static F: OnceLock<usize> = OnceLock::new();
    let p = *F.get_or_init(|| unsafe { next_sym("getaddrinfo") as usize });
    unsafe { std::mem::transmute::<usize, GaiFn>(p) }
}

fn real_freegai() -> FreeGaiFn {
    static F: OnceLock<usize> = OnceLock::new();
    let p = *F.get_or_init(|| unsafe { next_sym("freeaddrinfo") as usize });
    unsafe { std::mem::transmute::<usize, FreeGaiFn>(p) }
}

fn is_loopback(a: &SocketAddr) -> bool {
    match a.ip() {
        IpAddr::V4(v4) => v4.is_loopback(),
        IpAddr::V6(v6) => v6.is_loopback(),
    }
}

unsafe fn set_errno(e: i32) {
    *libc::__errno_location() = e;
}

/// # Safety
/// libc ABI
#[no_mangle]
pub unsafe extern "C" fn connect(
    fd: libc::c_int,
    addr: *const libc::sockaddr,
    len: libc::socklen_t,
) -> libc::c_int {
    let Some(sa) = sockaddr_to_std(addr, len) else {
        return real_connect()(fd, addr, len);
    };
    let mut sock_type: libc::c_int = 0;
    let mut sl = std::mem::size_of::<libc::c_int>() as libc::socklen_t;
    libc::getsockopt(
        fd,
        libc::SOL_SOCKET,
        libc::SO_TYPE,
        &mut sock_type as *mut _ as *mut libc::c_void,
        &mut sl,
    );
    let _ = CONNECT_LOG.try_with(|l| {
        if let Ok(mut l) = l.try_borrow_mut() {
            l.push(SysEvent::Connect {
                addr: sa,
                sock_type,
            })
        }
    });
    if is_loopback(&sa) {
        return real_connect()(fd, addr, len);
    }
    let rule = CONNECT_RULE
        .try_with(|r| r.try_borrow().ok().and_then(|r| *r))
        .ok()
        .flatten();
    let ans = match rule {
        Some(f) => f(&sa, sock_type),
        None => ConnectAnswer::Errno(libc::ENETUNREACH),
    };
    match ans {
        ConnectAnswer::PassThrough => {
            // never let a packet leave for a non-loopback destination
            set_errno(libc::ENETUNREACH);
            -1
        }
        ConnectAnswer::Errno(e) => {
            set_errno(e);
            -1
        }
        ConnectAnswer::RedirectLoopback(port) => match sa {
            SocketAddr::V4(_) => {
                let mut a: libc::sockaddr_in = std::mem::zeroed();
                a.sin_family = libc::AF_INET as libc::sa_family_t;
                a.sin_port = port.to_be();
                a.sin_addr.s_addr = u32::from_ne_bytes([127, 0, 0, 1]);
                real_connect()(
                    fd,
                    &a as *const _ as *const libc::sockaddr,
                    std::mem::size_of::<libc::sockaddr_in>() as libc::socklen_t,
                )
            }
            SocketAddr::V6(_) => {
                let mut a: libc::sockaddr_in6 = std::mem::zeroed();
                a.sin6_family = libc::AF_INET6 as libc::sa_family_t;
                a.sin6_port = port.to_be();
                a.sin6_addr.s6_addr = Ipv6Addr::LOCALHOST.octets();
                real_connect()(
                    fd,
                    &a as *const _ as *const libc::sockaddr,
                    std::mem::size_of::<libc::sockaddr_in6>() as libc::socklen_t,
                )
            }
        },
    }
}

fn ours() -> &'static Mutex<HashMap<usize, Vec<(usize, usize)>>> {
    // head pointer -> list of (addrinfo ptr, sockaddr ptr) to free
    static O: OnceLock<Mutex<HashMap<usize, Vec<(usize, usize)>>>> = OnceLock::new();
    O.get_or_init(|| Mutex::new(HashMap::new()))
}

unsafe fn build_list(addrs: &[IpAddr], port: u16, socktype: i32) -> *mut libc::addrinfo {
    let mut nodes: Vec<(usize, usize)> = Vec::new();
    let mut head: *mut libc::addrinfo = std::ptr::null_mut();
    let mut prev: *mut libc::addrinfo = std::ptr::null_mut();
    for ip in addrs {
        let ai = Box::into_raw(Box::new(std::mem::zeroed::<libc::addrinfo>()));
        let sa_ptr: *mut libc::sockaddr;
        match ip {
            IpAddr::V4(v4) => {
                let mut a: libc::sockaddr_in = std::mem::zeroed();
                a.sin_family = libc::AF_INET as libc::sa_family_t;
                a.sin_port = port.to_be();
                a.sin_addr.s_addr = u32::from_ne_bytes(v4.octets());
                let b = Box::into_raw(Box::new(a));
                sa_ptr = b as *mut libc::sockaddr;
                (*ai).ai_family = libc::AF_INET;
                (*ai).ai_addrlen = std::mem::size_of::<libc::sockaddr_in>() as libc::socklen_t;
            }
            IpAddr::V6(v6) => {
                let mut a: libc::sockaddr_in6 = std::mem::zeroed();
                a.sin6_family = libc::AF_INET6 as libc::sa_family_t;
                a.sin6_port = port.to_be();
                a.sin6_addr.s6_addr = v6.octets();
                let b = Box::into_raw(Box::new(a));
                sa_ptr = b as *mut libc::sockaddr;
                (*ai).ai_family = libc::AF_INET6;
                (*ai).ai_addrlen = std::mem::size_of::<libc::sockaddr_in6>() as libc::socklen_t;
            }
        }
        (*ai).ai_socktype = if socktype == 0 { libc::SOCK_STREAM } else { socktype };
        (*ai).ai_protocol = 0;
        (*ai).ai_addr = sa_ptr;
        (*ai).ai_canonname = std::ptr::null_mut();
        (*ai).ai_next = std::ptr::null_mut();
        if head.is_null() {
            head = ai;
        } else {
            (*prev).ai_next = ai;
        }
        prev = ai;
        nodes.push((ai as usize, sa_ptr as usize));
    }
    if !head.is_null() {
        ours().lock().unwrap().insert(head as usize, nodes);
    }
    head
}

/// # Safety
/// libc ABI
#[no_mangle]
pub unsafe extern "C" fn getaddrinfo(
    node: *const libc::c_char,
    service: *const libc::c_char,
    hints: *const libc::addrinfo,
    res: *mut *mut libc::addrinfo,
) -> libc::c_int {
    let name = if node.is_null() {
        None
    } else {
        CStr::from_ptr(node).to_str().ok().map(|s| s.to_string())
    };
    if let Some(name) = &name {
        resolve_log().lock().unwrap().push(name.clone());
        let ans = hosts().read().unwrap().get(name).cloned();
        if let Some(ans) = ans {
            return match ans {
                HostAnswer::Fail(code) => code,
                HostAnswer::Addrs(v) if v.is_empty() => libc::EAI_NONAME,
                HostAnswer::Addrs(v) => {
                    let port = if service.is_null() {
                        0
                    } else {
                        CStr::from_ptr(service)
                            .to_str()
                            .ok()
                            .and_then(|s| s.parse::<u16>().ok())
                            .unwrap_or(0)
                    };
                    let st = if hints.is_null() { 0 } else { (*hints).ai_socktype };
                    *res = build_list(&v, port, st);
                    0
                }
            };
        }
        // unscripted: only numeric spellings (and "localhost" through the files database) may be
        // answered by libc; nothing ever goes to DNS
        let mut h: libc::addrinfo = if hints.is_null() {
            std::mem::zeroed()
        } else {
            *hints
        };
        if name != "localhost" {
            h.ai_flags |= libc::AI_NUMERICHOST;
        }
        return real_gai()(node, service, &h, res);
    }
    real_gai()(node, service, hints, res)
}

/// # Safety
/// libc ABI
#[no_mangle]
pub unsafe extern "C" fn freeaddrinfo(res: *mut libc::addrinfo) {
    if res.is_null() {
        return;
    }
    let mine = ours().lock().unwrap().remove(&(res as usize));
    match mine {
        Some(nodes) => {
            for (ai, sa) in nodes {
                let ai = ai as *mut libc::addrinfo;
                if (*ai).ai_family == libc::AF_INET {
                    drop(Box::from_raw(sa as *mut libc::sockaddr_in));
                } else {
                    drop(Box::from_raw(sa as *mut libc::sockaddr_in6));
                }
                drop(Box::from_raw(ai));
            }
        }
        None => real_freegai()(res),
    }
}
