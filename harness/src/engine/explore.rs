//! Stateless, deviation-bounded depth-first explorer over choice sequences, an explicit-state
//! breadth-first search over operation histories, and a parallel sweep over an indexed input domain.
//!
//! Code under test never sees any of this: the harness *environment* asks `Chooser::pick` whenever
//! something could go more than one way.

use super::report::Violation;
use std::collections::{HashMap, HashSet};
use std::hash::{Hash, Hasher};
use std::sync::atomic::{AtomicBool, AtomicU64, Ordering};
use std::sync::{Condvar, Mutex};
use std::time::{Duration, Instant};

#[derive(Clone, Debug, serde::Serialize, serde::Deserialize, PartialEq, Eq)]
pub struct Choice {
    pub label: String,
    pub n: u16,
    pub picked: u16,
    /// deviation cost of every non-default alternative at this point (0 = free enumeration)
    pub alt_cost: u8,
}

pub struct Chooser {
    prefix: Vec<u16>,
    pub trace: Vec<Choice>,
}

impl Chooser {
    pub fn new(prefix: Vec<u16>) -> Self {
        Self {
            prefix,
            trace: Vec::new(),
        }
    }

    fn pick_inner(&mut self, label: &str, n: usize, alt_cost: u8) -> usize {
        assert!(n >= 1 && n < u16::MAX as usize, "pick: bad n at {label}");
        let i = self.trace.len();
        let picked = if i < self.prefix.len() {
            let p = self.prefix[i] as usize;
            if p >= n {
                // a divergence while replaying a prefix is a machinery error, never a verdict
                eprintln!(
                    "MACHINERY: replay divergence at choice {i} ({label}): recorded {p} >= n {n}"
                );
                std::process::exit(2);
            }
            p
        } else {
            0
        };
        self.trace.push(Choice {
            label: label.to_string(),
            n: n as u16,
            picked: picked as u16,
            alt_cost,
        });
        picked
    }

    /// `n` alternatives, 0 is the default; every other alternative costs one deviation.
    pub fn pick(&mut self, label: &str, n: usize) -> usize {
        self.pick_inner(label, n, 1)
    }

    /// `n` alternatives that are all explored regardless of the deviation budget.
    pub fn pick_free(&mut self, label: &str, n: usize) -> usize {
        self.pick_inner(label, n, 0)
    }

    pub fn replaying(&self) -> bool {
        self.trace.len() < self.prefix.len()
    }

    pub fn picks(&self) -> Vec<u16> {
        self.trace.iter().map(|c| c.picked).collect()
    }
}

#[derive(Clone, Debug)]
pub struct Bounds {
    pub max_deviations: u8,
    pub max_executions: u64,
    pub wall: Duration,
    pub workers: usize,
}

#[derive(Clone, Debug, Default, serde::Serialize)]
pub struct Stats {
    pub executions: u64,
    pub choice_points: u64,
    pub max_depth: u64,
    /// highest deviation bound whose exploration ran to completion (None = not even 0)
    pub deviation_level_completed: Option<u8>,
    pub capped: bool,
    pub distinct_obs: u64,
    pub per_level_executions: Vec<u64>,
}

pub fn hash_of<T: Hash>(t: &T) -> u64 {
    let mut h = std::collections::hash_map::DefaultHasher::new();
    t.hash(&mut h);
    h.finish()
}

/// One complete execution of real code under the given chooser. Returns an observation digest
/// (for outcome counting) or a violation.
pub trait Scenario: Sync {
    fn run(&self, ch: &mut Chooser) -> Result<u64, Violation>;
}

impl<F> Scenario for F
where
    F: Fn(&mut Chooser) -> Result<u64, Violation> + Sync,
{
    fn run(&self, ch: &mut Chooser) -> Result<u64, Violation> {
        self(ch)
    }
}

struct Queue {
    items: Mutex<(Vec<Vec<u16>>, usize)>, // (stack, busy workers)
    cv: Condvar,
}

/// Explore all choice sequences whose deviation cost is <= bound, for bound = 0, 1, .. max.
/// Returns stats, the violations found (trace + violation), and the observation digests.
pub fn explore<S: Scenario>(
    s: &S,
    b: &Bounds,
    per_worker_init: &(dyn Fn() + Sync),
) -> (Stats, Vec<(Vec<Choice>, Violation)>, HashSet<u64>) {
    let started = Instant::now();
    let mut stats = Stats::default();
    let mut all_viol: Vec<(Vec<Choice>, Violation)> = Vec::new();
    let mut all_obs: HashSet<u64> = HashSet::new();

    for level in 0..=b.max_deviations {
        let q = Queue {
            items: Mutex::new((vec![vec![]], 0)),
            cv: Condvar::new(),
        };
        let execs = AtomicU64::new(0);
        let cps = AtomicU64::new(0);
        let maxd = AtomicU64::new(0);
        let capped = AtomicBool::new(false);
        let viol: Mutex<Vec<(Vec<Choice>, Violation)>> = Mutex::new(Vec::new());
        let obs: Mutex<HashSet<u64>> = Mutex::new(HashSet::new());

        std::thread::scope(|sc| {
            for _ in 0..b.workers.max(1) {
                sc.spawn(|| {
                    per_worker_init();
                    let mut local_obs: HashSet<u64> = HashSet::new();
                    loop {
                        let prefix = {
                            let mut g = q.items.lock().unwrap();
                            loop {
                                if capped.load(Ordering::Relaxed) {
                                    g.0.clear();
                                }
                                if let Some(p) = g.0.pop() {
                                    g.1 += 1;
                                    break Some(p);
                                }
                                if g.1 == 0 {
                                    q.cv.notify_all();
                                    break None;
                                }
                                g = q.cv.wait(g).unwrap();
                            }
                        };
                        let Some(prefix) = prefix else { break };
                        let plen = prefix.len();
                        let mut ch = Chooser::new(prefix);
                        let r = s.run(&mut ch);
                        if ch.trace.len() < plen {
                            eprintln!("MACHINERY: execution ended before its replay prefix was consumed ({} < {})", ch.trace.len(), plen);
                            std::process::exit(2);
                        }
                        let n = execs.fetch_add(1, Ordering::Relaxed) + 1;
                        cps.fetch_add(ch.trace.len() as u64, Ordering::Relaxed);
                        maxd.fetch_max(ch.trace.len() as u64, Ordering::Relaxed);
                        match r {
                            Ok(o) => {
                                local_obs.insert(o);
                            }
                            Err(v) => {
                                let mut g = viol.lock().unwrap();
                                if g.len() < 10_000 {
                                    g.push((ch.trace.clone(), v));
                                }
                            }
                        }
                        // children
                        let mut children = Vec::new();
                        let mut used: u32 = ch.trace[..plen]
                            .iter()
                            .map(|c| if c.picked != 0 { c.alt_cost as u32 } else { 0 })
                            .sum();
                        for i in plen..ch.trace.len() {
                            let c = &ch.trace[i];
                            if used + c.alt_cost as u32 <= level as u32 {
                                for alt in 1..c.n {
                                    let mut p: Vec<u16> =
                                        ch.trace[..i].iter().map(|c| c.picked).collect();
                                    p.push(alt);
                                    children.push(p);
                                }
                            }
                            // default branch taken at i costs nothing
                            let _ = &mut used;
                        }
                        if n >= b.max_executions || started.elapsed() > b.wall {
                            capped.store(true, Ordering::Relaxed);
                        }
                        let mut g = q.items.lock().unwrap();
                        g.1 -= 1;
                        if !capped.load(Ordering::Relaxed) {
                            g.0.extend(children);
                        }
                        q.cv.notify_all();
                    }
                    obs.lock().unwrap().extend(local_obs);
                });
            }
        });

        let e = execs.load(Ordering::Relaxed);
        stats.executions += e;
        stats.per_level_executions.push(e);
        stats.choice_points += cps.load(Ordering::Relaxed);
        stats.max_depth = stats.max_depth.max(maxd.load(Ordering::Relaxed));
        all_obs.extend(obs.into_inner().unwrap());
        let v = viol.into_inner().unwrap();
        let had_viol = !v.is_empty();
        all_viol.extend(v);
        if capped.load(Ordering::Relaxed) {
            stats.capped = true;
            break;
        }
        stats.deviation_level_completed = Some(level);
        if had_viol {
            // the first counterexamples have the fewest deviations; deeper levels would repeat them
            break;
        }
    }
    stats.distinct_obs = all_obs.len() as u64;
    (stats, all_viol, all_obs)
}

/// Run exactly one recorded choice sequence.
pub fn run_one<S: Scenario>(s: &S, picks: Vec<u16>) -> (Vec<Choice>, Result<u64, Violation>) {
    let mut ch = Chooser::new(picks);
    let r = s.run(&mut ch);
    (ch.trace, r)
}

// -------------------------------------------------------------------------------------------------
// Explicit-state breadth-first search over operation histories
// -------------------------------------------------------------------------------------------------

pub struct HistOutcome {
    /// canonical fingerprint of (reference model state, observable implementation state)
    pub canon: u64,
    /// when false the history is a dead end (e.g. the object under test terminated legitimately)
    pub extend: bool,
}

pub trait HistoryModel: Sync {
    type Op: Clone + Send + Sync + std::fmt::Debug + serde::Serialize;
    fn ops(&self) -> Vec<Self::Op>;
    /// Build a fresh real object, replay the whole history on it, check the oracle after every
    /// operation; return the canonical fingerprint of the final state.
    fn run(&self, hist: &[Self::Op]) -> Result<HistOutcome, Violation>;
}

#[derive(Clone, Debug, Default, serde::Serialize)]
pub struct BfsStats {
    pub states: u64,
    pub transitions: u64,
    pub max_depth_completed: u64,
    pub capped: bool,
    pub per_depth_states: Vec<u64>,
}

pub fn bfs<M: HistoryModel>(
    m: &M,
    max_depth: usize,
    wall: Duration,
    workers: usize,
    per_worker_init: &(dyn Fn() + Sync),
) -> (BfsStats, Vec<(Vec<M::Op>, Violation)>, Vec<Vec<M::Op>>) {
    let started = Instant::now();
    let ops = m.ops();
    let mut stats = BfsStats::default();
    let mut violations: Vec<(Vec<M::Op>, Violation)> = Vec::new();
    let mut samples: Vec<Vec<M::Op>> = Vec::new();
    let seen: Mutex<HashMap<u64, ()>> = Mutex::new(HashMap::new());

    // root
    per_worker_init();
    let root = match m.run(&[]) {
        Ok(o) => o,
        Err(v) => {
            violations.push((vec![], v));
            return (stats, violations, samples);
        }
    };
    seen.lock().unwrap().insert(root.canon, ());
    stats.states = 1;
    stats.per_depth_states.push(1);
    let mut frontier: Vec<Vec<M::Op>> = vec![vec![]];

    for depth in 1..=max_depth {
        let work: Vec<(usize, usize)> = (0..frontier.len())
            .flat_map(|i| (0..ops.len()).map(move |j| (i, j)))
            .collect();
        let next_idx = AtomicU64::new(0);
        let next: Mutex<Vec<(usize, usize, Vec<M::Op>)>> = Mutex::new(Vec::new());
        let viol: Mutex<Vec<(usize, usize, Vec<M::Op>, Violation)>> = Mutex::new(Vec::new());
        let trans = AtomicU64::new(0);
        let capped = AtomicBool::new(false);
        std::thread::scope(|sc| {
            for _ in 0..workers.max(1) {
                sc.spawn(|| {
                    per_worker_init();
                    loop {
                        let k = next_idx.fetch_add(1, Ordering::Relaxed) as usize;
                        if k >= work.len() {
                            break;
                        }
                        if started.elapsed() > wall {
                            capped.store(true, Ordering::Relaxed);
                            break;
                        }
                        let (i, j) = work[k];
                        let mut h = frontier[i].clone();
                        h.push(ops[j].clone());
                        trans.fetch_add(1, Ordering::Relaxed);
                        match m.run(&h) {
                            Ok(o) => {
                                let new = seen.lock().unwrap().insert(o.canon, ()).is_none();
                                if new && o.extend {
                                    next.lock().unwrap().push((i, j, h));
                                } else if new {
                                    // counted as a state but not extended
                                    next.lock().unwrap().push((usize::MAX, j, h));
                                }
                            }
                            Err(v) => viol.lock().unwrap().push((i, j, h, v)),
                        }
                    }
                });
            }
        });
        stats.transitions += trans.load(Ordering::Relaxed);
        let mut nx = next.into_inner().unwrap();
        nx.sort_by_key(|(i, j, _)| (*i, *j));
        let new_states = nx.len() as u64;
        stats.states += new_states;
        stats.per_depth_states.push(new_states);
        let mut v = viol.into_inner().unwrap();
        v.sort_by_key(|(i, j, _, _)| (*i, *j));
        let had_viol = !v.is_empty();
        violations.extend(v.into_iter().map(|(_, _, h, v)| (h, v)));
        if capped.load(Ordering::Relaxed) {
            stats.capped = true;
            break;
        }
        stats.max_depth_completed = depth as u64;
        for (_, _, h) in nx.iter().take(2) {
            if samples.len() < 6 {
                samples.push(h.clone());
            }
        }
        frontier = nx
            .into_iter()
            .filter(|(i, _, _)| *i != usize::MAX)
            .map(|(_, _, h)| h)
            .collect();
        if had_viol || frontier.is_empty() {
            break;
        }
    }
    (stats, violations, samples)
}

// -------------------------------------------------------------------------------------------------
// Parallel sweep over an indexed finite domain
// -------------------------------------------------------------------------------------------------

pub struct SweepResult {
    pub evaluations: u64,
    pub completed: bool,
    pub violations: Vec<Violation>,
    /// outcome class -> (count, first index)
    pub classes: HashMap<String, (u64, u64)>,
}

/// Evaluate `f(i)` for every i in 0..n in parallel blocks. `f` returns the outcome class (a short
/// label used for counting distinct non-trivial outcomes) or a violation.
pub fn sweep<F>(n: u64, block: u64, wall: Duration, workers: usize, f: F) -> SweepResult
where
    F: Fn(u64) -> Result<&'static str, Violation> + Sync,
{
    sweep_dyn(n, block, wall, workers, |i| f(i).map(|s| std::borrow::Cow::Borrowed(s)))
}

pub fn sweep_dyn<F>(n: u64, block: u64, wall: Duration, workers: usize, f: F) -> SweepResult
where
    F: Fn(u64) -> Result<std::borrow::Cow<'static, str>, Violation> + Sync,
{
    let started = Instant::now();
    let next = AtomicU64::new(0);
    let evals = AtomicU64::new(0);
    let capped = AtomicBool::new(false);
    let viol: Mutex<Vec<(u64, Violation)>> = Mutex::new(Vec::new());
    let classes: Mutex<HashMap<String, (u64, u64)>> = Mutex::new(HashMap::new());
    std::thread::scope(|sc| {
        for _ in 0..workers.max(1) {
            sc.spawn(|| {
                let mut local: HashMap<String, (u64, u64)> = HashMap::new();
                let mut local_viol: Vec<(u64, Violation)> = Vec::new();
                loop {
                    let start = next.fetch_add(block, Ordering::Relaxed);
                    if start >= n {
                        break;
                    }
                    if started.elapsed() > wall {
                        capped.store(true, Ordering::Relaxed);
                        break;
                    }
                    let end = (start + block).min(n);
                    for i in start..end {
                        match f(i) {
                            Ok(c) => {
                                if let Some(e) = local.get_mut(c.as_ref()) {
                                    e.0 += 1;
                                } else {
                                    local.insert(c.into_owned(), (1, i));
                                }
                            }
                            Err(v) => {
                                if local_viol.len() < 2000 {
                                    local_viol.push((i, v));
                                }
                            }
                        }
                    }
                    evals.fetch_add(end - start, Ordering::Relaxed);
                }
                let mut g = classes.lock().unwrap();
                for (k, (c, first)) in local {
                    let e = g.entry(k).or_insert((0, first));
                    e.0 += c;
                    e.1 = e.1.min(first);
                }
                viol.lock().unwrap().extend(local_viol);
            });
        }
    });
    let mut v = viol.into_inner().unwrap();
    v.sort_by_key(|(i, _)| *i);
    SweepResult {
        evaluations: evals.load(Ordering::Relaxed),
        completed: !capped.load(Ordering::Relaxed),
        violations: v.into_iter().map(|(_, v)| v).collect(),
        classes: classes.into_inner().unwrap(),
    }
}
