//! Scripted endpoints behind the crate's `pipe::Source` / `pipe::Sink` mirrors. Every call the
//! code under test makes on an endpoint is a choice point of the explorer: the answer (deliver /
//! not yet / error, accept all / some / nothing, ready / pending) is picked by the `Chooser`.

use super::explore::Chooser;
use async_trait::async_trait;
use bytes::Bytes;
use std::future::Future;
use std::io;
use std::pin::Pin;
use std::sync::{Arc, Mutex};
use std::task::{Context, Poll, Waker};
use trusttunnel::verif_hooks::{VSink, VSource};

#[derive(Clone, Debug)]
pub enum Item {
    Chunk(Vec<u8>),
    Eof,
}

#[derive(Default)]
pub struct SourceState {
    pub script: Vec<Item>,
    pub next: usize,
    /// the next item has been held back once already (a held item is delivered when re-asked after a wake)
    pub held: bool,
    /// the harness released the held item (the next poll delivers it)
    pub released: bool,
    pub waker: Option<Waker>,
    pub consumed: usize,
    pub delivered_bytes: usize,
    pub failed: bool,
    pub dropped: bool,
    pub reads_after_end: u32,
    /// event-driven mode: every item is held until the harness releases it (no choice, no cost)
    pub auto_hold: bool,
}

#[derive(Default)]
pub struct SinkState {
    pub log: Vec<u8>,
    pub eof_at: Option<usize>,
    pub eof_calls: u32,
    pub flushed_after_eof: bool,
    pub flush_calls: u32,
    /// remaining bytes acceptable before the sink reports "not writable" (None = unlimited)
    pub window: Option<usize>,
    pub writable_held: bool,
    pub flush_held: bool,
    pub released: bool,
    pub waker: Option<Waker>,
    pub failed: bool,
    pub dropped: bool,
    pub writes_after_eof: u32,
    pub zero_progress_writes: u32,
    /// the peer's window is closed: writes accept nothing, wait_writable pends (no choice)
    pub blocked: bool,
}

pub struct Env {
    pub ch: Chooser,
    pub sources: [SourceState; 2],
    pub sinks: [SinkState; 2],
    /// what may be injected (alphabet switches)
    pub allow_errors: bool,
    pub allow_hold: bool,
    pub allow_partial: bool,
    pub injected_error: Option<String>,
    /// a second `eof()` on a sink fails (HTTP/2-like) instead of being ignored (TCP-like)
    pub strict_eof: bool,
    pub progress: u64,
    pub log: Vec<String>,
}

pub type Shared = Arc<Mutex<Env>>;

pub fn new_env(ch: Chooser, scripts: [Vec<Item>; 2]) -> Shared {
    let [a, b] = scripts;
    Arc::new(Mutex::new(Env {
        ch,
        sources: [
            SourceState { script: a, ..Default::default() },
            SourceState { script: b, ..Default::default() },
        ],
        sinks: [SinkState::default(), SinkState::default()],
        allow_errors: true,
        allow_hold: true,
        allow_partial: true,
        injected_error: None,
        strict_eof: false,
        progress: 0,
        log: vec![],
    }))
}

pub struct ScriptedSource {
    pub env: Shared,
    pub idx: usize,
}

pub struct ScriptedSink {
    pub env: Shared,
    pub idx: usize,
}

const NAMES_SRC: [&str; 2] = ["client-source", "peer-source"];
const NAMES_SINK: [&str; 2] = ["peer-sink", "client-sink"];

struct ReadFut<'a> {
    env: &'a Shared,
    idx: usize,
}

impl Future for ReadFut<'_> {
    type Output = io::Result<Option<Bytes>>;
    fn poll(self: Pin<&mut Self>, cx: &mut Context<'_>) -> Poll<Self::Output> {
        let mut g = self.env.lock().unwrap();
        let e = &mut *g;
        let i = self.idx;
        e.progress += 1;
        if e.sources[i].next >= e.sources[i].script.len() {
            // asked again after end of stream: like the real TCP and HTTP/2 sources, end of
            // stream is reported again; after an error nothing more will ever come
            e.sources[i].reads_after_end += 1;
            if !e.sources[i].failed {
                e.log.push(format!("{}:eof-again", NAMES_SRC[i]));
                return Poll::Ready(Ok(None));
            }
            e.sources[i].waker = Some(cx.waker().clone());
            return Poll::Pending;
        }
        if e.sources[i].auto_hold && !e.sources[i].held {
            e.sources[i].held = true;
            e.sources[i].released = false;
        }
        let held = e.sources[i].held;
        if held && !e.sources[i].released {
            // still held: a re-poll caused by something else does not release it
            e.sources[i].waker = Some(cx.waker().clone());
            return Poll::Pending;
        }
        let mut alts = vec!["deliver"];
        if e.allow_hold && !held {
            alts.push("hold");
        }
        if e.allow_errors && e.injected_error.is_none() {
            alts.push("error");
        }
        let pick = e.ch.pick(&format!("{}.read", NAMES_SRC[i]), alts.len());
        match alts[pick] {
            "deliver" => {
                let s = &mut e.sources[i];
                s.held = false;
                s.released = false;
                let item = s.script[s.next].clone();
                s.next += 1;
                match item {
                    Item::Chunk(b) => {
                        s.delivered_bytes += b.len();
                        e.log.push(format!("{}:chunk{}", NAMES_SRC[i], b.len()));
                        Poll::Ready(Ok(Some(Bytes::from(b))))
                    }
                    Item::Eof => {
                        e.log.push(format!("{}:eof", NAMES_SRC[i]));
                        Poll::Ready(Ok(None))
                    }
                }
            }
            "hold" => {
                e.sources[i].held = true;
                e.sources[i].waker = Some(cx.waker().clone());
                e.log.push(format!("{}:hold", NAMES_SRC[i]));
                Poll::Pending
            }
            _ => {
                e.sources[i].failed = true;
                e.sources[i].next = e.sources[i].script.len();
                e.injected_error = Some(format!("{}.read", NAMES_SRC[i]));
                e.log.push(format!("{}:error", NAMES_SRC[i]));
                Poll::Ready(Err(io::Error::new(io::ErrorKind::ConnectionReset, "injected read error")))
            }
        }
    }
}

#[async_trait]
impl VSource for ScriptedSource {
    async fn read(&mut self) -> io::Result<Option<Bytes>> {
        ReadFut { env: &self.env, idx: self.idx }.await
    }

    fn consume(&mut self, size: usize) -> io::Result<()> {
        let mut g = self.env.lock().unwrap();
        g.sources[self.idx].consumed += size;
        g.progress += 1;
        Ok(())
    }
}

impl Drop for ScriptedSource {
    fn drop(&mut self) {
        self.env.lock().unwrap().sources[self.idx].dropped = true;
    }
}

struct WaitFut<'a> {
    env: &'a Shared,
    idx: usize,
    flush: bool,
}

impl Future for WaitFut<'_> {
    type Output = io::Result<()>;
    fn poll(self: Pin<&mut Self>, cx: &mut Context<'_>) -> Poll<Self::Output> {
        let mut g = self.env.lock().unwrap();
        let e = &mut *g;
        let i = self.idx;
        e.progress += 1;
        let what = if self.flush { "flush" } else { "wait_writable" };
        if e.sinks[i].blocked {
            e.sinks[i].waker = Some(cx.waker().clone());
            return Poll::Pending;
        }
        let held = if self.flush { e.sinks[i].flush_held } else { e.sinks[i].writable_held };
        if held && !e.sinks[i].released {
            e.sinks[i].waker = Some(cx.waker().clone());
            return Poll::Pending;
        }
        let mut alts = vec!["ready"];
        if e.allow_hold && !held {
            alts.push("hold");
        }
        if e.allow_errors && e.injected_error.is_none() {
            alts.push("error");
        }
        let pick = e.ch.pick(&format!("{}.{what}", NAMES_SINK[i]), alts.len());
        match alts[pick] {
            "ready" => {
                let s = &mut e.sinks[i];
                s.released = false;
                if self.flush {
                    s.flush_held = false;
                    s.flush_calls += 1;
                    if s.eof_at.is_some() {
                        s.flushed_after_eof = true;
                    }
                } else {
                    s.writable_held = false;
                    // becoming writable means the peer opened its window again
                    s.window = None;
                }
                e.log.push(format!("{}:{what}-ready", NAMES_SINK[i]));
                Poll::Ready(Ok(()))
            }
            "hold" => {
                let s = &mut e.sinks[i];
                if self.flush {
                    s.flush_held = true;
                } else {
                    s.writable_held = true;
                }
                s.waker = Some(cx.waker().clone());
                e.log.push(format!("{}:{what}-hold", NAMES_SINK[i]));
                Poll::Pending
            }
            _ => {
                e.sinks[i].failed = true;
                e.injected_error = Some(format!("{}.{what}", NAMES_SINK[i]));
                e.log.push(format!("{}:{what}-error", NAMES_SINK[i]));
                Poll::Ready(Err(io::Error::new(io::ErrorKind::BrokenPipe, "injected sink error")))
            }
        }
    }
}

#[async_trait]
impl VSink for ScriptedSink {
    fn write(&mut self, data: Bytes) -> io::Result<Bytes> {
        let mut g = self.env.lock().unwrap();
        let e = &mut *g;
        let i = self.idx;
        e.progress += 1;
        if e.sinks[i].eof_at.is_some() {
            e.sinks[i].writes_after_eof += 1;
        }
        if e.sinks[i].blocked {
            e.log.push(format!("{}:write0/{}(blocked)", NAMES_SINK[i], data.len()));
            return Ok(data);
        }
        let mut alts = vec!["all"];
        if e.allow_partial && data.len() > 1 {
            alts.push("one-byte");
        }
        if e.allow_partial && e.sinks[i].zero_progress_writes == 0 {
            alts.push("nothing");
        }
        if e.allow_errors && e.injected_error.is_none() {
            alts.push("error");
        }
        let pick = e.ch.pick(&format!("{}.write", NAMES_SINK[i]), alts.len());
        let take = match alts[pick] {
            "all" => data.len(),
            "one-byte" => 1,
            "nothing" => {
                e.sinks[i].zero_progress_writes += 1;
                0
            }
            _ => {
                e.sinks[i].failed = true;
                e.injected_error = Some(format!("{}.write", NAMES_SINK[i]));
                e.log.push(format!("{}:write-error", NAMES_SINK[i]));
                return Err(io::Error::new(io::ErrorKind::BrokenPipe, "injected write error"));
            }
        };
        e.sinks[i].log.extend_from_slice(&data[..take]);
        e.log.push(format!("{}:write{}/{}", NAMES_SINK[i], take, data.len()));
        Ok(data.slice(take..))
    }

    fn eof(&mut self) -> io::Result<()> {
        let mut g = self.env.lock().unwrap();
        let e = &mut *g;
        let i = self.idx;
        e.progress += 1;
        e.sinks[i].eof_calls += 1;
        if e.sinks[i].eof_at.is_none() {
            e.sinks[i].eof_at = Some(e.sinks[i].log.len());
            e.log.push(format!("{}:eof", NAMES_SINK[i]));
            return Ok(());
        }
        // like the real HTTP/2 sink: ending an already ended stream is an error
        e.log.push(format!("{}:eof-again", NAMES_SINK[i]));
        if e.strict_eof {
            Err(io::Error::new(io::ErrorKind::Other, "stream already ended"))
        } else {
            Ok(())
        }
    }

    async fn wait_writable(&mut self) -> io::Result<()> {
        WaitFut { env: &self.env, idx: self.idx, flush: false }.await
    }

    async fn flush(&mut self) -> io::Result<()> {
        WaitFut { env: &self.env, idx: self.idx, flush: true }.await
    }
}

impl Drop for ScriptedSink {
    fn drop(&mut self) {
        self.env.lock().unwrap().sinks[self.idx].dropped = true;
    }
}

/// wakers of endpoints that answered "hold" and have not been released yet, in canonical order
pub fn held(env: &Shared) -> Vec<(String, Waker)> {
    let mut g = env.lock().unwrap();
    let mut v = vec![];
    for i in 0..2 {
        if g.sources[i].held && !g.sources[i].released {
            if let Some(w) = g.sources[i].waker.take() {
                v.push((format!("wake:{}", NAMES_SRC[i]), w));
            }
        }
    }
    for i in 0..2 {
        if (g.sinks[i].writable_held || g.sinks[i].flush_held) && !g.sinks[i].released {
            if let Some(w) = g.sinks[i].waker.take() {
                v.push((format!("wake:{}", NAMES_SINK[i]), w));
            }
        }
    }
    v
}

pub fn put_back(env: &Shared, name: &str, w: Waker) {
    let mut g = env.lock().unwrap();
    for i in 0..2 {
        if name == format!("wake:{}", NAMES_SRC[i]) {
            g.sources[i].waker = Some(w);
            return;
        }
        if name == format!("wake:{}", NAMES_SINK[i]) {
            g.sinks[i].waker = Some(w);
            return;
        }
    }
}

/// release the held item / readiness of the named endpoint (the harness then wakes its waker)
pub fn release(env: &Shared, name: &str) {
    let mut g = env.lock().unwrap();
    for i in 0..2 {
        if name == format!("wake:{}", NAMES_SRC[i]) {
            g.sources[i].released = true;
        }
        if name == format!("wake:{}", NAMES_SINK[i]) {
            g.sinks[i].released = true;
        }
    }
}

/// close / reopen the window of sink `i`; reopening wakes a pending wait_writable
pub fn set_blocked(env: &Shared, i: usize, blocked: bool) {
    let w = {
        let mut g = env.lock().unwrap();
        g.sinks[i].blocked = blocked;
        if blocked { None } else { g.sinks[i].waker.take() }
    };
    if let Some(w) = w {
        w.wake();
    }
}
