//! A `log::Log` at trace level that hands every formatted record to the thread that emitted it
//! (tasks of a current-thread runtime log on the harness thread that drives them), and to stderr
//! when VERIF_LOG is set.

use std::cell::RefCell;
use std::sync::atomic::{AtomicBool, Ordering};

pub struct Record {
    pub level: log::Level,
    pub target: String,
    pub file: String,
    pub line: u32,
    pub text: String,
}

thread_local! {
    static CAPTURE: RefCell<Option<Vec<Record>>> = const { RefCell::new(None) };
}

static ECHO: AtomicBool = AtomicBool::new(false);

struct Cap;

impl log::Log for Cap {
    fn enabled(&self, _: &log::Metadata) -> bool {
        true
    }
    fn log(&self, r: &log::Record) {
        let echo = ECHO.load(Ordering::Relaxed);
        let capturing = CAPTURE.try_with(|c| c.borrow().is_some()).unwrap_or(false);
        if !echo && !capturing {
            return;
        }
        // what the endpoint's own loggers (stdout and file) would drop is not log output
        if !trusttunnel::verif_hooks::log_enabled(r.metadata()) {
            return;
        }
        let text = format!("{}", r.args());
        if echo {
            eprintln!("[{} {}:{}] {}", r.level(), r.file().unwrap_or("?"), r.line().unwrap_or(0), text);
        }
        if capturing {
            let _ = CAPTURE.try_with(|c| {
                if let Some(v) = c.borrow_mut().as_mut() {
                    v.push(Record { level: r.level(), target: r.target().to_string(), file: r.file().unwrap_or("?").to_string(), line: r.line().unwrap_or(0), text });
                }
            });
        }
    }
    fn flush(&self) {}
}

static CAP: Cap = Cap;

/// Install the logger (idempotent). Without it the `log` macros are disabled altogether.
pub fn install() {
    ECHO.store(std::env::var_os("VERIF_LOG").is_some(), Ordering::Relaxed);
    if log::set_logger(&CAP).is_ok() {
        log::set_max_level(log::LevelFilter::Trace);
    }
}

/// Start capturing on this thread.
pub fn begin() {
    CAPTURE.with(|c| *c.borrow_mut() = Some(Vec::new()));
}

/// Stop capturing on this thread and return what was logged since `begin()`.
pub fn end() -> Vec<Record> {
    CAPTURE.with(|c| c.borrow_mut().take()).unwrap_or_default()
}
