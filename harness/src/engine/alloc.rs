//! Counting global allocator: per-thread largest single request and live bytes, so that a check can
//! bound what one parser call allocates ("buffers no more than its stated bound").

use std::alloc::{GlobalAlloc, Layout, System};
use std::cell::Cell;

pub struct Counting;

thread_local! {
    static MAX_REQ: Cell<usize> = const { Cell::new(0) };
    static LIVE: Cell<isize> = const { Cell::new(0) };
    static PEAK: Cell<isize> = const { Cell::new(0) };
}

fn on_alloc(n: usize) {
    let _ = MAX_REQ.try_with(|m| {
        if n > m.get() {
            m.set(n)
        }
    });
    let _ = LIVE.try_with(|l| {
        let v = l.get() + n as isize;
        l.set(v);
        let _ = PEAK.try_with(|p| {
            if v > p.get() {
                p.set(v)
            }
        });
    });
}

fn on_free(n: usize) {
    let _ = LIVE.try_with(|l| l.set(l.get() - n as isize));
}

unsafe impl GlobalAlloc for Counting {
    unsafe fn alloc(&self, l: Layout) -> *mut u8 {
        on_alloc(l.size());
        System.alloc(l)
    }
    unsafe fn alloc_zeroed(&self, l: Layout) -> *mut u8 {
        on_alloc(l.size());
        System.alloc_zeroed(l)
    }
    unsafe fn dealloc(&self, p: *mut u8, l: Layout) {
        on_free(l.size());
        System.dealloc(p, l)
    }
    unsafe fn realloc(&self, p: *mut u8, l: Layout, new: usize) -> *mut u8 {
        on_free(l.size());
        on_alloc(new);
        System.realloc(p, l, new)
    }
}

/// what this thread allocated since `begin()`: (largest single request, peak live bytes above the start)
pub struct Meter(isize);

pub fn begin() -> Meter {
    MAX_REQ.with(|m| m.set(0));
    let live = LIVE.with(|l| l.get());
    PEAK.with(|p| p.set(live));
    Meter(live)
}

impl Meter {
    pub fn largest_request(&self) -> usize {
        MAX_REQ.with(|m| m.get())
    }
    pub fn peak_above_start(&self) -> usize {
        (PEAK.with(|p| p.get()) - self.0).max(0) as usize
    }
    pub fn live_above_start(&self) -> usize {
        (LIVE.with(|l| l.get()) - self.0).max(0) as usize
    }
}
