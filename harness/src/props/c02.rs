//! C02 — the TCP tunnel relays the byte stream exactly, both ways.
//!
//! Layer A: the production `DuplexPipe::exchange` driven as ONE future that the harness polls, on
//! four scripted endpoints. Mode I (call-driven): every call on an endpoint is a choice point
//! (deliver / hold / error, accept all / one byte / nothing, ready / hold), all choice sequences
//! with <= N deviations. Mode II (event-driven): every source item waits for the harness, and all
//! interleavings of {deliver left, deliver right, advance the clock by T/2+1ms} are enumerated
//! (so idle-timer expirations cancel and restart the copy loops at every possible point), with
//! <= N sink deviations on top. Oracle: two byte queues + credit/metrics conservation.

use crate::engine::explore::{explore, hash_of, run_one, Bounds, Chooser};
use crate::engine::report::{Report, Tier, Violation};
use crate::engine::rt;
use crate::engine::sio::{self, Item, ScriptedSink, ScriptedSource, Shared};
use serde_json::json;
use std::future::Future;
use std::sync::atomic::{AtomicU32, Ordering};
use std::sync::{Arc, Mutex};
use std::task::{Context, Poll, Wake};
use std::time::Duration;
use trusttunnel::verif_hooks as vh;

pub struct CountWaker(pub AtomicU32);
impl Wake for CountWaker {
    fn wake(self: Arc<Self>) {
        self.0.fetch_add(1, Ordering::SeqCst);
    }
    fn wake_by_ref(self: &Arc<Self>) {
        self.0.fetch_add(1, Ordering::SeqCst);
    }
}

const T_MS: u64 = 1000;

#[derive(Clone, Copy, Debug, PartialEq, Eq, serde::Serialize, serde::Deserialize)]
pub enum Mode {
    CallDriven,
    EventDriven,
}

#[derive(Clone, Debug, serde::Serialize, serde::Deserialize)]
pub struct Case {
    pub mode: Mode,
    /// chunk sizes per direction (client->peer, peer->client); every byte value is distinct
    pub chunks: [Vec<usize>; 2],
    pub errors: bool,
    pub max_clock: u32,
}

fn scripts(case: &Case) -> ([Vec<Item>; 2], [Vec<u8>; 2]) {
    let mut next = 1u8;
    let mut mk = |sizes: &Vec<usize>| -> (Vec<Item>, Vec<u8>) {
        let mut items = vec![];
        let mut all = vec![];
        for s in sizes {
            let c: Vec<u8> = (0..*s)
                .map(|_| {
                    let b = next;
                    next = next.wrapping_add(1);
                    b
                })
                .collect();
            all.extend_from_slice(&c);
            items.push(Item::Chunk(c));
        }
        items.push(Item::Eof);
        (items, all)
    };
    let (a, fa) = mk(&case.chunks[0]);
    let (b, fb) = mk(&case.chunks[1]);
    ([a, b], [fa, fb])
}

pub struct Outcome {
    pub result: Result<(), std::io::ErrorKind>,
    pub elapsed_ms: u64,
    pub clock_advances: u32,
    pub self_wakes: u32,
    pub stalled: bool,
    pub spun: bool,
    pub error_poll_pending: bool,
    pub metrics: [usize; 2],
    pub env: Shared,
}

/// One complete execution of the production pipe under `ch`.
pub fn execute(case: &Case, ch: &mut Chooser) -> Outcome {
    let owned = std::mem::replace(ch, Chooser::new(vec![]));
    let (scr, _) = scripts(case);
    let env = sio::new_env(owned, scr);
    {
        let mut g = env.lock().unwrap();
        g.allow_errors = case.errors;
        if case.mode == Mode::EventDriven {
            g.allow_hold = true; // sinks may still hold (deviation)
            g.sources[0].auto_hold = true;
            g.sources[1].auto_hold = true;
        }
    }
    let metrics: Arc<Mutex<[usize; 2]>> = Arc::new(Mutex::new([0, 0]));
    let out = rt::run_paused({
        let env = env.clone();
        let metrics = metrics.clone();
        let case = case.clone();
        async move {
            let m2 = metrics.clone();
            let fut = vh::run_duplex_pipe(
                (
                    Box::new(ScriptedSource { env: env.clone(), idx: 0 }),
                    Box::new(ScriptedSink { env: env.clone(), idx: 1 }),
                ),
                (
                    Box::new(ScriptedSource { env: env.clone(), idx: 1 }),
                    Box::new(ScriptedSink { env: env.clone(), idx: 0 }),
                ),
                Duration::from_millis(T_MS),
                move |outgoing, n| {
                    m2.lock().unwrap()[if outgoing { 0 } else { 1 }] += n;
                },
            );
            let mut fut = Box::pin(fut);
            let cw = Arc::new(CountWaker(AtomicU32::new(0)));
            let waker = std::task::Waker::from(cw.clone());
            let mut cx = Context::from_waker(&waker);
            let start = tokio::time::Instant::now();
            let mut clock_advances = 0u32;
            let mut self_wakes = 0u32;
            let mut stalled = false;
            let mut spun = false;
            let mut error_poll_pending = false;
            let result = loop {
                let before = cw.0.load(Ordering::SeqCst);
                let had_error = env.lock().unwrap().injected_error.is_some();
                match fut.as_mut().poll(&mut cx) {
                    Poll::Ready(r) => break r.map_err(|e| e.kind()),
                    Poll::Pending => {}
                }
                if !had_error && env.lock().unwrap().injected_error.is_some() {
                    // an injected failure must tear the tunnel down in the very poll that saw it
                    error_poll_pending = true;
                    break Err(std::io::ErrorKind::Other);
                }
                if had_error {
                    error_poll_pending = true;
                    break Err(std::io::ErrorKind::Other);
                }
                if cw.0.load(Ordering::SeqCst) != before {
                    self_wakes += 1;
                    if self_wakes > 64 {
                        spun = true;
                        break Err(std::io::ErrorKind::Other);
                    }
                    continue;
                }
                // environment event
                let mut held = sio::held(&env);
                let clock_ok = clock_advances < case.max_clock;
                let n = held.len() + clock_ok as usize;
                if held.is_empty() {
                    // everything the pipe asked for has been answered and it is still pending
                    stalled = true;
                    break Err(std::io::ErrorKind::Other);
                }
                let k = if n > 1 {
                    let mut g = env.lock().unwrap();
                    let label = format!(
                        "env[{}{}]",
                        held.iter().map(|(n, _)| n.as_str()).collect::<Vec<_>>().join(","),
                        if clock_ok { ",clock" } else { "" }
                    );
                    if case.mode == Mode::EventDriven {
                        g.ch.pick_free(&label, n)
                    } else {
                        g.ch.pick(&label, n)
                    }
                } else {
                    0
                };
                self_wakes = 0;
                if k < held.len() {
                    let (name, w) = held.remove(k);
                    for (n2, w2) in held {
                        sio::put_back(&env, &n2, w2);
                    }
                    sio::release(&env, &name);
                    env.lock().unwrap().log.push(name);
                    w.wake();
                } else {
                    for (n2, w2) in held {
                        sio::put_back(&env, &n2, w2);
                    }
                    clock_advances += 1;
                    env.lock().unwrap().log.push("clock".into());
                    tokio::time::advance(Duration::from_millis(T_MS / 2 + 1)).await;
                }
            };
            drop(fut);
            Outcome {
                result,
                elapsed_ms: start.elapsed().as_millis() as u64,
                clock_advances,
                self_wakes,
                stalled,
                spun,
                error_poll_pending,
                metrics: *metrics.lock().unwrap(),
                env: env.clone(),
            }
        }
    });
    // hand the chooser (with its trace) back
    let mut g = env.lock().unwrap();
    *ch = std::mem::replace(&mut g.ch, Chooser::new(vec![]));
    drop(g);
    out
}

pub fn judge(case: &Case, o: &Outcome) -> Result<u64, Violation> {
    let (_, full) = scripts(case);
    let g = o.env.lock().unwrap();
    let trace: Vec<String> = g.log.clone();
    let mk = |sig: &str, what: String| -> Violation {
        Violation::new(
            format!("C02:{sig}"),
            format!("{what}; events: {}", trace.join(" ")),
            json!({"case": case, "events": trace}),
        )
    };
    let dir_name = ["client->peer", "peer->client"];
    // source d feeds sink d: client-source(0) -> peer-sink(0), peer-source(1) -> client-sink(1)
    for d in 0..2 {
        let src = &g.sources[d];
        let sink = &g.sinks[d];
        let want = &full[d];
        if sink.log.len() > want.len() || sink.log[..] != want[..sink.log.len()] {
            let kind = if sink.log.len() > want.len() { "duplicated-or-extra" } else { "corrupted-or-reordered" };
            return Err(mk(&format!("stream:{kind}:{}", dir_name[d]), format!("{}: delivered {:?} is not a prefix of sent {:?}", dir_name[d], sink.log, want)));
        }
        if src.consumed != sink.log.len() {
            return Err(mk(&format!("credit:{}", dir_name[d]), format!("{}: receive-window credit returned {} != bytes forwarded {}", dir_name[d], src.consumed, sink.log.len())));
        }
        if o.metrics[d] != sink.log.len() {
            return Err(mk(&format!("metrics:{}", dir_name[d]), format!("{}: metrics counted {} != bytes forwarded {}", dir_name[d], o.metrics[d], sink.log.len())));
        }
        // (a repeated eof() after a timer restart is invisible to the real TCP and HTTP/1.1 sinks
        // and unreachable on the HTTP/2 one, so it is not judged; bytes after the first EOF are)
        if let Some(at) = sink.eof_at {
            if at != want.len() || sink.log.len() != want.len() {
                return Err(mk(&format!("eof:early:{}", dir_name[d]), format!("{}: end-of-stream passed on after {} of {} bytes", dir_name[d], at, want.len())));
            }
        }
        if sink.writes_after_eof > 0 {
            return Err(mk(&format!("eof:write-after:{}", dir_name[d]), format!("{}: data written after end-of-stream", dir_name[d])));
        }
    }
    if o.spun {
        return Err(mk("spin", "the pipe keeps waking itself without any environment event".into()));
    }
    if o.stalled {
        return Err(mk("stall", "every request of the pipe was answered, it neither finished nor failed (silent stall)".into()));
    }
    if o.error_poll_pending {
        return Err(mk(
            &format!("error-not-propagated:{}", g.injected_error.clone().unwrap_or_default()),
            format!("a failure was injected at {} and the tunnel was not torn down by that poll", g.injected_error.clone().unwrap_or_default()),
        ));
    }
    let timed_out_possible = o.elapsed_ms > T_MS;
    match (&o.result, &g.injected_error) {
        (Ok(()), None) => {
            for d in 0..2 {
                let sink = &g.sinks[d];
                if sink.log.len() != full[d].len() || sink.eof_at.is_none() || !sink.flushed_after_eof {
                    return Err(mk(&format!("clean-end-incomplete:{}", dir_name[d]), format!("exchange returned Ok but {} saw {} of {} bytes, eof={:?}, flushed={}", dir_name[d], sink.log.len(), full[d].len(), sink.eof_at, sink.flushed_after_eof)));
                }
            }
        }
        (Ok(()), Some(at)) => {
            return Err(mk(&format!("error-swallowed:{at}"), format!("a failure injected at {at} was swallowed: exchange returned Ok")));
        }
        (Err(_), Some(_)) => {}
        (Err(k), None) => {
            if !(*k == std::io::ErrorKind::TimedOut && timed_out_possible) {
                return Err(mk(&format!("spurious-failure:{k:?}"), format!("exchange failed with {k:?} although nothing failed and {} ms (< T) elapsed", o.elapsed_ms)));
            }
        }
    }
    for d in 0..2 {
        if !g.sources[d].dropped || !g.sinks[d].dropped {
            return Err(mk("endpoint-leak", "an endpoint was not released when the exchange ended".into()));
        }
    }
    Ok(hash_of(&(
        format!("{:?}", o.result),
        g.sinks[0].log.len(),
        g.sinks[1].log.len(),
        g.injected_error.clone(),
        o.clock_advances,
    )))
}

fn scenario(case: Case) -> impl Fn(&mut Chooser) -> Result<u64, Violation> + Sync {
    move |ch: &mut Chooser| {
        let o = execute(&case, ch);
        let picks = ch.picks();
        judge(&case, &o).map_err(|mut v| {
            v.case["picks"] = json!(picks);
            v
        })
    }
}

pub fn cases(tier: Tier) -> Vec<(Case, u8)> {
    let (dev_call, dev_event) = tier.pick((3u8, 2u8), (8u8, 6u8));
    vec![
        (Case { mode: Mode::CallDriven, chunks: [vec![3, 2], vec![2, 3]], errors: true, max_clock: 0 }, dev_call),
        (Case { mode: Mode::CallDriven, chunks: [vec![4], vec![]], errors: true, max_clock: 0 }, dev_call + 1),
        (Case { mode: Mode::EventDriven, chunks: [vec![3, 2], vec![2]], errors: false, max_clock: 4 }, dev_event),
        (Case { mode: Mode::EventDriven, chunks: [vec![2], vec![2]], errors: true, max_clock: 3 }, dev_event),
    ]
}

pub fn run(tier: Tier) -> i32 {
    crate::engine::watch::start("C02", tier.name(), Duration::from_secs(60), crate::engine::watch::OnExpiry::Violation);
    let mut rep = Report::new("C02", tier, "model_checking");
    let mut total_exec = 0u64;
    let mut total_cp = 0u64;
    let mut obs_all = std::collections::HashSet::new();
    let mut min_level: Option<u8> = None;
    let mut capped = false;
    for (case, dev) in cases(tier) {
        let b = Bounds {
            max_deviations: dev,
            max_executions: tier.pick(3_000_000, 60_000_000),
            wall: Duration::from_secs(tier.pick(40, 900)),
            workers: rt::workers(),
        };
        let sc = scenario(case.clone());
        let (st, viol, obs) = explore(&sc, &b, &|| {});
        total_exec += st.executions;
        total_cp += st.choice_points;
        capped |= st.capped;
        obs_all.extend(obs);
        min_level = Some(min_level.map_or(st.deviation_level_completed.unwrap_or(0), |m| m.min(st.deviation_level_completed.unwrap_or(0))));
        rep.sub.push(json!({"case": case, "deviation_bound_requested": dev, "deviation_level_completed": st.deviation_level_completed,
            "executions": st.executions, "per_level": st.per_level_executions, "max_choice_points": st.max_depth, "capped": st.capped, "distinct_outcomes": st.distinct_obs}));
        // keep the violation with the fewest choice points per signature
        let mut viol = viol;
        viol.sort_by_key(|(t, _)| t.len());
        for (_, v) in viol {
            rep.violation(v);
        }
    }
    super::c02d::run_into(&mut rep, tier);
    super::cq::c02_into(&mut rep);
    // a sample execution, written out
    {
        let (case, _) = cases(tier).into_iter().nth(2).unwrap();
        let mut ch = Chooser::new(vec![1, 0, 2, 0, 1]);
        let o = execute(&case, &mut ch);
        let ev = o.env.lock().unwrap().log.clone();
        rep.sample(json!({"mode":"event-driven","picks":ch.picks(),"events":ev,"result":format!("{:?}", o.result)}));
    }
    rep.cov("states", total_cp);
    rep.cov("transitions", total_cp);
    rep.cov("traces_validated_against_impl", total_exec);
    rep.cov("executions", total_exec);
    rep.cov("distinct_outcomes", obs_all.len() as u64);
    rep.cov("deviation_level_completed_all_cases", min_level.unwrap_or(0) as u64);
    rep.cov("capped", capped);
    rep.cov("exhaustive", !capped);
    rep.cov("explanation", "states/transitions = choice points visited over all executions (stateless exploration: no state merging); every explored trace is an execution of the production DuplexPipe, so traces_validated_against_impl = executions");
    rep.assume("the pipe is driven as a single future polled by the harness on a paused tokio clock; endpoint answers and the clock are the only nondeterminism");
    rep.assume("real H1/H2/TCP endpoints are exercised by the door-based checks (C08, C10, C16), not here");
    if std::env::var_os("VERIF_DEBUG").is_some() {
        eprintln!("{}", serde_json::to_string_pretty(&rep.sub).unwrap());
    }
    if obs_all.len() < 2 && rep.n_violations() == 0 {
        eprintln!("MACHINERY: vacuous exploration (one outcome)");
        return 2;
    }
    rep.finish()
}

pub fn replay(case: &serde_json::Value) -> Result<(), Violation> {
    if case["kind"].as_str() == Some("door") {
        return super::c02d::replay(case);
    }
    let c: Case = serde_json::from_value(case["case"].clone())
        .map_err(|_| Violation::new("C02:machinery", "bad replay file", json!({})))?;
    let picks: Vec<u16> = case["picks"]
        .as_array()
        .map(|a| a.iter().map(|x| x.as_u64().unwrap_or(0) as u16).collect())
        .unwrap_or_default();
    let sc = scenario(c);
    let (_, r) = run_one(&sc, picks);
    r.map(|_| ())
}
