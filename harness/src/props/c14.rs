//! C14 — idle and establishment timeouts fire when, and only when, they should.
//!
//! (a) idle timer: the production `DuplexPipe::exchange` under a paused clock; every activity
//! pattern over a horizon of H steps of T/4+1ms (each step: nothing / left transfers / right
//! transfers / both / toggle back-pressure on one sink). Oracle in virtual time: closed by the idle
//! timer only if nothing moved for >= T; still open => last activity less than 2T (+2 steps of
//! timer granularity) ago. (b) exact-grid variant (step T/4) checks only "never closes an active
//! tunnel". Establishment and TLS handshake timeouts: see sub_checks (door-based).

use super::c02::CountWaker;
use crate::engine::explore::{explore, hash_of, run_one, Bounds, Chooser};
use crate::engine::report::{Report, Tier, Violation};
use crate::engine::rt;
use crate::engine::sio::{self, Item, ScriptedSink, ScriptedSource};
use serde_json::json;
use std::future::Future;
use std::sync::atomic::{AtomicU32, Ordering};
use std::sync::Arc;
use std::task::{Context, Poll};
use std::time::Duration;
use trusttunnel::verif_hooks as vh;

const T_MS: u64 = 1000;
const ACTIONS: [&str; 5] = ["idle", "left", "right", "both", "toggle-block-peer-sink"];
/// actions that only occur in a forced prefix: the client ends its upload (half-close)
const PREFIX_ACTIONS: [&str; 3] = ["client-ends", "client-ends+right", "block-client-sink"];

#[derive(Clone, Debug, serde::Serialize, serde::Deserialize)]
pub struct Case {
    pub horizon: usize,
    pub step_ms: u64,
    /// check the "closed within 2T" half (false on the exact grid, where equality is an artefact)
    pub check_liveness: bool,
    /// actions forced at the first steps (indices into ACTIONS, 5 + i for PREFIX_ACTIONS[i]);
    /// the exploration branches from the step after the prefix
    #[serde(default)]
    pub prefix: Vec<usize>,
}

fn scenario(case: Case) -> impl Fn(&mut Chooser) -> Result<u64, Violation> + Sync {
    move |ch: &mut Chooser| {
        let owned = std::mem::replace(ch, Chooser::new(vec![]));
        let n_items = case.horizon + 2;
        let mk = |base: u8| -> Vec<Item> { (0..n_items).map(|i| Item::Chunk(vec![base.wrapping_add(i as u8)])).collect() };
        let env = sio::new_env(owned, [mk(1), mk(101)]);
        {
            let mut g = env.lock().unwrap();
            g.allow_errors = false;
            g.allow_hold = false;
            g.allow_partial = false;
            g.sources[0].auto_hold = true;
            g.sources[1].auto_hold = true;
        }
        let case2 = case.clone();
        let env2 = env.clone();
        let verdict: Result<u64, Violation> = rt::run_paused(async move {
            let env = env2;
            let case = case2;
            let fut = vh::run_duplex_pipe(
                (Box::new(ScriptedSource { env: env.clone(), idx: 0 }), Box::new(ScriptedSink { env: env.clone(), idx: 1 })),
                (Box::new(ScriptedSource { env: env.clone(), idx: 1 }), Box::new(ScriptedSink { env: env.clone(), idx: 0 })),
                Duration::from_millis(T_MS),
                |_, _| {},
            );
            let mut fut = Box::pin(fut);
            let cw = Arc::new(CountWaker(AtomicU32::new(0)));
            let waker = std::task::Waker::from(cw.clone());
            let mut cx = Context::from_waker(&waker);
            let start = tokio::time::Instant::now();
            let mut last_activity_ms: u64 = 0;
            let mut actions: Vec<&'static str> = vec![];
            let mut closed: Option<(u64, Result<(), std::io::ErrorKind>)> = None;
            let mut blocked = false;

            // poll until the future is pending without having woken itself
            macro_rules! settle {
                () => {{
                    let mut spins = 0;
                    loop {
                        let before = cw.0.load(Ordering::SeqCst);
                        match fut.as_mut().poll(&mut cx) {
                            Poll::Ready(r) => {
                                closed = Some((start.elapsed().as_millis() as u64, r.map_err(|e| e.kind())));
                                break;
                            }
                            Poll::Pending => {}
                        }
                        if cw.0.load(Ordering::SeqCst) == before {
                            break;
                        }
                        spins += 1;
                        if spins > 64 {
                            break;
                        }
                    }
                }};
            }
            settle!();
            let mut transferred = [0usize; 2];
            let fail = |sig: &str, what: String, actions: &Vec<&'static str>| -> Violation {
                Violation::new(format!("C14:{sig}"), format!("{what}; actions per step of {} ms: {:?}", case.step_ms, actions), json!({"case": case, "actions": actions}))
            };
            for step in 0..case.horizon {
                if closed.is_some() {
                    break;
                }
                let a = match case.prefix.get(step) {
                    Some(a) => *a,
                    None => env.lock().unwrap().ch.pick_free("step", ACTIONS.len()),
                };
                let name = if a < ACTIONS.len() { ACTIONS[a] } else { PREFIX_ACTIONS[a - ACTIONS.len()] };
                actions.push(name);
                let deliver = |name: &str| {
                    let mut held = sio::held(&env);
                    if let Some(pos) = held.iter().position(|(n, _)| n == name) {
                        let (n, w) = held.remove(pos);
                        sio::release(&env, &n);
                        w.wake();
                    }
                    for (n2, w2) in held {
                        sio::put_back(&env, &n2, w2);
                    }
                };
                match name {
                    "client-ends" | "client-ends+right" => {
                        // nothing more will come from the client: its next read reports the end of the stream
                        {
                            let mut g = env.lock().unwrap();
                            let next = g.sources[0].next;
                            g.sources[0].script.truncate(next);
                        }
                        deliver("wake:client-source");
                        if name == "client-ends+right" {
                            deliver("wake:peer-source");
                        }
                    }
                    "block-client-sink" => sio::set_blocked(&env, 1, true),
                    "left" => deliver("wake:client-source"),
                    "right" => deliver("wake:peer-source"),
                    "both" => {
                        deliver("wake:client-source");
                        deliver("wake:peer-source");
                    }
                    "toggle-block-peer-sink" => {
                        blocked = !blocked;
                        sio::set_blocked(&env, 0, blocked);
                    }
                    _ => {}
                }
                settle!();
                // activity = bytes that reached a sink, or an item handed to the pipe by a source
                {
                    let g = env.lock().unwrap();
                    let now_t = [g.sinks[0].log.len() + g.sources[0].delivered_bytes, g.sinks[1].log.len() + g.sources[1].delivered_bytes];
                    if now_t != transferred {
                        transferred = now_t;
                        last_activity_ms = start.elapsed().as_millis() as u64;
                    }
                }
                if closed.is_none() {
                    tokio::time::advance(Duration::from_millis(case.step_ms)).await;
                    settle!();
                    let g = env.lock().unwrap();
                    let now_t = [g.sinks[0].log.len() + g.sources[0].delivered_bytes, g.sinks[1].log.len() + g.sources[1].delivered_bytes];
                    if now_t != transferred {
                        transferred = now_t;
                        last_activity_ms = start.elapsed().as_millis() as u64;
                    }
                }
                let now = start.elapsed().as_millis() as u64;
                match &closed {
                    Some((at, Err(std::io::ErrorKind::TimedOut))) => {
                        if at - last_activity_ms < T_MS {
                            return Err(fail("closed-active-tunnel", format!("closed by the idle timer at {at} ms, only {} ms after the last transfer (T = {T_MS} ms)", at - last_activity_ms), &actions));
                        }
                    }
                    Some((at, r)) => {
                        return Err(fail(&format!("unexpected-end:{r:?}"), format!("exchange ended at {at} ms with {r:?} although no side finished or failed"), &actions));
                    }
                    None => {
                        if case.check_liveness && now - last_activity_ms >= 2 * T_MS + 2 * case.step_ms + 1 {
                            return Err(fail("idle-tunnel-not-closed", format!("still open at {now} ms, {} ms after the last transfer (limit 2T = {} ms)", now - last_activity_ms, 2 * T_MS), &actions));
                        }
                    }
                }
            }
            drop(fut);
            let g = env.lock().unwrap();
            if std::env::var_os("VERIF_DEBUG").is_some() {
                eprintln!("C14 actions {actions:?} closed {closed:?} last_activity {last_activity_ms} log {:?}", g.log);
            }
            if closed.is_some() && !(g.sources[0].dropped && g.sources[1].dropped && g.sinks[0].dropped && g.sinks[1].dropped) {
                return Err(fail("endpoints-not-released", "endpoints not released after the tunnel was closed".into(), &actions));
            }
            Ok(hash_of(&(closed.as_ref().map(|c| c.0), transferred)))
        });
        let mut g = env.lock().unwrap();
        *ch = std::mem::replace(&mut g.ch, Chooser::new(vec![]));
        drop(g);
        let picks = ch.picks();
        verdict.map_err(|mut v| {
            v.case["picks"] = json!(picks);
            v
        })
    }
}

pub fn run(tier: Tier) -> i32 {
    crate::engine::watch::start("C14", tier.name(), Duration::from_secs(60), crate::engine::watch::OnExpiry::Machinery);
    let mut rep = Report::new("C14", tier, "model_checking");
    let h = tier.pick(8usize, 11usize);
    let hh = tier.pick(8usize, 9usize);
    let cases = vec![
        Case { horizon: h, step_ms: T_MS / 4 + 1, check_liveness: true, prefix: vec![] },
        Case { horizon: h, step_ms: T_MS / 4, check_liveness: false, prefix: vec![] },
        Case { horizon: h + 2, step_ms: T_MS / 2 + 1, check_liveness: true, prefix: vec![] },
        // half-closed tunnels: the client has ended its upload, the download goes on or stalls
        Case { horizon: hh + 2, step_ms: T_MS / 2 + 1, check_liveness: true, prefix: vec![7, 6] },
        Case { horizon: hh + 2, step_ms: T_MS / 2 + 1, check_liveness: true, prefix: vec![5] },
        Case { horizon: hh + 2, step_ms: T_MS / 2 + 1, check_liveness: true, prefix: vec![4, 6] },
        Case { horizon: hh + 4, step_ms: T_MS / 4 + 1, check_liveness: true, prefix: vec![7, 6] },
    ];
    let mut total = 0u64;
    let mut cps = 0u64;
    let mut outcomes = std::collections::HashSet::new();
    let mut capped = false;
    for case in cases {
        let b = Bounds { max_deviations: 0, max_executions: u64::MAX, wall: Duration::from_secs(tier.pick(40, 1200)), workers: rt::workers() };
        let sc = scenario(case.clone());
        let (st, viol, obs) = explore(&sc, &b, &|| {});
        total += st.executions;
        cps += st.choice_points;
        capped |= st.capped;
        outcomes.extend(obs);
        rep.sub.push(json!({"sub":"idle-timer","case":case,"executions":st.executions,"capped":st.capped,"distinct_outcomes":st.distinct_obs}));
        let mut viol = viol;
        viol.sort_by_key(|(t, _)| t.len());
        for (_, v) in viol {
            rep.violation(v);
        }
    }
    super::c14b::run_into(&mut rep, tier);
    rep.cov("states", cps);
    rep.cov("transitions", cps);
    rep.cov("traces_validated_against_impl", total);
    rep.cov("executions", total);
    rep.cov("distinct_outcomes", outcomes.len() as u64);
    rep.cov("exhaustive", !capped);
    rep.sample(json!({"step_ms":251,"actions":["left","idle","idle","idle","idle","right","idle","idle"]}));
    rep.cov("explanation", "every sequence of H per-step actions is one execution of the production pipe on a paused clock; states/transitions = choice points visited (stateless)");
    rep.assume("virtual time: timers are observed at step granularity, so the 2T bound is checked with two steps of slack; the exact-grid variant checks only that an active tunnel is never closed");
    if outcomes.len() < 2 && rep.n_violations() == 0 {
        eprintln!("MACHINERY: vacuous exploration");
        return 2;
    }
    super::cq::c14_into(&mut rep);
    rep.finish()
}

pub fn replay(case: &serde_json::Value) -> Result<(), Violation> {
    if case.get("kind").and_then(|k| k.as_str()) == Some("establishment") || case.get("sub").is_some() {
        return super::c14b::replay(case);
    }
    let c: Case = serde_json::from_value(case["case"].clone()).map_err(|_| Violation::new("C14:machinery", "bad replay file", json!({})))?;
    let picks: Vec<u16> = case["picks"].as_array().map(|a| a.iter().map(|x| x.as_u64().unwrap_or(0) as u16).collect()).unwrap_or_default();
    let sc = scenario(c);
    let (_, r) = run_one(&sc, picks);
    r.map(|_| ())
}
