//! C20 — secrets never reach the log, at any level.
//!
//! A capturing `log::Log` at trace level sees every record the endpoint code emits while a
//! scenario runs on the harness thread.  The scenario space is the product of channel x request
//! shape x Proxy-Authorization form x SNI-credentials form x upstream kind, every secret-bearing
//! field carrying its own canary; each record is searched for every canary, verbatim and
//! base64-decoded.  A leak is identified by (secret kind, source file, message template).

use super::common::{make_world_with_auth, Cfg, World};
use super::door::{self, H1Client, H2Client, H2Outcome, ReqSpec};
use crate::engine::explore::sweep_dyn;
use crate::engine::logcap;
use crate::engine::report::{Report, Tier, Violation};
use crate::engine::sys::{self, ConnectAnswer, HostAnswer};
use crate::engine::{rt, watch};
use base64::Engine;
use serde_json::json;
use std::borrow::Cow;
use std::net::SocketAddr;
use std::sync::Arc;
use std::time::Duration;
use tokio::io::{AsyncReadExt, AsyncWriteExt};
use trusttunnel::authentication::registry_based::{Client, RegistryBasedAuthenticator};
use trusttunnel::authentication::{Authenticator, Source, Status};
use trusttunnel::log_utils::IdChain;
use trusttunnel::verif_hooks::{self as vh, VProtocol};

const USER: &str = "cnryUSERq7";
const PASS: &str = "cnryPASSz9x";
const WRONG_PASS: &str = "cnryWRONGpw5";
const MALFORMED: &str = "%%cnryMALFORMEDb64%%";
const BEARER: &str = "cnryBEARERtok4";
const AUTHZ: &str = "cnryAUTHZval3";
const COOKIE: &str = "cnryCOOKIEval2";
// repeated fields: every value of a secret-bearing field is a secret, not only the first one
const AUTHZ2: &str = "cnryAUTHZtwo4";
const COOKIE2: &str = "cnryCOOKIEtwo7";
const PROXY2: &str = "cnryPROXYtwo9";
const SNI_GOOD: &str = "cnrysnigood1";
const SNI_BAD: &str = "cnrysnibad8";
const USER2: &str = "cnryOTHERuser";
const PASS2: &str = "cnryUNUSEDpw6";

fn b64(s: &str) -> String {
    base64::engine::general_purpose::STANDARD.encode(s)
}

/// (kind of secret, needle)
fn needles() -> Vec<(&'static str, String)> {
    vec![
        ("proxy-authorization-token", b64(&format!("{USER}:{PASS}"))),
        ("proxy-authorization-decoded", format!("{USER}:{PASS}")),
        ("configured-password", PASS.to_string()),
        ("proxy-authorization-token", b64(&format!("{USER}:{WRONG_PASS}"))),
        ("proxy-authorization-decoded", WRONG_PASS.to_string()),
        ("proxy-authorization-value", MALFORMED.to_string()),
        ("proxy-authorization-value", BEARER.to_string()),
        ("authorization-value", AUTHZ.to_string()),
        ("authorization-value", b64(AUTHZ)),
        ("cookie-value", COOKIE.to_string()),
        ("authorization-value:repeated-field", AUTHZ2.to_string()),
        ("cookie-value:repeated-field", COOKIE2.to_string()),
        ("proxy-authorization-value:repeated-field", PROXY2.to_string()),
        ("sni-credentials", SNI_GOOD.to_string()),
        ("sni-credentials", SNI_BAD.to_string()),
        ("configured-password", PASS2.to_string()),
        ("configured-password", b64(&format!("{USER2}:{PASS2}"))),
    ]
}

struct SniAware(RegistryBasedAuthenticator);
impl Authenticator for SniAware {
    fn authenticate(&self, source: &Source<'_>, id: &IdChain<u64>) -> Status {
        match source {
            Source::Sni(x) if x == SNI_GOOD => Status::Pass,
            Source::Sni(_) => Status::Reject,
            other => self.0.authenticate(other, id),
        }
    }
}

fn clients() -> Vec<Client> {
    vec![Client { username: USER.into(), password: PASS.into() }, Client { username: USER2.into(), password: PASS2.into() }]
}

const REQS: [&str; 22] = [
    "connect-ok", "connect-refused", "connect-unresolvable", "connect-without-port", "connect-private-forbidden", "connect-never-answers", "get-forwarded-refused", "get-forwarded-ok",
    "get-without-authority", "check", "udp2", "icmp", "get-on-check", "get-on-udp2", "ping", "speedtest-download", "speedtest-upload", "reverse-proxy", "reverse-proxy-origin-down", "connect-bad-authority", "reverse-proxy-upgrade-in-tunnel", "metrics",
];
const AUTHS: [&str; 7] = ["valid", "wrong-password", "malformed", "other-scheme", "absent", "secret-before-scheme", "secret-only"];
const SNIS: [&str; 3] = ["none", "good", "bad"];
const UPSTREAMS: [&str; 4] = ["direct", "socks5", "socks5-extended", "socks5-auth-refused"];

#[derive(Clone, Debug, serde::Serialize, serde::Deserialize)]
pub struct Scn {
    pub h2: bool,
    pub req: String,
    pub auth: String,
    pub sni: String,
    pub upstream: String,
}

fn refuse_81(a: &SocketAddr, _: i32) -> ConnectAnswer {
    if a.port() == 81 {
        ConnectAnswer::Errno(libc::ECONNREFUSED)
    } else {
        ConnectAnswer::PassThrough
    }
}

fn proxy_auth(kind: &str) -> Option<Vec<u8>> {
    match kind {
        "valid" => Some(format!("Basic {}", b64(&format!("{USER}:{PASS}"))).into_bytes()),
        "wrong-password" => Some(format!("Basic {}", b64(&format!("{USER}:{WRONG_PASS}"))).into_bytes()),
        "malformed" => Some(format!("Basic {MALFORMED}").into_bytes()),
        "other-scheme" => Some(format!("Bearer {BEARER}").into_bytes()),
        // the secret where a scheme name is expected
        "secret-before-scheme" => Some(format!("{} Basic", b64(&format!("{USER}:{WRONG_PASS}"))).into_bytes()),
        "secret-only" => Some(b64(&format!("{USER}:{WRONG_PASS}")).into_bytes()),
        _ => None,
    }
}

/// a SOCKS5 server good enough for CONNECT and UDP ASSOCIATE; `refuse_auth` answers the
/// user/password sub-negotiation with a failure
async fn socks_server(l: tokio::net::TcpListener, refuse_auth: bool) {
    loop {
        let Ok((mut s, _)) = l.accept().await else { return };
        let _ = s.set_linger(Some(Duration::ZERO));
        tokio::spawn(async move {
            let mut b = [0u8; 2];
            if s.read_exact(&mut b).await.is_err() {
                return;
            }
            let mut methods = vec![0u8; b[1] as usize];
            if s.read_exact(&mut methods).await.is_err() {
                return;
            }
            let m = if methods.contains(&2) { 2 } else if methods.contains(&0x80) { 0x80 } else { 0 };
            let _ = s.write_all(&[5, m]).await;
            if m == 2 {
                let mut h = [0u8; 2];
                if s.read_exact(&mut h).await.is_err() {
                    return;
                }
                let mut u = vec![0u8; h[1] as usize];
                let _ = s.read_exact(&mut u).await;
                let mut pl = [0u8; 1];
                let _ = s.read_exact(&mut pl).await;
                let mut p = vec![0u8; pl[0] as usize];
                let _ = s.read_exact(&mut p).await;
                let _ = s.write_all(&[1, if refuse_auth { 1 } else { 0 }]).await;
                if refuse_auth {
                    return;
                }
            } else if m == 0x80 {
                // extended authentication: a sequence of typed fields, answered like method 2
                let mut tmp = [0u8; 2048];
                let _ = tokio::time::timeout(Duration::from_millis(200), s.read(&mut tmp)).await;
                let _ = s.write_all(&[1, if refuse_auth { 1 } else { 0 }]).await;
                if refuse_auth {
                    return;
                }
            }
            let mut req = [0u8; 4];
            if s.read_exact(&mut req).await.is_err() {
                return;
            }
            let alen = match req[3] {
                1 => 4,
                4 => 16,
                3 => {
                    let mut l = [0u8; 1];
                    let _ = s.read_exact(&mut l).await;
                    l[0] as usize
                }
                _ => 0,
            };
            let mut rest = vec![0u8; alen + 2];
            let _ = s.read_exact(&mut rest).await;
            // the target named "refused..." or port 81 is reported unreachable
            let port = u16::from_be_bytes([rest[alen], rest[alen + 1]]);
            let code = if port == 81 { 5 } else { 0 };
            let _ = s.write_all(&[5, code, 0, 1, 127, 0, 0, 1, 0, 9]).await;
            let mut sink = [0u8; 1024];
            while let Ok(n) = s.read(&mut sink).await {
                if n == 0 {
                    break;
                }
            }
        });
    }
}

async fn scenario(sc: &Scn) -> Result<&'static str, String> {
    let canary = door::start_canary().await;
    let hole = door::black_hole()?;
    let mut cfg = Cfg { clients: vec![(USER.into(), PASS.into()), (USER2.into(), PASS2.into())], allow_private: sc.req != "connect-private-forbidden", speedtest: true, ..Cfg::default() };
    cfg.connect_timeout = Duration::from_millis(800);
    let mut rp_origin = None;
    if sc.req.starts_with("reverse-proxy") {
        if sc.req != "reverse-proxy-origin-down" {
            rp_origin = Some(tokio::net::TcpListener::bind("127.0.0.1:0").await.map_err(|e| e.to_string())?);
        }
        let addr = rp_origin.as_ref().map(|l| l.local_addr().unwrap()).unwrap_or_else(|| "127.0.0.1:81".parse().unwrap());
        cfg.reverse_proxy = Some((addr, "/app".into()));
        cfg.reverse_proxy_hosts = vec!["r.t".into()];
    }
    cfg.metrics = sc.req == "metrics";
    let mut socks_task = None;
    if sc.upstream != "direct" {
        let l = tokio::net::TcpListener::bind("127.0.0.1:0").await.map_err(|e| e.to_string())?;
        cfg.socks5 = Some((l.local_addr().unwrap(), sc.upstream == "socks5-extended"));
        socks_task = Some(tokio::spawn(socks_server(l, sc.upstream == "socks5-auth-refused")));
    }
    let world: World = make_world_with_auth(&cfg, Some(Arc::new(SniAware(RegistryBasedAuthenticator::new(&clients())))))?;
    sys::script_host("refused.c20.test", HostAnswer::Addrs(vec!["127.0.0.1".parse().unwrap()]));
    sys::script_host("nx.c20.test", HostAnswer::Fail(libc::EAI_NONAME));
    sys::script_host("noport.c20.test", HostAnswer::Addrs(vec!["127.0.0.1".parse().unwrap()]));
    sys::script_connect(Some(refuse_81));
    let cport = canary.addr.port();
    let (method, target): (&str, String) = match sc.req.as_str() {
        "connect-ok" => ("CONNECT", format!("127.0.0.1:{cport}")),
        "connect-refused" => ("CONNECT", "refused.c20.test:81".into()),
        "connect-unresolvable" => ("CONNECT", "nx.c20.test:443".into()),
        "connect-without-port" => ("CONNECT", "noport.c20.test".into()),
        "connect-private-forbidden" => ("CONNECT", "10.0.0.1:80".into()),
        "connect-never-answers" => ("CONNECT", format!("127.0.0.1:{}", hole.port)),
        "connect-bad-authority" => ("CONNECT", "bad..c20.test:99999".into()),
        "get-forwarded-refused" => ("GET", "http://refused.c20.test:81/p?q=1".into()),
        "get-forwarded-ok" => ("GET", format!("http://127.0.0.1:{cport}/p?q=1")),
        "get-without-authority" => ("GET", "/p".into()),
        "check" => ("CONNECT", "_check".into()),
        "udp2" => ("CONNECT", "_udp2".into()),
        "icmp" => ("CONNECT", "_icmp".into()),
        "get-on-check" => ("GET", "http://_check/".into()),
        "get-on-udp2" => ("GET", "http://_udp2/".into()),
        "ping" => ("GET", "https://m.t/".into()),
        "speedtest-download" => ("GET", "https://m.t/speed/1mb.bin".into()),
        "speedtest-upload" => ("POST", "https://m.t/speed/upload.html".into()),
        _ => ("GET", "https://m.t/app/x?token=1".into()),
    };
    let mut spec = ReqSpec { method: method.into(), target, proxy_auth: proxy_auth(&sc.auth), headers: vec![] };
    spec.headers.push(("Authorization".into(), format!("Digest {AUTHZ}")));
    spec.headers.push(("Cookie".into(), format!("sid={COOKIE}")));
    spec.headers.push(("Authorization".into(), format!("Digest {AUTHZ2}")));
    spec.headers.push(("Cookie".into(), format!("sid2={COOKIE2}")));
    if spec.proxy_auth.is_some() {
        spec.headers.push(("Proxy-Authorization".into(), format!("Basic {PROXY2}")));
    }
    match sc.req.as_str() {
        "ping" => spec.headers.push(("x-ping".into(), "1".into())),
        "reverse-proxy-upgrade-in-tunnel" => {
            spec.headers.push(("Upgrade".into(), "websocket".into()));
            spec.headers.push(("Connection".into(), "Upgrade".into()));
        }
        "speedtest-upload" => spec.headers.push(("content-length".into(), "4".into())),
        _ => {}
    }
    if !sc.h2 && spec.target.starts_with("https://m.t") {
        spec.target = spec.target["https://m.t".len()..].to_string();
        spec.headers.push(("Host".into(), "m.t".into()));
    }
    let sni_creds = match sc.sni.as_str() {
        "good" => Some(SNI_GOOD.to_string()),
        "bad" => Some(SNI_BAD.to_string()),
        _ => None,
    };
    let peer: SocketAddr = "198.51.100.7:40000".parse().unwrap();
    let proto = if sc.h2 { VProtocol::Http2 } else { VProtocol::Http1 };
    if sc.req == "metrics" {
        return metrics_scenario(&world, &spec).await;
    }
    let (io, d) = if matches!(sc.req.as_str(), "reverse-proxy" | "reverse-proxy-origin-down") {
        let (client, server) = tokio::io::duplex(1 << 16);
        let ctx = world.ctx.clone();
        let task = tokio::spawn(async move { vh::reverse_proxy_listen(&ctx, proto, vh::wrap_io(server, peer), "r.t".to_string()).await });
        (client, door::Door { task })
    } else {
        door::open(&world.ctx, proto, "m.t", sni_creds, peer, 1 << 16)
    };
    let mut outcome = "no-response";
    let wall = Duration::from_millis(1500);
    if sc.h2 {
        match H2Client::connect(io).await {
            Err(_) => outcome = "session-refused",
            Ok(mut cl) => {
                let has_body = sc.req == "speedtest-upload" || method == "CONNECT";
                match (spec.h2_request(), ()) {
                    (Ok(r), _) => match cl.request(r, !has_body).await {
                        Ok(mut st) => {
                            if sc.req == "speedtest-upload" {
                                let _ = st.tx.send_data(bytes::Bytes::from_static(b"data"), true);
                            }
                            serve_origin(&rp_origin).await;
                            match st.response(wall).await {
                                H2Outcome::Response(r) => {
                                    outcome = if r.status == 200 { "200" } else if r.status == 407 { "407" } else { "other-status" };
                                    if r.status == 200 && method == "CONNECT" {
                                        let _ = st.tx.send_data(bytes::Bytes::from_static(b"\x00\x00\x00\x01payload"), true);
                                    }
                                    let _ = st.body(20).await;
                                }
                                H2Outcome::Reset(_) => outcome = "reset",
                                H2Outcome::Nothing => {}
                            }
                        }
                        Err(_) => outcome = "request-refused",
                    },
                    (Err(_), _) => outcome = "not-expressible-in-h2",
                }
                drop(cl);
            }
        }
    } else {
        let mut cl = H1Client::new(io);
        let mut bytes = spec.h1_bytes();
        if sc.req == "speedtest-upload" {
            bytes.extend_from_slice(b"data");
        }
        cl.send(&bytes).await;
        serve_origin(&rp_origin).await;
        if let Some(r) = cl.response(wall).await {
            outcome = if r.status == 200 { "200" } else if r.status == 407 { "407" } else { "other-status" };
            if r.status == 200 && method == "CONNECT" {
                cl.send(b"\x00\x00\x00\x01payload").await;
                cl.pump(20).await;
            }
        }
        drop(cl);
    }
    let mut task = d.task;
    {
        let mut f = Box::pin(&mut task);
        let _ = door::until(&mut f, Duration::from_secs(3)).await;
    }
    task.abort();
    if let Some(t) = socks_task {
        t.abort();
    }
    sys::script_connect(None);
    Ok(outcome)
}

/// the metrics listener's request handler on a loopback connection
async fn metrics_scenario(world: &World, spec: &ReqSpec) -> Result<&'static str, String> {
    let l = tokio::net::TcpListener::bind("127.0.0.1:0").await.map_err(|e| e.to_string())?;
    let addr = l.local_addr().unwrap();
    let ctx = world.ctx.clone();
    let server = tokio::spawn(async move {
        if let Ok((s, _)) = l.accept().await {
            vh::metrics_handle_request(&ctx, s).await;
        }
    });
    let mut connect = Box::pin(tokio::net::TcpStream::connect(addr));
    let Some(Ok(mut s)) = door::until(&mut connect, Duration::from_secs(3)).await else {
        return Err("connect to the metrics handler failed".into());
    };
    drop(connect);
    let _ = s.set_linger(Some(Duration::ZERO));
    let mut m = ReqSpec { method: "GET".into(), target: "/metrics".into(), proxy_auth: spec.proxy_auth.clone(), headers: spec.headers.clone() };
    m.headers.push(("Host".into(), "127.0.0.1".into()));
    let _ = s.write_all(&m.h1_bytes()).await;
    let mut buf = vec![0u8; 65536];
    let mut r = Box::pin(s.read(&mut buf));
    let got = door::until(&mut r, Duration::from_secs(2)).await;
    drop(r);
    drop(s);
    let mut sj = Box::pin(server);
    let _ = door::until(&mut sj, Duration::from_secs(2)).await;
    Ok(match got {
        Some(Ok(n)) if n > 12 && &buf[9..12] == b"200" => "200",
        Some(Ok(n)) if n > 0 => "other-status",
        _ => "no-response",
    })
}

async fn serve_origin(l: &Option<tokio::net::TcpListener>) {
    let Some(l) = l else { return };
    let mut acc = Box::pin(l.accept());
    if let Some(Ok((mut s, _))) = door::until(&mut acc, Duration::from_millis(700)).await {
        let _ = s.set_linger(Some(Duration::ZERO));
        let mut tmp = [0u8; 2048];
        let mut r = Box::pin(s.read(&mut tmp));
        let _ = door::until(&mut r, Duration::from_millis(700)).await;
        drop(r);
        let _ = s.write_all(b"HTTP/1.1 200 OK\r\nContent-Length: 2\r\nSet-Cookie: o=1\r\n\r\nok").await;
        door::spin(30).await;
    }
}

// ------------------------------------------------------------------------------------------------
// the TLS accept path (SNI of the form <credentials>.<host>)
// ------------------------------------------------------------------------------------------------

const TLS_SNIS: [&str; 5] = ["plain", "good-label", "bad-label", "label-on-unknown-host", "label-on-ping-host"];

async fn tls_scenario(which: &str, auth: &str, to_canary: bool) -> Result<&'static str, String> {
    let canary = door::start_canary().await;
    let sni = match which {
        "plain" => "m.t".to_string(),
        "good-label" => format!("{SNI_GOOD}.m.t"),
        "bad-label" => format!("{SNI_BAD}.m.t"),
        "label-on-unknown-host" => format!("{SNI_BAD}.zz.t"),
        _ => format!("{SNI_BAD}.p.t"),
    };
    let cfg = Cfg { clients: vec![(USER.into(), PASS.into()), (USER2.into(), PASS2.into())], ping_hosts: vec!["p.t".into()], allow_private: true, ..Cfg::default() };
    let world = make_world_with_auth(&cfg, Some(Arc::new(SniAware(RegistryBasedAuthenticator::new(&clients())))))?;
    let listener = tokio::net::TcpListener::bind("127.0.0.1:0").await.map_err(|e| e.to_string())?;
    let addr = listener.local_addr().unwrap();
    let ctx = world.ctx.clone();
    let server = tokio::spawn(async move {
        let (s, peer) = listener.accept().await.map_err(|e| e.to_string())?;
        let acc = vh::tls_listen(s).await.map_err(|e| format!("listen: {e}"))?;
        vh::on_new_tls_connection(&ctx, acc, peer.ip()).await
    });
    let (mut conn, hello) = super::c12::new_client(&sni, &[b"http/1.1"])?;
    let mut connect = Box::pin(tokio::net::TcpStream::connect(addr));
    let mut sock = match door::until(&mut connect, Duration::from_secs(5)).await {
        Some(Ok(s)) => s,
        _ => return Err("connect failed".into()),
    };
    drop(connect);
    let _ = sock.set_linger(Some(Duration::ZERO));
    {
        let mut w = Box::pin(sock.write_all(&hello));
        door::until(&mut w, Duration::from_secs(5)).await;
    }
    let target = if to_canary { canary.addr.to_string() } else { "_check".to_string() };
    let mut spec = ReqSpec::connect(&target).with_auth(proxy_auth(auth));
    spec.headers.push(("Authorization".into(), format!("Digest {AUTHZ}")));
    spec.headers.push(("Cookie".into(), format!("sid={COOKIE}")));
    spec.headers.push(("Authorization".into(), format!("Digest {AUTHZ2}")));
    spec.headers.push(("Cookie".into(), format!("sid2={COOKIE2}")));
    if spec.proxy_auth.is_some() {
        spec.headers.push(("Proxy-Authorization".into(), format!("Basic {PROXY2}")));
    }
    let req = spec.h1_bytes();
    let t0 = std::time::Instant::now();
    let mut response: Vec<u8> = vec![];
    let mut sent = false;
    loop {
        while conn.wants_write() {
            let mut out = Vec::new();
            let _ = conn.write_tls(&mut out);
            let mut w = Box::pin(sock.write_all(&out));
            door::until(&mut w, Duration::from_secs(5)).await;
        }
        if !conn.is_handshaking() && !sent {
            use std::io::Write;
            conn.writer().write_all(&req).unwrap();
            sent = true;
            continue;
        }
        if response.windows(4).any(|w| w == b"\r\n\r\n") || t0.elapsed() > Duration::from_secs(4) {
            break;
        }
        let mut buf = [0u8; 8192];
        let n = {
            let mut r = Box::pin(sock.read(&mut buf));
            match door::until(&mut r, Duration::from_secs(2)).await {
                Some(Ok(n)) => n,
                _ => 0,
            }
        };
        if n == 0 {
            break;
        }
        let mut off = 0;
        while off < n {
            match conn.read_tls(&mut &buf[off..n]) {
                Ok(0) | Err(_) => break,
                Ok(k) => off += k,
            }
            if conn.process_new_packets().is_err() {
                break;
            }
        }
        use std::io::Read;
        let mut tmp = [0u8; 256];
        while let Ok(k) = conn.reader().read(&mut tmp) {
            if k == 0 {
                break;
            }
            response.extend_from_slice(&tmp[..k]);
        }
    }
    drop(sock);
    let mut sj = Box::pin(server);
    let _ = door::until(&mut sj, Duration::from_secs(3)).await;
    Ok(if response.starts_with(b"HTTP/1.1 200") { "served" } else if response.is_empty() { "dropped" } else { "answered" })
}

// ------------------------------------------------------------------------------------------------
// the QUIC / HTTP/3 path
// ------------------------------------------------------------------------------------------------

async fn quic_scenario(which: &str, auth: &str) -> Result<&'static str, String> {
    let canary = door::start_canary().await;
    let canary_authority = canary.addr.to_string();
    let sni = match which {
        "plain" => "m.t".to_string(),
        "good-label" => format!("{SNI_GOOD}.m.t"),
        "bad-label" => format!("{SNI_BAD}.m.t"),
        _ => format!("{SNI_BAD}.zz.t"),
    };
    let cfg = Cfg { clients: vec![(USER.into(), PASS.into()), (USER2.into(), PASS2.into())], allow_private: true, ..Cfg::default() };
    let ep = super::cq::start_with_auth(cfg, Some(Arc::new(SniAware(RegistryBasedAuthenticator::new(&clients()))))).await?;
    let mut cl = super::quic::QuicClient::new(ep.addr, &super::quic::ClientOpts { sni, ..Default::default() })?;
    if !cl.handshake(Duration::from_secs(3)).await {
        return Ok("no-handshake");
    }
    let mut headers: Vec<(String, String)> = vec![
        ("authorization".into(), format!("Digest {AUTHZ}")),
        ("cookie".into(), format!("sid={COOKIE}")),
        ("authorization".into(), format!("Digest {AUTHZ2}")),
        ("cookie".into(), format!("sid2={COOKIE2}")),
    ];
    if let Some(a) = proxy_auth(auth) {
        headers.push(("proxy-authorization".into(), String::from_utf8_lossy(&a).into_owned()));
        headers.push(("proxy-authorization".into(), format!("Basic {PROXY2}")));
    }
    let mut out = "no-response";
    for (method, authority, path) in [("CONNECT", "_check", None), ("CONNECT", canary_authority.as_str(), None), ("GET", "_udp2", Some("/")), ("CONNECT", "noport.c20.test", None), ("GET", "m.t", Some("/speed/1mb.bim"))] {
        let Ok(id) = cl.request(method, authority, path, &headers, method == "GET") else { continue };
        let r = cl.response(id, Duration::from_millis(1500), 4096, None).await;
        if let Some(s) = r.status {
            out = if s == 200 { "200" } else if s == 407 { "407" } else { "other-status" };
        }
    }
    cl.close();
    door::spin(50).await;
    Ok(out)
}

const QUIC_SNIS: [&str; 4] = ["plain", "good-label", "bad-label", "label-on-unknown-host"];

fn run_quic(which: &str, auth: &str) -> Result<(&'static str, usize, Vec<Violation>), Violation> {
    let case = json!({"kind":"quic","sni":which,"auth":auth});
    let _g = watch::enter(format!("C20:wedged:quic:{which}"), case.to_string());
    logcap::begin();
    let (w, a) = (which.to_string(), auth.to_string());
    let r = super::guarded(|| rt::run_real(async move { quic_scenario(&w, &a).await }));
    let recs = logcap::end();
    match r {
        Err(p) => Err(Violation::new("C20:machinery", format!("scenario panicked: {p}"), case)),
        Ok(Err(e)) => Err(Violation::new("C20:machinery", e, case)),
        Ok(Ok(o)) => Ok((o, recs.len(), scan(&recs, &case))),
    }
}

// ------------------------------------------------------------------------------------------------
// start-up: the configured passwords pass through the settings reader and Core::new
// ------------------------------------------------------------------------------------------------

fn startup_scenario(which: &str) -> Result<&'static str, String> {
    let dir = std::env::temp_dir().join(format!("ttv-c20-{}-{:?}", std::process::id(), std::thread::current().id()));
    std::fs::create_dir_all(&dir).map_err(|e| e.to_string())?;
    let cred = dir.join("credentials.toml");
    let body = match which {
        "valid" => format!("[[client]]\nusername = \"{USER}\"\npassword = \"{PASS}\"\n[[client]]\nusername = \"{USER2}\"\npassword = \"{PASS2}\"\n"),
        "empty-username" => format!("[[client]]\nusername = \"\"\npassword = \"{PASS}\"\n"),
        "password-not-a-string" => format!("[[client]]\nusername = \"{USER}\"\npassword = [\"{PASS}\"]\n"),
        "syntax-error-after-password" => format!("[[client]]\nusername = \"{USER}\"\npassword = \"{PASS}\" trailing\n"),
        _ => format!("[[client]]\nusername = \"{USER}\"\npassword = \"{PASS}\"\npassword = \"{PASS2}\"\n"),
    };
    std::fs::write(&cred, body).map_err(|e| e.to_string())?;
    let text = format!("listen_address = \"127.0.0.1:1\"\ncredentials_file = \"{}\"\n[listen_protocols.http2]\n", cred.display());
    let parsed = toml::from_str::<trusttunnel::settings::Settings>(&text);
    let out = match parsed {
        // (the binary panics with this error on stderr; that is not log output)
        Err(_) => "refused",
        Ok(settings) => {
            let hosts = super::common::build_hosts(&Cfg::default())?;
            let auth: Arc<dyn Authenticator> = Arc::new(RegistryBasedAuthenticator::new(&clients()));
            match trusttunnel::core::Core::new(settings, Some(auth), hosts, trusttunnel::shutdown::Shutdown::new()) {
                Ok(_) => "started",
                Err(_) => "core-refused",
            }
        }
    };
    let _ = std::fs::remove_dir_all(&dir);
    Ok(out)
}

const STARTUPS: [&str; 5] = ["valid", "empty-username", "password-not-a-string", "syntax-error-after-password", "duplicate-password-key"];

fn run_startup(which: &str) -> Result<(&'static str, usize, Vec<Violation>), Violation> {
    let case = json!({"kind":"startup","which":which});
    logcap::begin();
    let r = super::guarded(|| startup_scenario(which));
    let recs = logcap::end();
    match r {
        Err(p) => Err(Violation::new("C20:machinery", format!("scenario panicked: {p}"), case)),
        Ok(Err(e)) => Err(Violation::new("C20:machinery", e, case)),
        Ok(Ok(o)) => Ok((o, recs.len(), scan(&recs, &case))),
    }
}

// ------------------------------------------------------------------------------------------------

fn template_of(text: &str) -> String {
    // strip the "[CLIENT=..]" prefix, keep the words before the first formatted value
    let t = text.trim_start();
    let t = if t.starts_with('[') { t.split_once(']').map(|x| x.1).unwrap_or(t) } else { t };
    let t = t.trim_start();
    let cut = t.find([':', '=', '{', '(', '"']).unwrap_or(t.len()).min(48);
    let mut end = cut;
    while !t.is_char_boundary(end) {
        end -= 1;
    }
    t[..end].trim().chars().map(|c| if c.is_ascii_alphanumeric() { c.to_ascii_lowercase() } else { '-' }).collect()
}

fn scan(records: &[logcap::Record], case: &serde_json::Value) -> Vec<Violation> {
    let ns = needles();
    let mut out = vec![];
    for r in records {
        // the TLS client of the scenario is harness code, not the endpoint
        if r.file.contains("/src/client/") {
            continue;
        }
        for (kind, needle) in &ns {
            if r.text.contains(needle.as_str()) {
                let base = r.file.rsplit('/').next().unwrap_or("?");
                let file = if r.file.contains("rustls") { format!("rustls-{base}") } else { base.to_string() };
                out.push(Violation::new(
                    format!("C20:leak:{kind}:{file}:{}", template_of(&r.text)),
                    format!("{} record at {}:{} contains the {kind} canary {needle:?}: {}", r.level, r.file, r.line, r.text.chars().take(400).collect::<String>()),
                    case.clone(),
                ));
            }
        }
    }
    out
}

fn run_scn(sc: &Scn) -> Result<(&'static str, usize, Vec<Violation>), Violation> {
    let case = json!({"kind":"scenario","scenario":sc});
    let _g = watch::enter(format!("C20:wedged:{}", sc.req), case.to_string());
    logcap::begin();
    let s2 = sc.clone();
    let r = super::guarded(|| rt::run_paused(async move { scenario(&s2).await }));
    let recs = logcap::end();
    match r {
        Err(p) => Err(Violation::new("C20:machinery", format!("scenario panicked: {p}"), case)),
        Ok(Err(e)) => Err(Violation::new("C20:machinery", e, case)),
        Ok(Ok(o)) => Ok((o, recs.len(), scan(&recs, &case))),
    }
}

fn run_tls(which: &str, auth: &str, connect: bool) -> Result<(&'static str, usize, Vec<Violation>), Violation> {
    let case = json!({"kind":"tls","sni":which,"auth":auth,"connect":connect});
    let _g = watch::enter(format!("C20:wedged:tls:{which}"), case.to_string());
    logcap::begin();
    let (w, a) = (which.to_string(), auth.to_string());
    let r = super::guarded(|| rt::run_real(async move { tls_scenario(&w, &a, connect).await }));
    let recs = logcap::end();
    match r {
        Err(p) => Err(Violation::new("C20:machinery", format!("scenario panicked: {p}"), case)),
        Ok(Err(e)) => Err(Violation::new("C20:machinery", e, case)),
        Ok(Ok(o)) => Ok((o, recs.len(), scan(&recs, &case))),
    }
}

fn scenarios(tier: Tier) -> Vec<Scn> {
    let mut v = vec![];
    for h2 in [false, true] {
        for req in REQS {
            for auth in AUTHS {
                for sni in SNIS {
                    for up in UPSTREAMS {
                        // quick: SOCKS5 upstreams only where the request reaches the forwarder with credentials
                        if tier == Tier::Quick && up != "direct" && !(matches!(req, "connect-ok" | "connect-refused" | "udp2" | "get-forwarded-refused") && matches!(auth, "valid" | "absent" | "secret-before-scheme")) {
                            continue;
                        }
                        v.push(Scn { h2, req: req.into(), auth: auth.into(), sni: sni.into(), upstream: up.into() });
                    }
                }
            }
        }
    }
    v
}

pub fn run(tier: Tier) -> i32 {
    logcap::install();
    watch::start("C20", tier.name(), Duration::from_secs(60), watch::OnExpiry::Machinery);
    let mut rep = Report::new("C20", tier, "exploration");
    let scs = scenarios(tier);
    let records = std::sync::atomic::AtomicU64::new(0);
    let all_viol = std::sync::Mutex::new(Vec::<Violation>::new());
    let r = sweep_dyn(scs.len() as u64, 1, Duration::from_secs(2400), rt::workers(), |i| {
        let (o, n, viol) = run_scn(&scs[i as usize])?;
        records.fetch_add(n as u64, std::sync::atomic::Ordering::Relaxed);
        let leaked = !viol.is_empty();
        all_viol.lock().unwrap().extend(viol);
        Ok(Cow::Owned(format!("{}:{o}{}", scs[i as usize].req, if leaked { ":leak" } else { "" })))
    });
    rep.add("evaluations", r.evaluations);
    rep.add("distinct_nontrivial", r.classes.len() as u64);
    rep.sub.push(json!({"sub":"door-scenarios","scenarios":r.evaluations,"completed":r.completed,"classes":r.classes.len(),
        "domain":format!("{{HTTP/1.1, HTTP/2}} x {} request shapes {REQS:?} x Proxy-Authorization {AUTHS:?} x SNI credentials {SNIS:?} x upstream {UPSTREAMS:?}; Authorization and Cookie canaries on every request", REQS.len())}));
    rep.violations(r.violations);
    let mut tls_cases = vec![];
    for w in TLS_SNIS {
        for a in AUTHS {
            tls_cases.push((w, a, false));
            if matches!(a, "valid" | "absent") {
                tls_cases.push((w, a, true));
            }
        }
    }
    let r2 = sweep_dyn(tls_cases.len() as u64, 1, Duration::from_secs(600), rt::workers(), |i| {
        let (w, a, connect) = tls_cases[i as usize];
        let (o, n, viol) = run_tls(w, a, connect)?;
        records.fetch_add(n as u64, std::sync::atomic::Ordering::Relaxed);
        let leaked = !viol.is_empty();
        all_viol.lock().unwrap().extend(viol);
        Ok(Cow::Owned(format!("tls:{w}:{}{o}{}", if connect { "connect:" } else { "" }, if leaked { ":leak" } else { "" })))
    });
    rep.add("evaluations", r2.evaluations);
    rep.add("distinct_nontrivial", r2.classes.len() as u64);
    rep.sub.push(json!({"sub":"tls-accept-path","scenarios":r2.evaluations,"completed":r2.completed,"classes":r2.classes.keys().collect::<Vec<_>>(),
        "domain":format!("real TLS handshakes through Core::on_new_tls_connection with SNI {TLS_SNIS:?} x Proxy-Authorization {AUTHS:?}")}));
    rep.violations(r2.violations);
    let mut quic_cases = vec![];
    for w in QUIC_SNIS {
        for a in AUTHS {
            quic_cases.push((w, a));
        }
    }
    let r3 = sweep_dyn(quic_cases.len() as u64, 1, Duration::from_secs(600), rt::workers(), |i| {
        let (w, a) = quic_cases[i as usize];
        let (o, n, viol) = run_quic(w, a)?;
        records.fetch_add(n as u64, std::sync::atomic::Ordering::Relaxed);
        let leaked = !viol.is_empty();
        all_viol.lock().unwrap().extend(viol);
        Ok(Cow::Owned(format!("quic:{w}:{o}{}", if leaked { ":leak" } else { "" })))
    });
    rep.add("evaluations", r3.evaluations);
    rep.add("distinct_nontrivial", r3.classes.len() as u64);
    rep.sub.push(json!({"sub":"quic-path","scenarios":r3.evaluations,"completed":r3.completed,"classes":r3.classes.keys().collect::<Vec<_>>(),
        "domain":format!("QUIC handshakes through the real UDP listener with SNI {QUIC_SNIS:?} x Proxy-Authorization {AUTHS:?}; on each connection CONNECT _check, GET on _udp2, CONNECT without port and a bad speedtest path, all carrying the Authorization and Cookie canaries")}));
    rep.violations(r3.violations);
    let mut st_classes = vec![];
    for w in STARTUPS {
        match run_startup(w) {
            Ok((o, n, viol)) => {
                records.fetch_add(n as u64, std::sync::atomic::Ordering::Relaxed);
                st_classes.push(format!("{w}:{o}{}", if viol.is_empty() { "" } else { ":leak" }));
                all_viol.lock().unwrap().extend(viol);
            }
            Err(v) => rep.violation(v),
        }
    }
    rep.add("evaluations", STARTUPS.len() as u64);
    rep.sub.push(json!({"sub":"start-up","scenarios":STARTUPS.len(),"classes":st_classes,
        "domain":"credentials files {valid, empty user name, password of the wrong type, syntax error after the password, duplicate key} through the settings reader and Core::new (records the library emits; the panic message of the binary on stderr is not log output)"}));
    let mut v = all_viol.into_inner().unwrap();
    v.sort_by(|a, b| a.signature.cmp(&b.signature));
    rep.violations(v);
    let n_rec = records.load(std::sync::atomic::Ordering::Relaxed);
    rep.cov("log_records_scanned", n_rec);
    rep.cov("needles", needles().len() as u64);
    rep.cov("exhaustive", r.completed && r2.completed);
    rep.cov("rule", "every scenario of the product runs on the real accept path under a trace-level capturing logger; every record is searched for every canary (verbatim header values, base64 tokens, their decoded forms, SNI labels, configured passwords incl. one no client uses); a leak is identified by (secret kind, source file, message template)");
    rep.sample(json!({"kind":"scenario","scenario":scs.first()}));
    rep.sample(json!({"kind":"scenario","scenario":scs.get(scs.len() / 2)}));
    rep.sample(json!({"kind":"tls","sni":"label-on-unknown-host","auth":"other-scheme"}));
    rep.assume("log records emitted on other threads than the one driving the scenario (none of the driven paths has any) are not seen");
    if n_rec == 0 {
        rep.violation(Violation::new("C20:machinery", "the capturing logger saw no records at all", json!({})));
    }
    rep.finish()
}

pub fn replay(case: &serde_json::Value) -> Result<(), Violation> {
    logcap::install();
    let bad = || Violation::new("C20:machinery", "bad replay file", json!({}));
    let viol = match case["kind"].as_str() {
        Some("scenario") => {
            let sc: Scn = serde_json::from_value(case["scenario"].clone()).map_err(|_| bad())?;
            run_scn(&sc)?.2
        }
        Some("quic") => run_quic(QUIC_SNIS.iter().find(|s| Some(**s) == case["sni"].as_str()).ok_or_else(bad)?, AUTHS.iter().find(|s| Some(**s) == case["auth"].as_str()).ok_or_else(bad)?)?.2,
        Some("startup") => run_startup(STARTUPS.iter().find(|s| Some(**s) == case["which"].as_str()).ok_or_else(bad)?)?.2,
        Some("tls") => run_tls(TLS_SNIS.iter().find(|s| Some(**s) == case["sni"].as_str()).ok_or_else(bad)?, AUTHS.iter().find(|s| Some(**s) == case["auth"].as_str()).ok_or_else(bad)?, case["connect"].as_bool().unwrap_or(false))?.2,
        _ => return Err(bad()),
    };
    match viol.into_iter().min_by(|a, b| a.signature.cmp(&b.signature)) {
        Some(v) => Err(v),
        None => Ok(()),
    }
}
