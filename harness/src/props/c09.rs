//! C09 — no untrusted input can panic, wedge or unboundedly grow the endpoint.
//!
//! One exhaustive sweep per parser, over byte strings built from the values the parser branches on:
//! every case runs the real parser under a panic boundary (arithmetic overflow checks are on in
//! this build), a wall-clock watchdog (a call that does not return is a wedge) and a counting
//! allocator (largest single allocation and peak live bytes per call).  Where a boring reference
//! exists (IP header skipping, the two stream decoders) the result is compared with it as well.

use super::common::{make_world, Cfg, World};
use super::door;
use crate::engine::alloc;
use crate::engine::explore::sweep_dyn;
use crate::engine::report::{Report, Tier, Violation};
use crate::engine::sys::{self, ConnectAnswer, HostAnswer};
use crate::engine::{rt, sstream, watch};
use bytes::Bytes;
use serde_json::json;
use std::borrow::Cow;
use std::net::SocketAddr;
use std::time::Duration;
use tokio::io::{AsyncReadExt, AsyncWriteExt};
use trusttunnel::verif_hooks::{self as vh, VProtocol};

const ALLOC_SLACK: usize = 160 * 1024;

fn hexs(b: &[u8]) -> String {
    hex::encode(b)
}

/// the i-th string over an alphabet of `k` symbols in length-then-lexicographic order
fn nth_seq(mut i: u64, k: u64) -> Vec<usize> {
    let mut len = 0u32;
    loop {
        let n = k.pow(len);
        if i < n {
            break;
        }
        i -= n;
        len += 1;
    }
    let mut v = vec![0usize; len as usize];
    for p in (0..len as usize).rev() {
        v[p] = (i % k) as usize;
        i /= k;
    }
    v
}

fn count_seqs(k: u64, max_len: u32) -> u64 {
    (0..=max_len).map(|l| k.pow(l)).sum()
}

// ------------------------------------------------------------------------------------------------
// (a) IP header skipping
// ------------------------------------------------------------------------------------------------

fn ref_skip4(p: &[u8]) -> Option<(i32, usize)> {
    if p.len() < 20 {
        return None;
    }
    let hl = ((p[0] & 0x0f) as usize) * 4;
    if hl < 20 || hl > p.len() {
        return None;
    }
    Some((p[9] as i32, hl))
}

fn ref_skip6(p: &[u8]) -> Option<(i32, usize)> {
    if p.len() < 40 {
        return None;
    }
    let mut next = p[6];
    let mut pos = 40usize;
    loop {
        match next {
            0 | 43 | 60 => {
                if p.len() - pos < 2 {
                    return None;
                }
                let n = (p[pos + 1] as usize + 1) * 8;
                if p.len() - pos < n {
                    return None;
                }
                next = p[pos];
                pos += n;
            }
            44 => {
                if p.len() - pos < 8 {
                    return None;
                }
                next = p[pos];
                pos += 8;
            }
            _ => return Some((next as i32, pos)),
        }
    }
}

fn check_skip(v6: bool, p: &[u8]) -> Result<&'static str, Violation> {
    let name = if v6 { "ipv6" } else { "ipv4" };
    let case = json!({"kind":"ip-skip","v6":v6,"packet":hexs(p)});
    let m = alloc::begin();
    let r = super::guarded(|| if v6 { vh::skip_ipv6_header(Bytes::copy_from_slice(p)) } else { vh::skip_ipv4_header(Bytes::copy_from_slice(p)) });
    let r = r.map_err(|e| Violation::new(format!("C09:{name}-header:panic"), format!("skip_{name}_header panicked on {}: {e}", hexs(p)), case.clone()))?;
    if m.largest_request() > p.len() + 4096 {
        return Err(Violation::new(format!("C09:{name}-header:allocation"), format!("{} bytes requested for a {}-byte packet", m.largest_request(), p.len()), case));
    }
    let want = if v6 { ref_skip6(p) } else { ref_skip4(p) };
    let got = r.map(|(proto, rest)| (proto, p.len() - rest.len(), rest));
    match (&want, &got) {
        (None, None) => Ok("refused"),
        (Some((wp, wo)), Some((gp, go, rest))) if wp == gp && wo == go && rest.as_ref() == &p[*wo..] => Ok(if *wo > if v6 { 40 } else { 20 } { "skipped-with-options" } else { "skipped" }),
        _ => Err(Violation::new(
            format!("C09:{name}-header:differs-from-reference"),
            format!("skip_{name}_header({}) = {:?}, the header layout gives {:?} (protocol, payload offset)", hexs(p), got.as_ref().map(|g| (g.0, g.1)), want),
            case,
        )),
    }
}

const V6_NEXT: [u8; 8] = [0, 43, 60, 44, 58, 59, 1, 255];
const V6_BODY: [u8; 8] = [0, 1, 2, 43, 44, 58, 60, 255];
const V6_FILL: [u8; 3] = [0, 44, 255];

fn sweep_ip(rep: &mut Report, tier: Tier) {
    // IPv4: every first byte x every length 0..=70 x 3 fills
    let n4 = 256u64 * 71 * 3;
    let r = sweep_dyn(n4, 512, Duration::from_secs(600), rt::workers(), |i| {
        let b0 = (i % 256) as u8;
        let len = ((i / 256) % 71) as usize;
        let fill = [0u8, 1, 0xff][(i / 256 / 71) as usize];
        let mut p = vec![fill; len];
        if len > 0 {
            p[0] = b0;
        }
        if len > 9 {
            p[9] = 1;
        }
        check_skip(false, &p).map(Cow::Borrowed)
    });
    rep.add("evaluations", r.evaluations);
    rep.add("distinct_nontrivial", r.classes.len() as u64);
    rep.sub.push(json!({"sub":"ipv4-header","cases":r.evaluations,"completed":r.completed,"classes":r.classes.keys().collect::<Vec<_>>(),
        "domain":"first byte 0..=255 x packet length 0..=70 x fill {00,01,ff}"}));
    rep.violations(r.violations);
    // IPv6: next-header x body prefix (all strings <= L over 8 values) x fill x body length
    let max_l = tier.pick(3u32, 4u32);
    let seqs = count_seqs(8, max_l);
    let n6 = seqs * 8 * 3 * 41;
    let r = sweep_dyn(n6, 4096, Duration::from_secs(900), rt::workers(), |i| {
        let body_len = (i % 41) as usize;
        let fill = V6_FILL[((i / 41) % 3) as usize];
        let nh = V6_NEXT[((i / 123) % 8) as usize];
        let prefix = nth_seq(i / 984, 8);
        let mut p = vec![0u8; 40];
        p[0] = 0x60;
        p[6] = nh;
        let mut body = vec![fill; body_len];
        for (k, s) in prefix.iter().enumerate() {
            if k < body.len() {
                body[k] = V6_BODY[*s];
            }
        }
        p.extend_from_slice(&body);
        check_skip(true, &p).map(Cow::Borrowed)
    });
    rep.add("evaluations", r.evaluations);
    rep.add("distinct_nontrivial", r.classes.len() as u64);
    rep.sub.push(json!({"sub":"ipv6-header","cases":r.evaluations,"completed":r.completed,"classes":r.classes.keys().collect::<Vec<_>>(),
        "domain":format!("next header {V6_NEXT:?} x all body prefixes of <= {max_l} bytes over {V6_BODY:?} x fill {V6_FILL:?} x body length 0..=40; plus truncated base headers")}));
    rep.violations(r.violations);
    for len in 0..40usize {
        for nh in V6_NEXT {
            let mut p = vec![0u8; len];
            if len > 6 {
                p[6] = nh;
            }
            if let Err(v) = check_skip(true, &p) {
                rep.violation(v);
            }
        }
    }
}

// ------------------------------------------------------------------------------------------------
// (b) raw ICMP / ICMPv6 messages from the network
// ------------------------------------------------------------------------------------------------

fn quoted(kind: usize) -> Vec<u8> {
    let echo4 = [8u8, 0, 0, 0, 0x12, 0x34, 0, 7, b'd', b'a', b't', b'a'];
    let echo6 = [128u8, 0, 0, 0, 0x12, 0x34, 0, 7, b'd', b'a', b't', b'a'];
    let ip4 = |ihl: u8, opts: usize| {
        let mut h = vec![0x40 | ihl, 0, 0, 40, 0, 0, 0, 0, 64, 1, 0, 0, 10, 0, 0, 1, 8, 8, 8, 8];
        h.extend(std::iter::repeat(1u8).take(opts));
        h
    };
    let ip6 = |nh: u8| {
        let mut h = vec![0u8; 40];
        h[0] = 0x60;
        h[6] = nh;
        h
    };
    match kind {
        0 => vec![0; 96],
        1 => vec![0xff; 96],
        2 => [ip4(5, 0), echo4.to_vec()].concat(),
        3 => [ip4(15, 40), echo4.to_vec()].concat(),
        4 => ip4(15, 8),
        5 => [ip6(0), vec![58, 0xff, 0, 0, 0, 0, 0, 0], echo6.to_vec()].concat(),
        6 => [ip6(0), vec![43, 0, 0, 0, 0, 0, 0, 0], vec![60, 0, 0, 0, 0, 0, 0, 0], vec![44, 0, 0, 0, 0, 0, 0, 0], vec![58, 0, 0, 0, 0, 0, 0, 0], echo6.to_vec()].concat(),
        7 => vec![0x45; 96],
        8 => vec![0x4f; 96],
        9 => [ip6(58), echo6.to_vec()].concat(),
        10 => [ip4(5, 0), vec![8]].concat(),
        _ => [ip6(58), vec![128, 0, 0]].concat(),
    }
}
const N_QUOTED: u64 = 12;

fn check_icmp(v6: bool, msg: &[u8]) -> Result<Cow<'static, str>, Violation> {
    let name = if v6 { "icmpv6" } else { "icmpv4" };
    let case = json!({"kind":"icmp-message","v6":v6,"message":hexs(msg)});
    let peer = if v6 { "2001:db8::1".parse().unwrap() } else { "192.0.2.1".parse().unwrap() };
    let m = alloc::begin();
    let r = super::guarded(|| vh::icmp_parse(v6, peer, Bytes::copy_from_slice(msg)));
    let r = r.map_err(|e| {
        Violation::new(format!("C09:{name}-message:panic:type={}", msg.first().copied().unwrap_or(0)), format!("deserialising / matching / encoding the {name} message {} panicked: {e}", hexs(msg)), case.clone())
    })?;
    if m.largest_request() > msg.len() + 4096 {
        return Err(Violation::new(format!("C09:{name}-message:allocation"), format!("{} bytes requested for a {}-byte message", m.largest_request(), msg.len()), case));
    }
    Ok(match r {
        Err(_) => Cow::Borrowed("refused"),
        Ok(p) => Cow::Owned(format!("type{}:{}{}", p.type_id, if p.responded_echo.is_some() { "matched" } else { "unmatched" }, if p.encoded.is_some() { ":reported" } else { "" })),
    })
}

fn sweep_icmp(rep: &mut Report, _tier: Tier) {
    let codes = [0u8, 1, 0xff];
    let n = 2 * 256 * 3 * 101 * N_QUOTED;
    let r = sweep_dyn(n, 1024, Duration::from_secs(900), rt::workers(), |i| {
        let v6 = i % 2 == 1;
        let t = ((i / 2) % 256) as u8;
        let code = codes[((i / 512) % 3) as usize];
        let len = ((i / 1536) % 101) as usize;
        let q = quoted(((i / 1536 / 101) % N_QUOTED) as usize);
        let mut msg = vec![t, code, 0, 0, 0, 0, 0, 0];
        msg.extend_from_slice(&q);
        msg.resize(len.max(0), 0);
        msg.truncate(len);
        check_icmp(v6, &msg)
    });
    rep.add("evaluations", r.evaluations);
    rep.add("distinct_nontrivial", r.classes.len() as u64);
    rep.sub.push(json!({"sub":"icmp-messages","cases":r.evaluations,"completed":r.completed,"classes":r.classes.len(),
        "domain":"{ICMP, ICMPv6} x type 0..=255 x code {0,1,255} x total length 0..=100 x 12 quoted-packet shapes (zeros, ones, IPv4 IHL 5/15 + echo, truncated options, IPv6 with extension chains incl. a 2040-byte declared extension, repeated 0x45/0x4f, cut after the type byte)"}));
    rep.violations(r.violations);
}

// ------------------------------------------------------------------------------------------------
// (c) the two multiplexer stream decoders: grid over the length and name-length fields
// ------------------------------------------------------------------------------------------------

const UDP_LEN: [u32; 16] = [0, 1, 35, 36, 37, 38, 39, 45, 292, 293, 65_470, 65_471, 65_544, 65_545, 0x8000_0000, 0xffff_ffff];
const UDP_NAME: [u8; 5] = [0, 1, 2, 0x7f, 0xff];

fn udp_stream(len_field: u32, name_len: u8, present: usize) -> Vec<u8> {
    let mut s = len_field.to_be_bytes().to_vec();
    let mut body = vec![0u8; 36];
    body[15] = 9; // 0.0.0.9
    body[17] = 1;
    body[33] = 8;
    body[35] = 53;
    body.push(name_len);
    body.extend(std::iter::repeat(b'n').take(name_len as usize));
    body.extend(std::iter::repeat(b'p').take(70_000));
    body.truncate(present);
    s.extend_from_slice(&body);
    s
}

fn check_udp_stream(len_i: usize, name_i: usize, present: usize, cut: Option<usize>) -> Result<Cow<'static, str>, Violation> {
    let mut s = udp_stream(UDP_LEN[len_i], UDP_NAME[name_i], present);
    // a valid record follows: decoded iff the stream is still in step
    s.extend_from_slice(&super::c06::build(0, 7));
    let case = json!({"kind":"udp-stream","len":UDP_LEN[len_i],"name_len":UDP_NAME[name_i],"present":present,"cut":cut});
    let stream = Bytes::from(s);
    let cuts: Vec<usize> = cut.into_iter().filter(|c| *c > 0 && *c < stream.len()).collect();
    let m = alloc::begin();
    let got = super::c06::impl_decode(&stream, &cuts).map_err(|e| Violation::new(format!("C09:udp-stream:panic:len={}", UDP_LEN[len_i]), format!("the UDP stream decoder panicked: {e}"), case.clone()))?;
    if m.largest_request() > 2 * 65_536 + 4096 {
        return Err(Violation::new(format!("C09:udp-stream:allocation:len={}", UDP_LEN[len_i]), format!("{} bytes requested in one allocation while decoding a stream of {} bytes", m.largest_request(), stream.len()), case));
    }
    // the documentation does not fix the largest accepted record: datagrams near 64 KiB may be
    // accepted or dropped, the stream must stay in step either way
    let want: Vec<_> = super::c06::ref_decode(&stream).into_iter().map(|x| x.1).filter(|d| d.payload.len() < 60_000).collect();
    let got: Vec<_> = got.into_iter().filter(|d| d.payload.len() < 60_000).collect();
    if got != want {
        return Err(Violation::new(
            format!("C09:udp-stream:differs-from-reference:len={}:name={}", UDP_LEN[len_i], UDP_NAME[name_i]),
            format!("{} datagram(s) decoded, the record layout gives {}", got.len(), want.len()),
            case,
        ));
    }
    Ok(Cow::Owned(format!("{}datagrams", got.len())))
}

fn sweep_streams(rep: &mut Report, tier: Tier) {
    // bytes present after the length field, relative to interesting boundaries
    let presents = |len: u32, name: u8| -> Vec<usize> {
        let mut v = vec![0usize, 1, 35, 36, 37, 38, 37 + name as usize, 37 + name as usize + 3];
        if (len as usize) < 70_000 {
            v.push(len as usize);
            v.push((len as usize).saturating_sub(1));
            v.push(len as usize + 1);
        }
        v.sort();
        v.dedup();
        v
    };
    let mut cases: Vec<(usize, usize, usize, Option<usize>)> = vec![];
    for li in 0..UDP_LEN.len() {
        for ni in 0..UDP_NAME.len() {
            for p in presents(UDP_LEN[li], UDP_NAME[ni]) {
                cases.push((li, ni, p, None));
                let total = 4 + p;
                let mut cuts: Vec<usize> = (1..=total.min(tier.pick(48, 300))).collect();
                cuts.extend([total.saturating_sub(1), total, total + 1, total + 4, total + 41]);
                cuts.sort();
                cuts.dedup();
                for c in cuts {
                    cases.push((li, ni, p, Some(c)));
                }
            }
        }
    }
    let r = sweep_dyn(cases.len() as u64, 8, Duration::from_secs(900), rt::workers(), |i| {
        let (li, ni, p, c) = cases[i as usize];
        let _g = watch::enter(format!("C09:udp-stream:wedged:len={}", UDP_LEN[li]), json!({"kind":"udp-stream","len":UDP_LEN[li],"name_len":UDP_NAME[ni],"present":p,"cut":c}).to_string());
        check_udp_stream(li, ni, p, c)
    });
    rep.add("evaluations", r.evaluations);
    rep.add("distinct_nontrivial", r.classes.len() as u64);
    rep.sub.push(json!({"sub":"udp-stream","cases":r.evaluations,"completed":r.completed,"classes":r.classes.keys().collect::<Vec<_>>(),
        "domain":format!("length field {UDP_LEN:?} x name length {UDP_NAME:?} x bytes present {{0,1,35..38,header+name,+3,len-1,len,len+1}} followed by a valid record; unsegmented and every 1-cut in the first {} bytes and around the record end", tier.pick(48, 300))}));
    rep.violations(r.violations);
    // ICMP request stream: fixed 23-byte records, every fill x length x 1-cut
    let fills = [0u8, 1, 0x7f, 0xff];
    let n = fills.len() as u64 * 71 * 71;
    let r = sweep_dyn(n, 64, Duration::from_secs(600), rt::workers(), |i| {
        let fill = fills[(i % 4) as usize];
        let len = ((i / 4) % 71) as usize;
        let cut = (i / 4 / 71) as usize;
        if cut > len {
            return Ok(Cow::Borrowed("-"));
        }
        let case = json!({"kind":"icmp-stream","fill":fill,"len":len,"cut":cut});
        let _g = watch::enter("C09:icmp-stream:wedged".to_string(), case.to_string());
        let stream = Bytes::from(vec![fill; len]);
        let cuts: Vec<usize> = if cut > 0 && cut < len { vec![cut] } else { vec![] };
        let m = alloc::begin();
        let got = super::c11::impl_decode_icmp(&stream, &cuts).map_err(|e| Violation::new("C09:icmp-stream:panic", format!("the ICMP stream decoder panicked: {e}"), case.clone()))?;
        if m.largest_request() > 2 * 65_536 + 4096 {
            return Err(Violation::new("C09:icmp-stream:allocation", format!("{} bytes requested in one allocation for a {len}-byte stream", m.largest_request()), case));
        }
        let want = super::c11::ref_decode_icmp(&stream);
        if got != want {
            return Err(Violation::new("C09:icmp-stream:differs-from-reference", format!("{} request(s) decoded from {len} bytes of {fill:#04x}, the record layout gives {}", got.len(), want.len()), case));
        }
        Ok(Cow::Owned(format!("{}requests", got.len())))
    });
    rep.add("evaluations", r.evaluations);
    rep.add("distinct_nontrivial", r.classes.len() as u64);
    rep.sub.push(json!({"sub":"icmp-stream","cases":r.evaluations,"completed":r.completed,"domain":"fill {00,01,7f,ff} x stream length 0..=70 x every 1-cut"}));
    rep.violations(r.violations);
}

// ------------------------------------------------------------------------------------------------
// (d) the first bytes of a TLS connection
// ------------------------------------------------------------------------------------------------

const MUT_VALUES: [u8; 5] = [0x00, 0x01, 0x7f, 0x80, 0xff];

fn check_random(bytes: &[u8], what: &str, case: serde_json::Value) -> Result<&'static str, Violation> {
    let m = alloc::begin();
    let r = super::guarded(|| vh::extract_client_random(bytes)).map_err(|e| Violation::new(format!("C09:client-hello:panic:{what}"), format!("extract_client_random panicked: {e}"), case.clone()))?;
    if m.largest_request() > bytes.len() * 64 + (1 << 20) {
        return Err(Violation::new(format!("C09:client-hello:allocation:{what}"), format!("{} bytes requested in one allocation for {} input bytes", m.largest_request(), bytes.len()), case));
    }
    match r {
        Err(()) => Ok("need-more"),
        Ok(None) => Ok("absent"),
        Ok(Some(v)) if v.len() == 32 => Ok("found"),
        Ok(Some(v)) => Err(Violation::new(format!("C09:client-hello:short-random:{what}"), format!("a {}-byte value reported as the client random", v.len()), case)),
    }
}

fn sweep_client_hello(rep: &mut Report, tier: Tier) -> Result<(), String> {
    let corpus: Vec<(String, Vec<u8>)> = super::c12::corpus()?.into_iter().filter(|s| s.bytes.len() < 6000).map(|s| (s.name, s.bytes)).collect();
    let mut cases: Vec<(usize, usize, u8)> = vec![]; // (sample, position, value index; 5 = flip low bit)
    for (si, (_, b)) in corpus.iter().enumerate() {
        for pos in 0..b.len().min(tier.pick(400, 6000)) {
            for v in 0..6u8 {
                cases.push((si, pos, v));
            }
        }
    }
    let r = sweep_dyn(cases.len() as u64, 16, Duration::from_secs(900), rt::workers(), |i| {
        let (si, pos, v) = cases[i as usize];
        let (name, base) = &corpus[si];
        let mut b = base.clone();
        b[pos] = if v == 5 { b[pos] ^ 1 } else { MUT_VALUES[v as usize] };
        let _g = watch::enter(format!("C09:client-hello:wedged:{name}"), json!({"kind":"client-hello","sample":name,"pos":pos,"value":b[pos]}).to_string());
        // the mutated hello, whole, and every truncation around the mutated byte and the record end
        let mut cls = "";
        let mut cuts = vec![b.len(), pos + 1, (pos + 2).min(b.len()), (pos + 44).min(b.len()), b.len() - 1];
        cuts.dedup();
        for end in cuts {
            cls = check_random(&b[..end], name, json!({"kind":"client-hello","sample":name,"pos":pos,"value":b[pos],"end":end}))?;
        }
        Ok(Cow::Owned(format!("{name}:{cls}")))
    });
    rep.add("evaluations", r.evaluations * 5);
    rep.add("distinct_nontrivial", r.classes.len() as u64);
    rep.sub.push(json!({"sub":"client-hello","samples":corpus.len(),"mutations":r.evaluations,"completed":r.completed,"classes":r.classes.len(),
        "domain":format!("{} hello samples x every byte position (first {} bytes) x {{00,01,7f,80,ff,flip}} x 5 truncations", corpus.len(), tier.pick(400, 6000))}));
    rep.violations(r.violations);
    // all short strings over the values the record parser branches on
    let alpha = [0x00u8, 0x01, 0x02, 0x03, 0x16, 0x14, 0x80, 0xff, 0x20, 0x2e];
    let max_l = tier.pick(5u32, 6u32);
    let n = count_seqs(alpha.len() as u64, max_l);
    let r = sweep_dyn(n, 2048, Duration::from_secs(600), rt::workers(), |i| {
        let s: Vec<u8> = nth_seq(i, alpha.len() as u64).into_iter().map(|k| alpha[k]).collect();
        let mut padded = s.clone();
        padded.extend_from_slice(&[0u8; 48]);
        check_random(&s, "short", json!({"kind":"client-hello-raw","bytes":hexs(&s)}))?;
        check_random(&padded, "short-padded", json!({"kind":"client-hello-raw","bytes":hexs(&padded)})).map(Cow::Borrowed)
    });
    rep.add("evaluations", r.evaluations * 2);
    rep.add("distinct_nontrivial", r.classes.len() as u64);
    rep.sub.push(json!({"sub":"client-hello-short-strings","cases":r.evaluations * 2,"completed":r.completed,"domain":format!("all strings of length <= {max_l} over {alpha:02x?}, bare and followed by 48 zero bytes")}));
    rep.violations(r.violations);
    Ok(())
}


// ------------------------------------------------------------------------------------------------
// (d2) the first bytes of a TLS connection through TlsListener::listen on a real socket
// ------------------------------------------------------------------------------------------------

fn tls_shape(kind: usize, size: usize) -> Vec<u8> {
    let head: &[u8] = match kind {
        0 => &[0x16, 0x03, 0x01, 0xff, 0xff],                   // a handshake record that never completes
        1 => &[0x16, 0x03, 0x01, 0x40, 0x00, 0x01, 0xff, 0xff, 0xff], // ClientHello announcing 16 MiB
        2 => &[0x16, 0x03, 0x01, 0x00, 0x00],                   // empty records for ever
        3 => &[0x17, 0x03, 0x03, 0x00, 0x01, 0x00],             // application data first
        4 => &[0x80, 0xff, 0x01, 0x03, 0x01],                   // SSLv2-style header
        5 => b"GET / HTTP/1.1\r\n",
        6 => &[0x16, 0x03, 0x01, 0x00, 0x04, 0x01, 0x00, 0x00, 0x00], // ClientHello of length 0
        _ => &[],
    };
    let mut v = vec![];
    while v.len() < size {
        if matches!(kind, 2 | 3 | 6) {
            v.extend_from_slice(head);
        } else if v.is_empty() {
            v.extend_from_slice(head);
        } else {
            v.push(0);
        }
        if head.is_empty() {
            v.push(0);
        }
    }
    v.truncate(size);
    v
}
const N_TLS_SHAPES: usize = 8;
const TLS_SIZES: [usize; 11] = [0, 1, 4, 5, 6, 1024, 16_383, 16_384, 16_385, 70_000, 300_000];

async fn tls_case(bytes: &[u8]) -> Result<&'static str, (String, String)> {
    let mach = |e: String| ("machinery".to_string(), e);
    let listener = tokio::net::TcpListener::bind("127.0.0.1:0").await.map_err(|e| mach(e.to_string()))?;
    let addr = listener.local_addr().unwrap();
    let mut connect = Box::pin(tokio::net::TcpStream::connect(addr));
    let mut accept = Box::pin(listener.accept());
    let (mut sock, mut srv) = (None, None);
    let t0 = std::time::Instant::now();
    while (sock.is_none() || srv.is_none()) && t0.elapsed() < Duration::from_secs(5) {
        if sock.is_none() {
            if let Some(r) = door::poll_once(&mut connect).await {
                sock = Some(r.map_err(|e| mach(e.to_string()))?);
            }
        }
        if srv.is_none() {
            if let Some(r) = door::poll_once(&mut accept).await {
                srv = Some(r.map_err(|e| mach(e.to_string()))?.0);
            }
        }
        tokio::task::yield_now().await;
    }
    let (Some(mut sock), Some(srv)) = (sock, srv) else {
        return Err(mach("loopback connect failed".into()));
    };
    let _ = sock.set_linger(Some(Duration::ZERO));
    let meter = alloc::begin();
    let mut server = tokio::spawn(async move { vh::tls_listen(srv).await.map(|_| ()).map_err(|e| e.to_string()) });
    let mut sent = 0usize;
    let mut ended = None;
    let t0 = std::time::Instant::now();
    // write as much as the peer takes; a listener that stopped reading leaves the rest in the socket
    let mut stalled = 0;
    while sent < bytes.len() && stalled < 200 && t0.elapsed() < Duration::from_secs(5) {
        match sock.try_write(&bytes[sent..]) {
            Ok(n) => {
                sent += n;
                stalled = 0;
            }
            Err(e) if e.kind() == std::io::ErrorKind::WouldBlock => stalled += 1,
            Err(_) => break,
        }
        door::spin(3).await;
        if ended.is_none() {
            let mut f = Box::pin(&mut server);
            ended = door::poll_once(&mut f).await;
        }
        if ended.is_some() {
            break;
        }
    }
    door::spin(30).await;
    let peak = meter.peak_above_start();
    let largest = meter.largest_request();
    {
        let mut sd = Box::pin(sock.shutdown());
        let _ = door::until(&mut sd, Duration::from_secs(1)).await;
    }
    let t0 = std::time::Instant::now();
    while ended.is_none() && t0.elapsed() < Duration::from_secs(5) {
        let mut f = Box::pin(&mut server);
        ended = door::poll_once(&mut f).await;
        tokio::task::yield_now().await;
    }
    drop(sock);
    match ended {
        None => {
            server.abort();
            return Err(("listener-outlives-connection".into(), format!("TlsListener::listen is still pending 5 s after the peer closed ({sent} bytes sent)")));
        }
        Some(Err(e)) if e.is_panic() => return Err(("panic".into(), "TlsListener::listen panicked".into())),
        Some(_) => {}
    }
    if std::env::var_os("VERIF_DEBUG").is_some() {
        eprintln!("tls first flight {} bytes: sent {sent} peak {peak} largest {largest}", bytes.len());
    }
    // stated bound: 16 KiB of prebuffer (+ what the TLS stack holds for one handshake message)
    if peak > 16 * 1024 + 65_536 + 16 * 1024 || largest > 65_536 {
        return Err(("buffered-beyond-bound".into(), format!("{peak} bytes live (largest single allocation {largest}) while reading a {}-byte first flight", bytes.len())));
    }
    Ok(if sent < bytes.len() { "stopped-reading" } else { "read-all" })
}


// (d3) the peeking step alone, with the first flight arriving in two parts: what it holds afterwards
// never exceeds the stated 16 KiB, wherever the first part ends
const PREBUF_FIRST: [usize; 10] = [1, 5, 6, 1000, 1025, 5000, 8191, 15_500, 16_383, 16_384];
const PREBUF_BOUND: usize = 16 * 1024;

async fn tls_prebuffer_case(kind: usize, first: usize) -> Result<&'static str, (String, String)> {
    let mach = |e: String| ("machinery".to_string(), e);
    let bytes = tls_shape(kind, first + 20_000);
    let listener = tokio::net::TcpListener::bind("127.0.0.1:0").await.map_err(|e| mach(e.to_string()))?;
    let addr = listener.local_addr().unwrap();
    let (sock, srv) = tokio::join!(tokio::net::TcpStream::connect(addr), listener.accept());
    let mut sock = sock.map_err(|e| mach(e.to_string()))?;
    let srv = srv.map_err(|e| mach(e.to_string()))?.0;
    let _ = sock.set_linger(Some(Duration::ZERO));
    let _ = sock.set_nodelay(true);
    use tokio::io::AsyncWriteExt;
    sock.write_all(&bytes[..first]).await.map_err(|e| mach(e.to_string()))?;
    // the first part is in the listener's socket buffer before the peeking starts
    tokio::time::sleep(Duration::from_millis(20)).await;
    let mut server = tokio::spawn(async move { vh::tls_prebuffer(srv).await.map_err(|e| e.to_string()) });
    // let it take the first part, then offer the rest at once
    let mut ended = None;
    let t0 = std::time::Instant::now();
    while ended.is_none() && t0.elapsed() < Duration::from_millis(40) {
        let mut f = Box::pin(&mut server);
        ended = door::poll_once(&mut f).await;
        tokio::time::sleep(Duration::from_millis(2)).await;
    }
    if ended.is_none() {
        let _ = sock.write_all(&bytes[first..]).await;
        let t0 = std::time::Instant::now();
        while ended.is_none() && t0.elapsed() < Duration::from_secs(5) {
            let mut f = Box::pin(&mut server);
            ended = door::poll_once(&mut f).await;
            tokio::time::sleep(Duration::from_millis(2)).await;
        }
    }
    drop(sock);
    match ended {
        None => {
            server.abort();
            Err(("peeking-never-ends".into(), format!("the peeking step is still pending 5 s after {} bytes were offered", bytes.len())))
        }
        Some(Err(e)) if e.is_panic() => Err(("panic".into(), "the peeking step panicked".into())),
        Some(Err(e)) => Err(mach(e.to_string())),
        Some(Ok(Err(_io))) => Ok("io-error"),
        Some(Ok(Ok((held, random)))) => {
            if held > PREBUF_BOUND {
                return Err(("prebuffer-beyond-bound".into(), format!("{held} bytes held after peeking (bound {PREBUF_BOUND}); the first part was {first} bytes, {} more were on offer", bytes.len() - first)));
            }
            if held > bytes.len() {
                return Err(("prebuffer-more-than-sent".into(), format!("{held} bytes held, {} sent", bytes.len())));
            }
            Ok(if random.is_some() { "random-found" } else if held == PREBUF_BOUND { "stopped-at-bound" } else { "stopped-early" })
        }
    }
}

fn run_tls_prebuffer(kind: usize, first: usize) -> Result<Cow<'static, str>, Violation> {
    let case = json!({"kind":"tls-prebuffer","shape":kind,"first":first});
    let _g = watch::enter(format!("C09:tls-prebuffer:wedged:shape{kind}"), case.to_string());
    let r = super::guarded(|| rt::run_real(async move { tls_prebuffer_case(kind, first).await }));
    match r {
        Err(p) => Err(Violation::new(format!("C09:tls-prebuffer:panic:shape{kind}"), format!("panicked: {p}"), case)),
        Ok(Err((sig, what))) if sig == "machinery" => Err(Violation::new("C09:machinery", what, case)),
        Ok(Err((sig, what))) => Err(Violation::new(format!("C09:tls-prebuffer:{sig}:shape{kind}"), what, case)),
        Ok(Ok(c)) => Ok(Cow::Owned(format!("shape{kind}:{c}"))),
    }
}

fn sweep_tls_prebuffer(rep: &mut Report) {
    let n = (N_TLS_SHAPES * PREBUF_FIRST.len()) as u64;
    let r = sweep_dyn(n, 1, Duration::from_secs(600), rt::workers(), |i| run_tls_prebuffer(i as usize % N_TLS_SHAPES, PREBUF_FIRST[i as usize / N_TLS_SHAPES]));
    rep.add("evaluations", r.evaluations);
    rep.add("distinct_nontrivial", r.classes.len() as u64);
    rep.sub.push(json!({"sub":"tls-prebuffer-two-parts","cases":r.evaluations,"completed":r.completed,"classes":r.classes.keys().collect::<Vec<_>>(),
        "domain":format!("the 8 first-flight shapes, first part of {PREBUF_FIRST:?} bytes already received when TlsListener's peeking step starts, 20000 more bytes offered once it has taken them; bytes held afterwards <= 16384")}));
    rep.violations(r.violations);
}

fn run_tls(kind: usize, size: usize) -> Result<Cow<'static, str>, Violation> {
    let case = json!({"kind":"tls-first-bytes","shape":kind,"size":size});
    let _g = watch::enter(format!("C09:tls-first-bytes:wedged:shape{kind}"), case.to_string());
    let b = tls_shape(kind, size);
    let r = super::guarded(|| rt::run_real(async move { tls_case(&b).await }));
    match r {
        Err(p) => Err(Violation::new(format!("C09:tls-first-bytes:panic:shape{kind}"), format!("panicked: {p}"), case)),
        Ok(Err((sig, what))) if sig == "machinery" => Err(Violation::new("C09:machinery", what, case)),
        Ok(Err((sig, what))) => Err(Violation::new(format!("C09:tls-first-bytes:{sig}:shape{kind}"), what, case)),
        Ok(Ok(c)) => Ok(Cow::Owned(format!("shape{kind}:{c}"))),
    }
}

fn sweep_tls(rep: &mut Report, _tier: Tier) {
    let n = (N_TLS_SHAPES * TLS_SIZES.len()) as u64;
    let r = sweep_dyn(n, 1, Duration::from_secs(600), rt::workers(), |i| run_tls(i as usize % N_TLS_SHAPES, TLS_SIZES[i as usize / N_TLS_SHAPES]));
    rep.add("evaluations", r.evaluations);
    rep.add("distinct_nontrivial", r.classes.len() as u64);
    rep.sub.push(json!({"sub":"tls-first-bytes","cases":r.evaluations,"completed":r.completed,"classes":r.classes.keys().collect::<Vec<_>>(),
        "domain":format!("8 first-flight shapes (never-completing record, 16 MiB ClientHello, endless empty records, application data, SSLv2 header, plain HTTP, zero-length ClientHello, zeros) x sizes {TLS_SIZES:?} through TlsListener::listen on a loopback socket; live heap while reading <= 16 KiB prebuffer + TLS stack message buffer")}));
    rep.violations(r.violations);
}

// ------------------------------------------------------------------------------------------------
// (e) configuration, credentials and rules files
// ------------------------------------------------------------------------------------------------

const TOML_VALUES: [&str; 14] = [
    "\"v\"", "\"\"", "'lit'", "1", "-1", "1.5", "true", "[]", "[\"a\"]", "[1, \"a\"]", "{}", "{ a = 1 }", "1979-05-27T07:32:00Z", "\"\\u0000\"",
];

fn toml_parse_case(kind: &str, text: &str, dir: &std::path::Path, tag: u64) -> Result<&'static str, Violation> {
    let case = json!({"kind":"toml","file":kind,"text":text});
    let path = dir.join(format!("{kind}-{tag}.toml"));
    std::fs::write(&path, text).map_err(|e| Violation::new("C09:machinery", e.to_string(), json!({})))?;
    let q = super::c04::toml_quote(&path.to_string_lossy());
    let settings_text = match kind {
        "credentials" => format!("listen_address = \"127.0.0.1:1\"\ncredentials_file = {q}\n[listen_protocols.http2]\n"),
        "rules" => format!("listen_address = \"127.0.0.1:1\"\nrules_file = {q}\n[listen_protocols.http2]\n"),
        _ => text.to_string(),
    };
    let m = alloc::begin();
    let r = super::guarded(|| match kind {
        "hosts" => toml::from_str::<trusttunnel::settings::TlsHostsSettings>(&settings_text).map(|_| ()).map_err(|e| e.to_string()),
        _ => toml::from_str::<trusttunnel::settings::Settings>(&settings_text).map(|_| ()).map_err(|e| e.to_string()),
    });
    let _ = std::fs::remove_file(&path);
    let r = r.map_err(|e| Violation::new(format!("C09:{kind}-file:panic"), format!("reading this {kind} file panicked: {e}\n{text}"), case.clone()))?;
    if m.largest_request() > text.len() * 64 + (4 << 20) {
        return Err(Violation::new(format!("C09:{kind}-file:allocation"), format!("{} bytes requested in one allocation for a {}-byte file", m.largest_request(), text.len()), case));
    }
    Ok(if r.is_ok() { "accepted" } else { "refused" })
}

fn sweep_toml(rep: &mut Report, tier: Tier) {
    let mut files: Vec<(&'static str, String)> = vec![];
    // credentials: every pair of (key, value form) for the two fields, missing keys, wrong container types
    let keys = ["username", "password", "user", ""];
    for k1 in keys {
        for v1 in TOML_VALUES {
            for k2 in keys {
                for v2 in TOML_VALUES {
                    if !tier.pick(true, true) {
                        continue;
                    }
                    let mut t = String::from("[[client]]\n");
                    if !k1.is_empty() {
                        t.push_str(&format!("{k1} = {v1}\n"));
                    }
                    if !k2.is_empty() && k2 != k1 {
                        t.push_str(&format!("{k2} = {v2}\n"));
                    }
                    files.push(("credentials", t));
                }
            }
        }
    }
    for v in TOML_VALUES {
        files.push(("credentials", format!("client = {v}\n")));
        files.push(("credentials", format!("[client]\nusername = {v}\npassword = \"p\"\n")));
        files.push(("credentials", format!("[[client]]\nusername = \"u\"\npassword = \"p\"\n[[client]]\nusername = {v}\n")));
        files.push(("rules", format!("rule = {v}\n")));
        files.push(("rules", format!("[rule]\naction = {v}\n")));
        for k in ["cidr", "client_random_prefix", "action"] {
            files.push(("rules", format!("[[rule]]\n{k} = {v}\n")));
            files.push(("rules", format!("[[rule]]\naction = \"deny\"\n{k} = {v}\n[[rule]]\n{k} = {v}\naction = \"allow\"\n")));
        }
    }
    for s in [
        "", "/", "/0", "/33", "/-1", "1.2.3.4/", "1.2.3.4/33", "1.2.3.4/032", "::/129", "::/", "1.2.3.4/99999999999999999999", "256.1.1.1/8", "1.2.3/8", " 1.2.3.4/8", "1.2.3.4/8 ", "fe80::1%eth0/64", "[::1]/128", "é/8", "0/0",
    ] {
        files.push(("rules", format!("[[rule]]\ncidr = {}\naction = \"deny\"\n", super::c04::toml_quote(s))));
    }
    for s in [
        "", "/", "a", "ab", "abc", "zz", "ab/", "/ff", "ab/f", "ab/ff", "abcd/ff", "ab/ffff", "ab/zz", "é", "éé", "aé", "ab/é", "ab/ff/ff", " ab", "ab ", "0x", "0xab", "-1", "+1", &"ab".repeat(40), &format!("{}/{}", "ab".repeat(40), "f".repeat(3)),
        &"a".repeat(63), &format!("{}/{}", "a".repeat(64), "f".repeat(62)),
    ] {
        files.push(("rules", format!("[[rule]]\nclient_random_prefix = {}\naction = \"deny\"\n", super::c04::toml_quote(s))));
    }
    // structural damage common to every file kind
    let long = "x".repeat(10_000);
    for kind in ["credentials", "rules", "settings", "hosts"] {
        let valid = match kind {
            "credentials" => "[[client]]\nusername = \"u\"\npassword = \"p\"\n".to_string(),
            "rules" => "[[rule]]\ncidr = \"10.0.0.0/8\"\naction = \"deny\"\n".to_string(),
            "settings" => "listen_address = \"127.0.0.1:1\"\n[listen_protocols.http2]\n".to_string(),
            _ => format!("[[main_hosts]]\nhostname = \"m.t\"\ncert_chain_path = \"{}\"\nprivate_key_path = \"{}\"\n", rt::cert_path("m.t"), rt::key_path("m.t")),
        };
        files.push((kind, valid.clone()));
        files.push((kind, String::new()));
        files.push((kind, "\u{feff}".to_string() + &valid));
        files.push((kind, valid.replace('\n', "\r\n")));
        files.push((kind, format!("{valid}{valid}")));
        files.push((kind, format!("{valid}x = \"{long}\"\n")));
        files.push((kind, valid.replace("\"u\"", &format!("\"{long}\"")).replace("\"10.0.0.0/8\"", &format!("\"{long}\"")).replace("\"m.t\"", &format!("\"{long}\""))));
        files.push((kind, "[".repeat(50)));
        files.push((kind, format!("a = {}1{}\n", "[".repeat(60), "]".repeat(60))));
        files.push((kind, format!("a = {}b = 1 {}\n", "{ a = ".repeat(60), "}".repeat(60))));
        files.push((kind, "= 1\n".into()));
        files.push((kind, "\"\" = 1\n".into()));
        files.push((kind, "a.b.c.d.e.f.g = 1\n[a]\n".into()));
        for cutpoint in 0..=valid.len() {
            if valid.is_char_boundary(cutpoint) {
                files.push((kind, valid[..cutpoint].to_string()));
            }
        }
        for (i, c) in valid.char_indices() {
            for rep_c in ["\"", "'", "[", "]", "=", "\n", "#", "\\", "\u{0}", "é"] {
                let mut t = valid.clone();
                t.replace_range(i..i + c.len_utf8(), rep_c);
                files.push((kind, t));
            }
        }
    }
    // settings: every scalar key with every value form
    for key in [
        "listen_address", "ipv6_available", "allow_private_network_connections", "tls_handshake_timeout_secs", "client_listener_timeout_secs", "connection_establishment_timeout_secs", "tcp_connections_timeout_secs",
        "udp_connections_timeout_secs", "credentials_file", "rules_file", "speedtest_enable", "listen_protocols", "forward_protocol", "reverse_proxy", "icmp", "metrics",
    ] {
        for v in TOML_VALUES.iter().chain(["18446744073709551615", "9223372036854775807", "-9223372036854775808", "1e400", "\"127.0.0.1:99999\"", "\"[::1]:1\"", "\"localhost:1\"", "\":1\"", "\"/nonexistent/file\"", "\"/\"", "\"/dev/null\""].iter()) {
            files.push(("settings", format!("{key} = {v}\nlisten_address = \"127.0.0.1:1\"\n[listen_protocols.http2]\n").replacen(&format!("listen_address = \"127.0.0.1:1\"\n"), if key == "listen_address" { "" } else { "listen_address = \"127.0.0.1:1\"\n" }, 1)));
        }
    }
    for (sect, keys) in [
        ("listen_protocols.http1", vec!["upload_buffer_size"]),
        ("listen_protocols.http2", vec!["initial_connection_window_size", "initial_stream_window_size", "max_concurrent_streams", "max_frame_size", "header_table_size"]),
        ("listen_protocols.quic", vec!["recv_udp_payload_size", "send_udp_payload_size", "initial_max_data", "initial_max_streams_bidi", "message_queue_capacity", "enable_early_data"]),
        ("icmp", vec!["interface_name", "request_timeout_secs", "recv_message_queue_capacity"]),
        ("metrics", vec!["address", "request_timeout_secs"]),
        ("forward_protocol.socks5", vec!["address", "extended_auth"]),
        ("reverse_proxy", vec!["server_address", "path_mask", "h3_backward_compatibility"]),
    ] {
        for k in keys {
            for v in TOML_VALUES.iter().chain(["0", "18446744073709551615", "4294967296", "-9223372036854775808"].iter()) {
                files.push(("settings", format!("listen_address = \"127.0.0.1:1\"\n[listen_protocols.http2]\n[{sect}]\n{k} = {v}\n").replacen("[listen_protocols.http2]\n[listen_protocols.http2]\n", "[listen_protocols.http2]\n", 1)));
            }
        }
    }
    let dir = std::env::temp_dir().join(format!("ttv-c09-{}", std::process::id()));
    let _ = std::fs::create_dir_all(&dir);
    let r = sweep_dyn(files.len() as u64, 4, Duration::from_secs(900), rt::workers(), |i| {
        let (kind, text) = &files[i as usize];
        let _g = watch::enter(format!("C09:{kind}-file:wedged"), json!({"kind":"toml","file":kind,"text":text}).to_string());
        toml_parse_case(kind, text, &dir, i).map(|c| Cow::Owned(format!("{kind}:{c}")))
    });
    let _ = std::fs::remove_dir_all(&dir);
    rep.add("evaluations", r.evaluations);
    rep.add("distinct_nontrivial", r.classes.len() as u64);
    rep.sub.push(json!({"sub":"files","cases":r.evaluations,"completed":r.completed,"classes":r.classes.iter().map(|(k, v)| format!("{k}={}", v.0)).collect::<Vec<_>>(),
        "domain":"credentials: {username,password,user,absent}^2 x 14 TOML value forms^2, wrong container types; rules: each key x 14 value forms, 19 CIDR and 28 prefix/mask strings; settings: every documented key x 14..25 value forms; every file kind: every truncation and every single-character replacement by 10 metacharacters of a valid file, BOM, CRLF, duplicate tables, 10 kB values, 50..60-deep nesting"}));
    rep.violations(r.violations);
}

// ------------------------------------------------------------------------------------------------
// (f) HTTP/1.1 requests through the real accept path
// ------------------------------------------------------------------------------------------------

const TOKENS: [&[u8]; 14] = [b"GET", b"CONNECT", b" ", b"/", b":", b"\r\n", b"h", b"0", b"\x80", b"HTTP/1.1", b"Host", b"http://", b"\n", b"\0"];

thread_local! {
    static WORLD: std::cell::RefCell<Option<std::rc::Rc<World>>> = const { std::cell::RefCell::new(None) };
}

fn world() -> Result<std::rc::Rc<World>, String> {
    WORLD.with(|w| {
        if w.borrow().is_none() {
            let cfg = Cfg { clients: vec![("u".into(), "p".into())], ..Cfg::default() };
            *w.borrow_mut() = Some(std::rc::Rc::new(make_world(&cfg)?));
        }
        Ok(w.borrow().as_ref().unwrap().clone())
    })
}

fn refuse_all(_: &SocketAddr, _: i32) -> ConnectAnswer {
    ConnectAnswer::Errno(libc::ECONNREFUSED)
}

/// Feed `bytes` (cut at `cut`) to a fresh HTTP/1.1 session of the real accept path, then close.
async fn h1_case(bytes: &[u8], cut: Option<usize>) -> Result<&'static str, (String, String)> {
    let world = world().map_err(|e| ("machinery".to_string(), e))?;
    let (server, h) = sstream::pair();
    let peer: SocketAddr = "198.51.100.7:40000".parse().unwrap();
    let d = door::open_on(&world.ctx, VProtocol::Http1, "m.t", None, peer, server);
    let mut parts: Vec<&[u8]> = vec![];
    match cut {
        Some(c) if c > 0 && c < bytes.len() => {
            parts.push(&bytes[..c]);
            parts.push(&bytes[c..]);
        }
        _ => parts.push(bytes),
    }
    let mut max_polls = 0u64;
    for p in parts {
        if !p.is_empty() {
            h.push(p);
        }
        door::spin(30).await;
        max_polls = max_polls.max(h.empty_read_polls());
    }
    // a request that names a destination waits for the (refused) connect
    let t0 = std::time::Instant::now();
    let mut last = h.progress();
    let mut stable = 0;
    while stable < 25 && t0.elapsed() < Duration::from_secs(5) {
        door::spin(4).await;
        let now = h.progress();
        if now == last {
            stable += 1;
        } else {
            stable = 0;
            last = now;
        }
    }
    max_polls = max_polls.max(h.empty_read_polls());
    let out_before_close = h.out_len();
    h.close();
    let mut task = d.task;
    let mut ended = None;
    {
        let mut f = Box::pin(&mut task);
        let t0 = std::time::Instant::now();
        while t0.elapsed() < Duration::from_secs(5) {
            if let Some(r) = door::poll_once(&mut f).await {
                ended = Some(r);
                break;
            }
            tokio::task::yield_now().await;
        }
    }
    let out = h.take_out();
    match ended {
        None => {
            task.abort();
            return Err(("session-outlives-connection".into(), format!("the session is still running 5 s after the client closed the connection ({} response bytes)", out.len())));
        }
        Some(Err(e)) if e.is_panic() => {
            let p = e.into_panic();
            let msg = p.downcast_ref::<&str>().map(|s| s.to_string()).or_else(|| p.downcast_ref::<String>().cloned()).unwrap_or_else(|| "panic".into());
            return Err(("panic".into(), format!("the session task panicked: {msg}")));
        }
        Some(_) => {}
    }
    if max_polls > 64 {
        return Err(("spin".into(), format!("the session polled the transport {max_polls} times without new input")));
    }
    if out.len() > 8192 {
        return Err(("response-size".into(), format!("{} response bytes for a {}-byte malformed request", out.len(), bytes.len())));
    }
    if h.pulled() > bytes.len() {
        return Err(("machinery".into(), "more bytes pulled than pushed".into()));
    }
    Ok(if out.is_empty() {
        "silent-close"
    } else if out.starts_with(b"HTTP/1.1 ") {
        match &out[9..12.min(out.len())] {
            b"400" => "400",
            b"407" => "407",
            b"502" | b"503" => "5xx",
            b"200" => "200",
            _ => "other-status",
        }
    } else if out_before_close == 0 {
        "late-output"
    } else {
        "non-http-output"
    })
}

fn run_h1(bytes: &[u8], cut: Option<usize>, family: &str) -> Result<Cow<'static, str>, Violation> {
    let case = json!({"kind":"h1-request","bytes":hexs(bytes),"cut":cut,"family":family});
    let _g = watch::enter(format!("C09:h1-request:wedged:{family}"), case.to_string());
    sys::script_host("h", HostAnswer::Addrs(vec!["127.0.0.1".parse().unwrap()]));
    sys::script_connect(Some(refuse_all));
    let b = bytes.to_vec();
    let r = super::guarded(|| rt::run_paused(async move { h1_case(&b, cut).await }));
    sys::script_connect(None);
    match r {
        Err(p) => Err(Violation::new(format!("C09:h1-request:panic:{family}"), format!("the accept path panicked on {:?}: {p}", String::from_utf8_lossy(bytes)), case)),
        Ok(Err((sig, what))) if sig == "machinery" => Err(Violation::new("C09:machinery", what, case)),
        Ok(Err((sig, what))) => Err(Violation::new(format!("C09:h1-request:{sig}:{family}"), format!("{what}; request {:?}", String::from_utf8_lossy(bytes)), case)),
        Ok(Ok(c)) => Ok(Cow::Borrowed(c)),
    }
}

fn valid_heads() -> Vec<(&'static str, Vec<u8>)> {
    vec![
        ("connect", b"CONNECT h:81 HTTP/1.1\r\nHost: h:81\r\nProxy-Authorization: Basic dTpw\r\nUser-Agent: a/1\r\n\r\n".to_vec()),
        ("get", b"GET http://h:81/p?q=1 HTTP/1.1\r\nHost: h:81\r\nProxy-Authorization: Basic dTpw\r\nContent-Length: 3\r\n\r\nabc".to_vec()),
        ("chunked", b"POST http://h:81/ HTTP/1.1\r\nHost: h\r\nProxy-Authorization: Basic dTpw\r\nTransfer-Encoding: chunked\r\n\r\n3\r\nabc\r\n0\r\n\r\n".to_vec()),
        ("udp", b"CONNECT _udp2 HTTP/1.1\r\nHost: _udp2\r\nProxy-Authorization: Basic dTpw\r\n\r\n".to_vec()),
        ("icmp", b"CONNECT _icmp HTTP/1.1\r\nHost: _icmp\r\nProxy-Authorization: Basic dTpw\r\n\r\n".to_vec()),
        ("check", b"CONNECT _check HTTP/1.1\r\nHost: _check\r\nProxy-Authorization: Basic dTpw\r\n\r\n".to_vec()),
    ]
}

fn sweep_h1(rep: &mut Report, tier: Tier) {
    let k = TOKENS.len() as u64;
    let max_l = tier.pick(4u32, 6u32);
    let n = count_seqs(k, max_l);
    let r = sweep_dyn(n, 4, Duration::from_secs(1200), rt::workers(), |i| {
        let toks = nth_seq(i, k);
        let mut bytes = vec![];
        for t in &toks {
            bytes.extend_from_slice(TOKENS[*t]);
        }
        // as typed, and completed into a head
        let a = run_h1(&bytes, None, "tokens")?;
        let mut b2 = bytes.clone();
        b2.extend_from_slice(b" HTTP/1.1\r\nHost: h\r\n\r\n");
        let b = run_h1(&b2, None, "tokens+tail")?;
        Ok(Cow::Owned(format!("{a}/{b}")))
    });
    rep.add("evaluations", r.evaluations * 2);
    rep.add("distinct_nontrivial", r.classes.len() as u64);
    rep.sub.push(json!({"sub":"h1-request-tokens","cases":r.evaluations * 2,"completed":r.completed,"classes":r.classes.iter().map(|(k, v)| format!("{k}={}", v.0)).collect::<Vec<_>>(),
        "domain":format!("all sequences of <= {max_l} tokens over {:?}, bare and followed by ' HTTP/1.1 CRLF Host: h CRLF CRLF', then EOF; through Core::on_tunnel_request (HTTP/1.1)", TOKENS.iter().map(|t| String::from_utf8_lossy(t).into_owned()).collect::<Vec<_>>())}));
    rep.violations(r.violations);
    // single-byte mutations and truncations of valid heads, under a cut at the mutated byte
    let heads = valid_heads();
    let vals: [u8; 8] = [0x00, 0x0a, 0x0d, 0x20, 0x3a, 0x7f, 0x80, 0xff];
    let mut cases: Vec<(usize, usize, Option<u8>)> = vec![];
    for (hi, (_, b)) in heads.iter().enumerate() {
        for pos in 0..b.len() {
            cases.push((hi, pos, None)); // truncation at pos
            if tier == Tier::Thorough || pos % 2 == 0 || pos < 24 {
                for v in vals {
                    cases.push((hi, pos, Some(v)));
                }
            }
        }
    }
    let r = sweep_dyn(cases.len() as u64, 2, Duration::from_secs(1200), rt::workers(), |i| {
        let (hi, pos, v) = cases[i as usize];
        let (name, base) = &heads[hi];
        let mut b = base.clone();
        match v {
            None => b.truncate(pos),
            Some(v) => b[pos] = v,
        }
        let fam = if v.is_some() { format!("mutated-{name}") } else { format!("truncated-{name}") };
        let a = run_h1(&b, None, &fam)?;
        let c = run_h1(&b, Some(pos.max(1)), &fam)?;
        Ok(Cow::Owned(format!("{name}:{a}/{c}")))
    });
    rep.add("evaluations", r.evaluations * 2);
    rep.add("distinct_nontrivial", r.classes.len() as u64);
    rep.sub.push(json!({"sub":"h1-request-mutations","cases":r.evaluations * 2,"completed":r.completed,"classes":r.classes.len(),
        "domain":format!("{} valid heads (CONNECT, forwarded GET with body, chunked POST, _udp2, _icmp, _check) x every truncation and every byte position x {{00,0a,0d,20,3a,7f,80,ff}}, unsegmented and cut at the damaged byte", heads.len())}));
    rep.violations(r.violations);
}

// ------------------------------------------------------------------------------------------------
// (g) origin responses to a forwarded plain-HTTP request
// ------------------------------------------------------------------------------------------------

const RTOKENS: [&[u8]; 16] = [
    b"HTTP/1.1 200 OK\r\n", b"HTTP/1.1 100 Continue\r\n\r\n", b"HTTP/1.1 204 x\r\n", b"HTTP/1.0 200\r\n", b"Content-Length: 3\r\n", b"Content-Length: 18446744073709551616\r\n", b"Content-Length: -1\r\n",
    b"Transfer-Encoding: chunked\r\n", b"\r\n", b"3\r\nabc\r\n", b"0\r\n\r\n", b"ffffffffffffffff1\r\n", b"abc", b"\n", b"\x80\x00", b"x: y\r\n",
];

async fn origin_case(resp: &[u8], h2: bool) -> Result<&'static str, (String, String)> {
    let world = world().map_err(|e| ("machinery".to_string(), e))?;
    let origin = tokio::net::TcpListener::bind("127.0.0.1:0").await.map_err(|e| ("machinery".to_string(), e.to_string()))?;
    let oaddr = origin.local_addr().unwrap();
    let peer: SocketAddr = "198.51.100.7:40000".parse().unwrap();
    let (io, d) = door::open(&world.ctx, if h2 { VProtocol::Http2 } else { VProtocol::Http1 }, "m.t", None, peer, 1 << 16);
    let spec = door::ReqSpec { method: "GET".into(), target: format!("http://127.0.0.1:{}/x", oaddr.port()), proxy_auth: Some(b"Basic dTpw".to_vec()), headers: vec![] };
    let mut h1 = None;
    let mut h2s = None;
    let mut h2c = None;
    if h2 {
        let mut cl = door::H2Client::connect(io).await.map_err(|e| ("machinery".to_string(), e))?;
        h2s = Some(cl.request(spec.h2_request().map_err(|e| ("machinery".to_string(), e))?, true).await.map_err(|e| ("machinery".to_string(), e))?);
        h2c = Some(cl);
    } else {
        let mut cl = door::H1Client::new(io);
        cl.send(&spec.h1_bytes()).await;
        h1 = Some(cl);
    }
    let mut acc = Box::pin(origin.accept());
    let Some(Ok((mut os, _))) = door::until(&mut acc, Duration::from_secs(3)).await else {
        return Err(("machinery".into(), "the request was not forwarded".into()));
    };
    drop(acc);
    let _ = os.set_linger(Some(Duration::ZERO));
    // read the forwarded head
    let mut got = vec![];
    let t0 = std::time::Instant::now();
    while !got.windows(4).any(|w| w == b"\r\n\r\n") && t0.elapsed() < Duration::from_secs(3) {
        let mut tmp = [0u8; 2048];
        let r = {
            let mut f = Box::pin(os.read(&mut tmp));
            door::poll_once(&mut f).await
        };
        match r {
            Some(Ok(0)) | Some(Err(_)) => break,
            Some(Ok(n)) => got.extend_from_slice(&tmp[..n]),
            None => tokio::task::yield_now().await,
        }
    }
    {
        let mut w = Box::pin(os.write_all(resp));
        let _ = door::until(&mut w, Duration::from_secs(2)).await;
    }
    door::spin(40).await;
    {
        let mut s = Box::pin(os.shutdown());
        let _ = door::until(&mut s, Duration::from_secs(1)).await;
    }
    // the client's view
    let mut total = 0usize;
    let mut status: Option<u16> = None;
    if let Some(cl) = h1.as_mut() {
        let t0 = std::time::Instant::now();
        let mut last = 0;
        let mut stable = 0;
        while stable < 30 && t0.elapsed() < Duration::from_secs(3) {
            cl.pump(5).await;
            if cl.inbuf.len() == last {
                stable += 1;
            } else {
                stable = 0;
                last = cl.inbuf.len();
            }
        }
        total = cl.inbuf.len();
        status = cl.take_response().map(|r| r.status);
    }
    if let Some(st) = h2s.as_mut() {
        match st.response(Duration::from_secs(3)).await {
            door::H2Outcome::Response(r) => {
                status = Some(r.status);
                let (body, _, _) = st.body(60).await;
                total = body.len();
            }
            _ => {}
        }
    }
    drop(os);
    drop(h1);
    drop(h2s);
    drop(h2c);
    let mut task = d.task;
    let mut ended = None;
    {
        let mut f = Box::pin(&mut task);
        let t0 = std::time::Instant::now();
        while t0.elapsed() < Duration::from_secs(5) {
            if let Some(r) = door::poll_once(&mut f).await {
                ended = Some(r);
                break;
            }
            tokio::task::yield_now().await;
        }
    }
    match ended {
        None => {
            task.abort();
            return Err(("session-outlives-connection".into(), "the session is still running 5 s after client and origin closed".into()));
        }
        Some(Err(e)) if e.is_panic() => {
            let p = e.into_panic();
            let msg = p.downcast_ref::<&str>().map(|s| s.to_string()).or_else(|| p.downcast_ref::<String>().cloned()).unwrap_or_else(|| "panic".into());
            return Err(("panic".into(), format!("the session task panicked: {msg}")));
        }
        Some(_) => {}
    }
    if total > resp.len() + 4096 {
        return Err(("amplified".into(), format!("{total} bytes delivered to the client for a {}-byte origin response", resp.len())));
    }
    Ok(match status {
        None => "no-final-response",
        Some(200) | Some(204) => "relayed",
        Some(502) | Some(503) | Some(504) => "gateway-error",
        Some(_) => "other-status",
    })
}

fn run_origin(resp: &[u8], h2: bool, family: &str) -> Result<Cow<'static, str>, Violation> {
    let case = json!({"kind":"origin-response","bytes":hexs(resp),"h2":h2,"family":family});
    let _g = watch::enter(format!("C09:origin-response:wedged:{family}"), case.to_string());
    let b = resp.to_vec();
    let r = super::guarded(|| rt::run_real(async move { origin_case(&b, h2).await }));
    match r {
        Err(p) => Err(Violation::new(format!("C09:origin-response:panic:{family}"), format!("panicked on the origin response {:?}: {p}", String::from_utf8_lossy(resp)), case)),
        Ok(Err((sig, what))) if sig == "machinery" => Err(Violation::new("C09:machinery", what, case)),
        Ok(Err((sig, what))) => Err(Violation::new(format!("C09:origin-response:{sig}:{family}:{}", if h2 { "h2" } else { "h1" }), format!("{what}; origin response {:?}", String::from_utf8_lossy(resp)), case)),
        Ok(Ok(c)) => Ok(Cow::Borrowed(c)),
    }
}

fn sweep_origin(rep: &mut Report, tier: Tier) {
    let k = RTOKENS.len() as u64;
    let max_l = tier.pick(3u32, 5u32);
    let n = count_seqs(k, max_l);
    let r = sweep_dyn(n * 2, 1, Duration::from_secs(1500), rt::workers(), |i| {
        let toks = nth_seq(i / 2, k);
        let h2 = i % 2 == 1;
        let mut bytes = vec![];
        for t in &toks {
            bytes.extend_from_slice(RTOKENS[*t]);
        }
        run_origin(&bytes, h2, "tokens")
    });
    rep.add("evaluations", r.evaluations);
    rep.add("distinct_nontrivial", r.classes.len() as u64);
    rep.sub.push(json!({"sub":"origin-response-tokens","cases":r.evaluations,"completed":r.completed,"classes":r.classes.iter().map(|(k, v)| format!("{k}={}", v.0)).collect::<Vec<_>>(),
        "domain":format!("all sequences of <= {max_l} tokens over {} response fragments (status lines, interim response, Content-Length 3 / 2^64 / -1, chunked, chunk, last chunk, 17-digit chunk size, bare LF, non-ASCII), then EOF, to an HTTP/1.1 and an HTTP/2 client", RTOKENS.len())}));
    rep.violations(r.violations);
}

// ------------------------------------------------------------------------------------------------
// (h) SOCKS5 server replies
// ------------------------------------------------------------------------------------------------

const SOCKS_ALPHA: [u8; 8] = [0x00, 0x01, 0x02, 0x03, 0x04, 0x05, 0x80, 0xff];

async fn socks_case(server_bytes: &[u8], lockstep: bool) -> Result<&'static str, (String, String)> {
    let socks = tokio::net::TcpListener::bind("127.0.0.1:0").await.map_err(|e| ("machinery".to_string(), e.to_string()))?;
    let cfg = Cfg { socks5: Some((socks.local_addr().unwrap(), false)), clients: vec![("u".into(), "p".into())], ..Cfg::default() };
    let world = make_world(&cfg).map_err(|e| ("machinery".to_string(), e))?;
    let peer: SocketAddr = "198.51.100.7:40000".parse().unwrap();
    let (io, d) = door::open(&world.ctx, VProtocol::Http1, "m.t", None, peer, 1 << 16);
    let mut cl = door::H1Client::new(io);
    cl.send(b"CONNECT 93.184.216.34:443 HTTP/1.1\r\nHost: 93.184.216.34:443\r\nProxy-Authorization: Basic dTpw\r\n\r\n").await;
    let mut acc = Box::pin(socks.accept());
    let Some(Ok((mut s, _))) = door::until(&mut acc, Duration::from_secs(3)).await else {
        return Err(("machinery".into(), "no connection to the SOCKS5 server".into()));
    };
    drop(acc);
    let _ = s.set_linger(Some(Duration::ZERO));
    if lockstep && server_bytes.len() > 2 {
        let mut w = Box::pin(s.write_all(&server_bytes[..2]));
        let _ = door::until(&mut w, Duration::from_secs(2)).await;
        drop(w);
        door::spin(60).await;
        let mut w = Box::pin(s.write_all(&server_bytes[2..]));
        let _ = door::until(&mut w, Duration::from_secs(2)).await;
    } else {
        let mut w = Box::pin(s.write_all(server_bytes));
        let _ = door::until(&mut w, Duration::from_secs(2)).await;
    }
    door::spin(40).await;
    {
        let mut sd = Box::pin(s.shutdown());
        let _ = door::until(&mut sd, Duration::from_secs(1)).await;
    }
    let resp = cl.response(Duration::from_secs(3)).await;
    drop(s);
    drop(cl);
    let mut task = d.task;
    let mut ended = None;
    {
        let mut f = Box::pin(&mut task);
        let t0 = std::time::Instant::now();
        while t0.elapsed() < Duration::from_secs(5) {
            if let Some(r) = door::poll_once(&mut f).await {
                ended = Some(r);
                break;
            }
            tokio::task::yield_now().await;
        }
    }
    match ended {
        None => {
            task.abort();
            return Err(("session-outlives-connection".into(), "the session is still running 5 s after client and SOCKS5 server closed".into()));
        }
        Some(Err(e)) if e.is_panic() => {
            let p = e.into_panic();
            let msg = p.downcast_ref::<&str>().map(|s| s.to_string()).or_else(|| p.downcast_ref::<String>().cloned()).unwrap_or_else(|| "panic".into());
            return Err(("panic".into(), format!("the session task panicked: {msg}")));
        }
        Some(_) => {}
    }
    Ok(match resp.map(|r| r.status) {
        None => "no-response",
        Some(200) => "200",
        Some(s) if s >= 500 => "5xx",
        Some(_) => "other",
    })
}

fn run_socks(server_bytes: &[u8], lockstep: bool, family: &str) -> Result<Cow<'static, str>, Violation> {
    let case = json!({"kind":"socks-reply","bytes":hexs(server_bytes),"lockstep":lockstep,"family":family});
    let _g = watch::enter(format!("C09:socks-reply:wedged:{family}"), case.to_string());
    let b = server_bytes.to_vec();
    let r = super::guarded(|| rt::run_real(async move { socks_case(&b, lockstep).await }));
    match r {
        Err(p) => Err(Violation::new(format!("C09:socks-reply:panic:{family}"), format!("panicked on the SOCKS5 server bytes {}: {p}", hexs(server_bytes)), case)),
        Ok(Err((sig, what))) if sig == "machinery" => Err(Violation::new("C09:machinery", what, case)),
        Ok(Err((sig, what))) => Err(Violation::new(format!("C09:socks-reply:{sig}:{family}"), format!("{what}; server bytes {}", hexs(server_bytes)), case)),
        Ok(Ok(c)) => Ok(Cow::Borrowed(c)),
    }
}

fn sweep_socks(rep: &mut Report, tier: Tier) {
    let k = SOCKS_ALPHA.len() as u64;
    // (1) everything the server says, from the first byte
    let max_a = tier.pick(4u32, 6u32);
    // (2) after a correct method selection: the reply
    let max_b = tier.pick(4u32, 7u32);
    let na = count_seqs(k, max_a);
    let nb = count_seqs(k, max_b);
    let r = sweep_dyn(na + nb, 1, Duration::from_secs(1500), rt::workers(), |i| {
        if i < na {
            let s: Vec<u8> = nth_seq(i, k).into_iter().map(|x| SOCKS_ALPHA[x]).collect();
            run_socks(&s, false, "dialogue")
        } else {
            let mut s = vec![5u8, 0];
            s.extend(nth_seq(i - na, k).into_iter().map(|x| SOCKS_ALPHA[x]));
            // the address field the reply announces, long enough for every type, then nothing
            s.extend_from_slice(&[3, b'a', b'b', b'c', 0, 80, 0, 0, 0, 0, 0, 0, 0, 0, 0, 0, 0, 0]);
            run_socks(&s, i % 2 == 0, "reply")
        }
    });
    rep.add("evaluations", r.evaluations);
    rep.add("distinct_nontrivial", r.classes.len() as u64);
    let completed_main = r.completed;
    rep.violations(r.violations);
    let mut extra = 0u64;
    // every truncation of the valid replies, and a domain-name reply with every length byte
    let mut replies: Vec<Vec<u8>> = vec![vec![5, 0, 5, 0, 0, 1, 127, 0, 0, 1, 0, 80], [vec![5, 0, 5, 0, 0, 4], vec![0; 16], vec![0, 80]].concat()];
    for l in [0u8, 1, 4, 5, 0x7f, 0xff] {
        let mut v = vec![5, 0, 5, 0, 0, 3, l];
        v.extend(std::iter::repeat(b'd').take(5));
        v.extend_from_slice(&[0xff, 0xfe]);
        replies.push(v);
    }
    let mut cases: Vec<Vec<u8>> = vec![];
    for r in &replies {
        for end in 0..=r.len() {
            cases.push(r[..end].to_vec());
        }
    }
    let r = sweep_dyn(cases.len() as u64, 1, Duration::from_secs(600), rt::workers(), |i| run_socks(&cases[i as usize], i % 2 == 0, "truncated-reply"));
    extra += r.evaluations;
    rep.add("evaluations", r.evaluations);
    rep.violations(r.violations);
    rep.sub.push(json!({"sub":"socks5-replies","cases":na + nb + extra,"completed":completed_main && r.completed,"domain":format!("server bytes: all strings of <= {max_a} bytes over {SOCKS_ALPHA:02x?} from the first byte; after '05 00' all strings of <= {max_b} bytes followed by an address-shaped tail; every truncation of valid IPv4 / IPv6 / domain replies with name length {{0,1,4,5,7f,ff}}; each then EOF")}));
}


// ------------------------------------------------------------------------------------------------
// (i) datagrams relayed by a SOCKS5 UDP association
// ------------------------------------------------------------------------------------------------

/// One SOCKS5 control connection, played correctly: method selection, optional user/password
/// sub-negotiation, then the reply to the request with `bnd` as bound address.
pub async fn socks_control(mut s: tokio::net::TcpStream, bnd: SocketAddr) -> Option<tokio::net::TcpStream> {
    let _ = s.set_linger(Some(Duration::ZERO));
    let mut buf = vec![];
    let mut stage = 0;
    let t0 = std::time::Instant::now();
    while t0.elapsed() < Duration::from_secs(3) {
        let mut tmp = [0u8; 1024];
        let r = {
            let mut f = Box::pin(s.read(&mut tmp));
            door::poll_once(&mut f).await
        };
        match r {
            Some(Ok(0)) | Some(Err(_)) => return None,
            Some(Ok(n)) => buf.extend_from_slice(&tmp[..n]),
            None => tokio::task::yield_now().await,
        }
        loop {
            match stage {
                0 if buf.len() >= 2 && buf.len() >= 2 + buf[1] as usize => {
                    let methods = buf[2..2 + buf[1] as usize].to_vec();
                    buf.drain(..2 + methods.len());
                    let m = if methods.contains(&0) { 0 } else { 2 };
                    let _ = s.write_all(&[5, m]).await;
                    stage = if m == 0 { 2 } else { 1 };
                }
                1 if buf.len() >= 2 && buf.len() >= 3 + buf[1] as usize && buf.len() >= 3 + buf[1] as usize + buf[2 + buf[1] as usize] as usize => {
                    let n = 3 + buf[1] as usize + buf[2 + buf[1] as usize] as usize;
                    buf.drain(..n);
                    let _ = s.write_all(&[1, 0]).await;
                    stage = 2;
                }
                2 if buf.len() >= 10 => {
                    let mut rep = vec![5u8, 0, 0, 1];
                    if let SocketAddr::V4(a) = bnd {
                        rep.extend_from_slice(&a.ip().octets());
                        rep.extend_from_slice(&a.port().to_be_bytes());
                    }
                    let _ = s.write_all(&rep).await;
                    return Some(s);
                }
                _ => break,
            }
        }
    }
    None
}

async fn socks_udp_case(datagram: &[u8]) -> Result<&'static str, (String, String)> {
    let mach = |e: String| ("machinery".to_string(), e);
    let socks = tokio::net::TcpListener::bind("127.0.0.1:0").await.map_err(|e| mach(e.to_string()))?;
    let relay = tokio::net::UdpSocket::bind("127.0.0.1:0").await.map_err(|e| mach(e.to_string()))?;
    let relay_addr = relay.local_addr().unwrap();
    let cfg = Cfg { socks5: Some((socks.local_addr().unwrap(), false)), clients: vec![("u".into(), "p".into())], ..Cfg::default() };
    let world = make_world(&cfg).map_err(mach)?;
    let peer: SocketAddr = "198.51.100.7:40000".parse().unwrap();
    let (io, d) = door::open(&world.ctx, VProtocol::Http1, "m.t", None, peer, 1 << 16);
    let mut cl = door::H1Client::new(io);
    cl.send(b"CONNECT _udp2 HTTP/1.1\r\nHost: _udp2\r\nProxy-Authorization: Basic dTpw\r\n\r\n").await;
    // control connections are served as they come (authentication probe, then the association)
    let mut controls: Vec<tokio::net::TcpStream> = vec![];
    let mut status = None;
    let mut from_endpoint: Option<(Vec<u8>, SocketAddr)> = None;
    let dst: SocketAddr = "93.184.216.34:4000".parse().unwrap();
    let src: SocketAddr = "10.1.2.3:5000".parse().unwrap();
    let mut sent_record = false;
    let t0 = std::time::Instant::now();
    while t0.elapsed() < Duration::from_secs(5) && from_endpoint.is_none() {
        {
            let mut acc = Box::pin(socks.accept());
            if let Some(Ok((s, _))) = door::poll_once(&mut acc).await {
                drop(acc);
                if let Some(s) = socks_control(s, relay_addr).await {
                    controls.push(s);
                }
            }
        }
        if status.is_none() {
            cl.pump(3).await;
            if let Some(r) = cl.take_response() {
                status = Some(r.status);
                if r.status != 200 {
                    return Err(mach(format!("the datagram tunnel was refused: {}", r.status)));
                }
            }
        }
        if status == Some(200) && !sent_record {
            cl.send(&super::c06::build_record(src, dst, b"app", b"question")).await;
            sent_record = true;
        }
        let mut tmp = [0u8; 2048];
        if let Ok((n, from)) = relay.try_recv_from(&mut tmp) {
            from_endpoint = Some((tmp[..n].to_vec(), from));
        }
        tokio::task::yield_now().await;
    }
    if std::env::var_os("VERIF_DEBUG").is_some() {
        eprintln!("socks-udp: status {status:?} sent_record {sent_record} controls {} inbuf {:?}", controls.len(), String::from_utf8_lossy(&cl.inbuf));
    }
    let Some((_, endpoint_addr)) = from_endpoint else {
        return Err(mach("no datagram reached the SOCKS5 relay".into()));
    };
    // the relay answers with the bytes under test, then with a well-formed datagram
    let before = cl.inbuf.len();
    let _ = relay.send_to(datagram, endpoint_addr).await;
    door::spin(60).await;
    cl.pump(10).await;
    let after_bad = cl.inbuf.len();
    let mut good = vec![0u8, 0, 0, 1, 93, 184, 216, 34, 0x0f, 0xa0];
    good.extend_from_slice(b"answer");
    let _ = relay.send_to(&good, endpoint_addr).await;
    let t0 = std::time::Instant::now();
    let mut last = cl.inbuf.len();
    let mut stable = 0;
    while stable < 40 && t0.elapsed() < Duration::from_secs(3) {
        cl.pump(4).await;
        if cl.inbuf.len() == last {
            stable += 1;
        } else {
            stable = 0;
            last = cl.inbuf.len();
        }
    }
    // attribute what the client received by content, not by arrival time: the record carrying
    // "answer" belongs to the well-formed datagram, everything else to the bytes under test
    let _ = (before, after_bad);
    let received = cl.inbuf.clone();
    let mut delivered_good = 0usize;
    let mut delivered_bad = 0usize;
    let mut pos = 0usize;
    while received.len() - pos >= 4 {
        let len = u32::from_be_bytes(received[pos..pos + 4].try_into().unwrap()) as usize;
        let end = (pos + 4 + len).min(received.len());
        let rec = &received[pos..end];
        if rec.ends_with(b"answer") && rec.len() == 4 + 36 + 6 {
            delivered_good += rec.len();
        } else {
            delivered_bad += rec.len();
        }
        pos = end;
    }
    delivered_bad += received.len() - pos;
    let session_over = cl.eof;
    // what was delivered for the bytes under test must be one well-formed record no larger than them
    if delivered_bad > datagram.len() + 40 {
        return Err(("amplified".into(), format!("{delivered_bad} bytes delivered to the client for a {}-byte relayed datagram", datagram.len())));
    }
    drop(controls);
    drop(relay);
    drop(cl);
    let mut task = d.task;
    let mut ended = None;
    {
        let mut f = Box::pin(&mut task);
        let t0 = std::time::Instant::now();
        while t0.elapsed() < Duration::from_secs(5) {
            if let Some(r) = door::poll_once(&mut f).await {
                ended = Some(r);
                break;
            }
            tokio::task::yield_now().await;
        }
    }
    match ended {
        None => {
            task.abort();
            return Err(("session-outlives-connection".into(), "the session is still running 5 s after the client and the SOCKS5 server went away".into()));
        }
        Some(Err(e)) if e.is_panic() => {
            let p = e.into_panic();
            let msg = p.downcast_ref::<&str>().map(|s| s.to_string()).or_else(|| p.downcast_ref::<String>().cloned()).unwrap_or_else(|| "panic".into());
            return Err(("panic".into(), format!("the session task panicked: {msg}")));
        }
        Some(_) => {}
    }
    Ok(match (delivered_bad > 0, delivered_good > 0, session_over) {
        (true, true, _) => "relayed,next-relayed",
        (false, true, _) => "dropped,next-relayed",
        (true, false, _) => "relayed,tunnel-ended",
        (false, false, true) => "dropped,tunnel-ended",
        (false, false, false) => "dropped,next-dropped",
    })
}

fn run_socks_udp(datagram: &[u8], family: &str) -> Result<Cow<'static, str>, Violation> {
    let case = json!({"kind":"socks-udp","bytes":hexs(datagram),"family":family});
    let _g = watch::enter(format!("C09:socks-udp:wedged:{family}"), case.to_string());
    let b = datagram.to_vec();
    let r = super::guarded(|| rt::run_real(async move { socks_udp_case(&b).await }));
    match r {
        Err(p) => Err(Violation::new(format!("C09:socks-udp:panic:{family}"), format!("panicked on the relayed datagram {}: {p}", hexs(datagram)), case)),
        Ok(Err((sig, what))) if sig == "machinery" => Err(Violation::new("C09:machinery", what, case)),
        Ok(Err((sig, what))) => Err(Violation::new(format!("C09:socks-udp:{sig}:{family}"), format!("{what}; datagram {}", hexs(datagram)), case)),
        Ok(Ok(c)) => Ok(Cow::Borrowed(c)),
    }
}

fn sweep_socks_udp(rep: &mut Report, tier: Tier) {
    let alpha = [0u8, 1, 3, 4, 0xff];
    let max_l = tier.pick(4u32, 5u32);
    let n_short = count_seqs(alpha.len() as u64, max_l);
    let fills = [0u8, 1, 4, 0xff];
    let atyps = [0u8, 1, 3, 4, 0xff];
    let n_shaped = (31 * fills.len() * atyps.len()) as u64;
    let r = sweep_dyn(n_short + n_shaped, 1, Duration::from_secs(1200), rt::workers(), |i| {
        if i < n_short {
            let d: Vec<u8> = nth_seq(i, alpha.len() as u64).into_iter().map(|k| alpha[k]).collect();
            run_socks_udp(&d, "short")
        } else {
            let j = (i - n_short) as usize;
            let len = j % 31;
            let fill = fills[(j / 31) % fills.len()];
            let atyp = atyps[j / 31 / fills.len()];
            let mut d = vec![fill; len];
            for (k, v) in [0u8, 0, 0, atyp].iter().enumerate() {
                if k < d.len() {
                    d[k] = *v;
                }
            }
            run_socks_udp(&d, "header-shaped")
        }
    });
    rep.add("evaluations", r.evaluations);
    rep.add("distinct_nontrivial", r.classes.len() as u64);
    rep.sub.push(json!({"sub":"socks5-udp-datagrams","cases":r.evaluations,"completed":r.completed,"classes":r.classes.iter().map(|(k, v)| format!("{k}={}", v.0)).collect::<Vec<_>>(),
        "domain":format!("datagrams sent by the SOCKS5 relay to the endpoint's association socket: all strings of <= {max_l} bytes over {alpha:02x?}; '00 00 00 <atyp>' + fill for atyp {atyps:02x?} x fill {fills:02x?} x length 0..=30; through a real _udp2 tunnel (HTTP/1.1), a harness-played SOCKS5 server (TCP control + UDP relay); followed by a well-formed datagram")}));
    rep.violations(r.violations);
}

// ------------------------------------------------------------------------------------------------

pub fn run(tier: Tier) -> i32 {
    watch::start("C09", tier.name(), Duration::from_secs(30), watch::OnExpiry::Violation);
    let mut rep = Report::new("C09", tier, "exploration");
    sweep_ip(&mut rep, tier);
    sweep_icmp(&mut rep, tier);
    sweep_streams(&mut rep, tier);
    if let Err(e) = sweep_client_hello(&mut rep, tier) {
        rep.violation(Violation::new("C09:machinery", e, json!({})));
    }
    sweep_tls(&mut rep, tier);
    sweep_tls_prebuffer(&mut rep);
    sweep_toml(&mut rep, tier);
    sweep_h1(&mut rep, tier);
    sweep_origin(&mut rep, tier);
    sweep_socks(&mut rep, tier);
    sweep_socks_udp(&mut rep, tier);
    super::cq::c09_into(&mut rep, tier);
    rep.cov("exhaustive", rep.sub.iter().all(|s| s.get("completed").and_then(|c| c.as_bool()).unwrap_or(true)));
    rep.cov("rule", "one exhaustive sweep per parser over strings built from the values it branches on (see sub-checks); every case under a panic boundary with overflow checks, a 30 s watchdog and a per-call allocation meter; distinct = outcome classes per sweep");
    rep.sample(json!({"kind":"ip-skip","v6":true,"packet":"6000000000000000" .to_string() + &"00".repeat(32) + "3aff"}));
    rep.sample(json!({"kind":"udp-stream","len":4294967295u32,"name_len":255,"present":38,"cut":5}));
    rep.sample(json!({"kind":"h1-request","bytes":hexs(b"CONNECT :\x80 HTTP/1.1\r\nHost: h\r\n\r\n"),"cut":null,"family":"tokens+tail"}));
    rep.sample(json!({"kind":"socks-reply","bytes":"050005000003ff","lockstep":true,"family":"reply"}));
    rep.assume("QUIC packets are parsed by quiche; the listener's own handling (version negotiation, retry, tokens, connection ids) is driven with raw datagrams on loopback; HTTP/2 frames are parsed by the h2 crate");
    rep.finish()
}

pub fn replay(case: &serde_json::Value) -> Result<(), Violation> {
    let bad = || Violation::new("C09:machinery", "bad replay file", json!({}));
    let bytes = |k: &str| -> Result<Vec<u8>, Violation> { hex::decode(case[k].as_str().ok_or_else(bad)?).map_err(|_| bad()) };
    match case["kind"].as_str() {
        Some("ip-skip") => check_skip(case["v6"].as_bool().unwrap_or(false), &bytes("packet")?).map(|_| ()),
        Some("icmp-message") => check_icmp(case["v6"].as_bool().unwrap_or(false), &bytes("message")?).map(|_| ()),
        Some("udp-stream") => {
            let li = UDP_LEN.iter().position(|l| Some(*l as u64) == case["len"].as_u64()).ok_or_else(bad)?;
            let ni = UDP_NAME.iter().position(|l| Some(*l as u64) == case["name_len"].as_u64()).ok_or_else(bad)?;
            check_udp_stream(li, ni, case["present"].as_u64().ok_or_else(bad)? as usize, case["cut"].as_u64().map(|c| c as usize)).map(|_| ())
        }
        Some("client-hello-raw") => check_random(&bytes("bytes")?, "short", case.clone()).map(|_| ()),
        Some("client-hello") => {
            let corpus = super::c12::corpus().map_err(|e| Violation::new("C09:machinery", e, json!({})))?;
            let s = corpus.iter().find(|s| Some(s.name.as_str()) == case["sample"].as_str()).ok_or_else(bad)?;
            let mut b = s.bytes.clone();
            let pos = case["pos"].as_u64().ok_or_else(bad)? as usize;
            b[pos] = case["value"].as_u64().ok_or_else(bad)? as u8;
            let end = case["end"].as_u64().map(|e| e as usize).unwrap_or(b.len());
            check_random(&b[..end.min(b.len())], &s.name, case.clone()).map(|_| ())
        }
        Some("tls-first-bytes") => run_tls(case["shape"].as_u64().ok_or_else(bad)? as usize, case["size"].as_u64().ok_or_else(bad)? as usize).map(|_| ()),
        Some("tls-prebuffer") => run_tls_prebuffer(case["shape"].as_u64().ok_or_else(bad)? as usize, case["first"].as_u64().ok_or_else(bad)? as usize).map(|_| ()),
        Some("toml") => {
            let dir = std::env::temp_dir().join(format!("ttv-c09-replay-{}", std::process::id()));
            let _ = std::fs::create_dir_all(&dir);
            let kind = match case["file"].as_str() { Some("credentials") => "credentials", Some("rules") => "rules", Some("hosts") => "hosts", _ => "settings" };
            let r = toml_parse_case(kind, case["text"].as_str().ok_or_else(bad)?, &dir, 0).map(|_| ());
            let _ = std::fs::remove_dir_all(&dir);
            r
        }
        Some("h1-request") => run_h1(&bytes("bytes")?, case["cut"].as_u64().map(|c| c as usize), case["family"].as_str().unwrap_or("tokens")).map(|_| ()),
        Some("origin-response") => run_origin(&bytes("bytes")?, case["h2"].as_bool().unwrap_or(false), case["family"].as_str().unwrap_or("tokens")).map(|_| ()),
        Some("socks-udp") => run_socks_udp(&bytes("bytes")?, case["family"].as_str().unwrap_or("short")).map(|_| ()),
        Some("socks-reply") => run_socks(&bytes("bytes")?, case["lockstep"].as_bool().unwrap_or(false), case["family"].as_str().unwrap_or("dialogue")).map(|_| ()),
        _ => Err(bad()),
    }
}
