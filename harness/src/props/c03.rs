//! C03 — private-network egress policy is exact for every destination spelling.
//!
//! (a) complete sweep of the production classifier against an oracle written from the IANA
//!     special-purpose registries; (b) the production `TcpForwarder::connect` for class
//!     representatives x spellings x policy flags x resolver answers with `connect(2)` and
//!     `getaddrinfo` interposed, so that *any* egress attempt is observed.

use super::common::{make_world, Cfg};
use crate::engine::explore::sweep_dyn;
use crate::engine::report::{Report, Tier, Violation};
use crate::engine::rt;
use crate::engine::sys::{self, ConnectAnswer, HostAnswer, SysEvent};
use serde_json::json;
use std::borrow::Cow;
use std::net::{IpAddr, Ipv4Addr, Ipv6Addr, SocketAddr};
use std::time::Duration;
use trusttunnel::verif_hooks::{self as vh, VConnectionError, VDestination};

#[derive(Clone, Copy, PartialEq, Eq, Debug)]
pub enum Verdict {
    MustRefuse,
    MustAllow,
    DontCare,
}

/// IANA IPv4 Special-Purpose Address Registry
pub fn classify_v4(ip: Ipv4Addr) -> (Verdict, &'static str) {
    use Verdict::*;
    let o = ip.octets();
    let x = u32::from(ip);
    let in_net = |net: [u8; 4], len: u32| -> bool {
        let n = u32::from_be_bytes(net);
        let mask = if len == 0 { 0 } else { u32::MAX << (32 - len) };
        (x & mask) == (n & mask)
    };
    if x == 0xc000_0009 || x == 0xc000_000a {
        return (MustAllow, "v4:192.0.0.9-10-global-anycast");
    }
    if in_net([0, 0, 0, 0], 8) {
        return (MustRefuse, "v4:0.0.0.0/8-this-network");
    }
    if in_net([10, 0, 0, 0], 8) {
        return (MustRefuse, "v4:10.0.0.0/8-private");
    }
    if in_net([100, 64, 0, 0], 10) {
        return (MustRefuse, "v4:100.64.0.0/10-shared");
    }
    if in_net([127, 0, 0, 0], 8) {
        return (MustRefuse, "v4:127.0.0.0/8-loopback");
    }
    if in_net([169, 254, 0, 0], 16) {
        return (MustRefuse, "v4:169.254.0.0/16-link-local");
    }
    if in_net([172, 16, 0, 0], 12) {
        return (MustRefuse, "v4:172.16.0.0/12-private");
    }
    if in_net([192, 0, 0, 0], 24) {
        return (MustRefuse, "v4:192.0.0.0/24-ietf-reserved");
    }
    if in_net([192, 0, 2, 0], 24) {
        return (MustRefuse, "v4:192.0.2.0/24-documentation");
    }
    if in_net([192, 88, 99, 0], 24) {
        return (DontCare, "v4:192.88.99.0/24-deprecated-6to4-relay");
    }
    if in_net([192, 168, 0, 0], 16) {
        return (MustRefuse, "v4:192.168.0.0/16-private");
    }
    if in_net([198, 18, 0, 0], 15) {
        return (MustRefuse, "v4:198.18.0.0/15-benchmarking-reserved");
    }
    if in_net([198, 51, 100, 0], 24) {
        return (MustRefuse, "v4:198.51.100.0/24-documentation");
    }
    if in_net([203, 0, 113, 0], 24) {
        return (MustRefuse, "v4:203.0.113.0/24-documentation");
    }
    if o[0] >= 240 {
        return (MustRefuse, "v4:240.0.0.0/4-reserved-and-broadcast");
    }
    if o[0] >= 224 {
        return (DontCare, "v4:224.0.0.0/4-multicast");
    }
    (MustAllow, "v4:global-unicast")
}

/// IANA IPv6 Special-Purpose Address Registry + RFC 4291 address architecture
pub fn classify_v6(ip: Ipv6Addr) -> (Verdict, &'static str) {
    use Verdict::*;
    let s = ip.segments();
    let x = u128::from(ip);
    if x == 0 {
        return (MustRefuse, "v6:unspecified");
    }
    if x == 1 {
        return (MustRefuse, "v6:loopback");
    }
    if s[0] == 0 && s[1] == 0 && s[2] == 0 && s[3] == 0 && s[4] == 0 && s[5] == 0xffff {
        let v4 = Ipv4Addr::from((x & 0xffff_ffff) as u32);
        return match classify_v4(v4) {
            (MustRefuse, c) => (
                MustRefuse,
                match c {
                    "v4:127.0.0.0/8-loopback" => "v6:v4-mapped-loopback",
                    "v4:10.0.0.0/8-private"
                    | "v4:172.16.0.0/12-private"
                    | "v4:192.168.0.0/16-private" => "v6:v4-mapped-private",
                    "v4:169.254.0.0/16-link-local" => "v6:v4-mapped-link-local",
                    "v4:100.64.0.0/10-shared" => "v6:v4-mapped-shared",
                    "v4:0.0.0.0/8-this-network" => "v6:v4-mapped-this-network",
                    _ => "v6:v4-mapped-reserved-or-documentation",
                },
            ),
            _ => (DontCare, "v6:v4-mapped-other"),
        };
    }
    if (s[0] & 0xfe00) == 0xfc00 {
        return (MustRefuse, "v6:fc00::/7-unique-local");
    }
    if (s[0] & 0xffc0) == 0xfe80 {
        return (MustRefuse, "v6:fe80::/10-link-local");
    }
    if s[0] == 0x2001 && s[1] == 0x0db8 {
        return (MustRefuse, "v6:2001:db8::/32-documentation");
    }
    if (s[0] & 0xe000) == 0x2000 {
        // 2000::/3 global unicast, minus blocks the statement is silent about
        if s[0] == 0x2001 && s[1] < 0x0200 {
            return (DontCare, "v6:2001::/23-ietf-protocol-assignments");
        }
        if s[0] == 0x2002 {
            return (DontCare, "v6:2002::/16-6to4");
        }
        if (s[0] & 0xfff0) == 0x3ff0 {
            return (DontCare, "v6:3fff::/20-documentation-rfc9637");
        }
        return (MustAllow, "v6:2000::/3-global-unicast");
    }
    (DontCare, "v6:other")
}

pub fn classify(ip: IpAddr) -> (Verdict, &'static str) {
    match ip {
        IpAddr::V4(a) => classify_v4(a),
        IpAddr::V6(a) => classify_v6(a),
    }
}

fn check_classifier(ip: IpAddr) -> Result<Cow<'static, str>, Violation> {
    let got = vh::is_global_ip(&ip);
    let (v, class) = classify(ip);
    match (v, got) {
        (Verdict::MustRefuse, true) => Err(Violation::new(
            format!("C03:classify:allowed-must-refuse:{class}"),
            format!("{ip} ({class}) passes the private-network check"),
            json!({"kind": "classify", "ip": ip.to_string()}),
        )),
        (Verdict::MustAllow, false) => Err(Violation::new(
            format!("C03:classify:refused-must-allow:{class}"),
            format!("{ip} ({class}) is refused by the private-network check"),
            json!({"kind": "classify", "ip": ip.to_string()}),
        )),
        _ => Ok(Cow::Owned(format!("{class}={got}"))),
    }
}

const IID: [u128; 6] = [
    0,
    1,
    0x0000_0000_ffff_ffff_ffff_ffff_ffff_ffff,
    0x0000_0000_0000_0001_0200_5eff_fe00_5301,
    0x0000_0000_dead_beef_0123_4567_89ab_cdef,
    0x0000_0000_000e_0001_0005_0008_000e_0001,
];

fn sweep_classifier(rep: &mut Report, tier: Tier) {
    let workers = rt::workers();
    // IPv4
    let (n4, map4): (u64, Box<dyn Fn(u64) -> u32 + Sync>) = match tier {
        Tier::Quick => (
            65536 * 6,
            Box::new(|i| {
                let hi = (i / 6) as u32;
                let lo = [0u32, 1, 9, 10, 0xfffe, 0xffff][(i % 6) as usize];
                (hi << 16) | lo
            }),
        ),
        Tier::Thorough => (1u64 << 32, Box::new(|i| i as u32)),
    };
    let r = sweep_dyn(n4, 1 << 16, Duration::from_secs(600), workers, |i| {
        check_classifier(IpAddr::V4(Ipv4Addr::from(map4(i))))
    });
    let mut evals = r.evaluations;
    let mut complete = r.completed;
    let mut classes: std::collections::BTreeSet<String> = r.classes.keys().cloned().collect();
    rep.violations(r.violations);
    rep.sub.push(json!({"sub":"classify-v4","evaluations":r.evaluations,"completed":r.completed,
        "domain": tier.pick("all /16 prefixes x 6 host parts","all 2^32 IPv4 addresses")}));

    // IPv4-mapped
    let r = sweep_dyn(n4, 1 << 16, Duration::from_secs(600), workers, |i| {
        let v4 = map4(i) as u128;
        check_classifier(IpAddr::V6(Ipv6Addr::from((0xffffu128 << 32) | v4)))
    });
    evals += r.evaluations;
    complete &= r.completed;
    classes.extend(r.classes.keys().cloned());
    rep.violations(r.violations);
    rep.sub.push(json!({"sub":"classify-v4-mapped","evaluations":r.evaluations,"completed":r.completed}));

    // IPv6 by leading 32 bits x interface identifiers
    let (n6, map6): (u64, Box<dyn Fn(u64) -> u32 + Sync>) = match tier {
        Tier::Quick => (
            65536 * 8,
            Box::new(|i| {
                let hi = (i / 8) as u32;
                let lo = [0u32, 1, 0x0db8, 0x01ff, 0x0200, 0x4860, 0xfffe, 0xffff][(i % 8) as usize];
                (hi << 16) | lo
            }),
        ),
        Tier::Thorough => (1u64 << 32, Box::new(|i| i as u32)),
    };
    let r = sweep_dyn(n6 * 6, 1 << 16, Duration::from_secs(900), workers, |i| {
        let lead = map6(i / 6) as u128;
        let iid = IID[(i % 6) as usize];
        check_classifier(IpAddr::V6(Ipv6Addr::from((lead << 96) | iid)))
    });
    evals += r.evaluations;
    complete &= r.completed;
    classes.extend(r.classes.keys().cloned());
    rep.violations(r.violations);
    rep.sub.push(json!({"sub":"classify-v6","evaluations":r.evaluations,"completed":r.completed,
        "domain": tier.pick("all leading 16 bits x 8 second segments x 6 interface ids","all 2^32 leading 32 bits x 6 interface ids")}));

    rep.add("evaluations", evals);
    rep.cov("classifier_sweep_complete", complete);
    rep.cov("classifier_outcome_classes", classes.len() as u64);
    rep.add("distinct_nontrivial", classes.len() as u64);
    for c in classes.iter().take(4) {
        rep.sample(json!({"classifier_outcome": c}));
    }
}

// -------------------------------------------------------------------------------------------------
// (b) the real connector
// -------------------------------------------------------------------------------------------------

struct Canary {
    port: u16,
}

fn start_canary() -> Canary {
    // one port number served on 127.0.0.1 and on ::1
    for _ in 0..50 {
        let l4 = std::net::TcpListener::bind("127.0.0.1:0").expect("bind canary");
        let port = l4.local_addr().unwrap().port();
        let Ok(l6) = std::net::TcpListener::bind(("::1", port)) else {
            continue;
        };
        for l in [l4, l6] {
            std::thread::spawn(move || {
                for s in l.incoming() {
                    drop(s);
                }
            });
        }
        return Canary { port };
    }
    eprintln!("MACHINERY: cannot allocate a canary port");
    std::process::exit(2);
}

fn redirect_rule(_a: &SocketAddr, _t: i32) -> ConnectAnswer {
    ConnectAnswer::RedirectLoopback(sys::redirect_port())
}

#[derive(Clone, Debug, serde::Serialize, serde::Deserialize)]
struct ConnCase {
    /// "literal" | "host"
    spelling: String,
    /// for literal: the address; for host: the host name
    target: String,
    /// resolver answer for a scripted host name (None = passed to libc, numeric aliases only)
    answers: Option<Vec<String>>,
    allow_private: bool,
    ipv6_available: bool,
}

#[derive(Debug, PartialEq, Eq)]
enum Expect {
    /// exactly one connect to this ip
    ConnectTo(IpAddr),
    RefuseLoopback,
    RefuseNonroutable,
    RefuseEither,
    /// generic failure without any connect
    FailNoConnect,
    /// the statement does not say
    Unconstrained,
}

fn expected_for_ip(ip: IpAddr, allow: bool) -> Expect {
    if allow {
        return Expect::ConnectTo(ip);
    }
    let (v, class) = classify(ip);
    match v {
        Verdict::MustAllow => Expect::ConnectTo(ip),
        Verdict::DontCare => Expect::Unconstrained,
        Verdict::MustRefuse => match class {
            "v4:127.0.0.0/8-loopback" | "v6:loopback" => Expect::RefuseLoopback,
            "v6:v4-mapped-loopback" => Expect::RefuseEither,
            _ => Expect::RefuseNonroutable,
        },
    }
}

fn expected(case: &ConnCase, resolved: &[IpAddr]) -> Expect {
    if case.spelling == "literal" {
        return expected_for_ip(case.target.parse().unwrap(), case.allow_private);
    }
    // first suitable address in resolver order, IPv6 skipped iff unavailable
    let usable: Vec<IpAddr> = resolved
        .iter()
        .cloned()
        .filter(|ip| ip.is_ipv4() || case.ipv6_available)
        .collect();
    if usable.is_empty() {
        return Expect::FailNoConnect;
    }
    let mut all_loop = true;
    let mut any_loop = false;
    for ip in &usable {
        match expected_for_ip(*ip, case.allow_private) {
            Expect::ConnectTo(a) => return Expect::ConnectTo(a),
            Expect::Unconstrained => return Expect::Unconstrained,
            Expect::RefuseLoopback => any_loop = true,
            _ => all_loop = false,
        }
    }
    if usable.len() > 1 {
        // the statement does not say which of the two warnings a mixed or repeated list gets
        Expect::RefuseEither
    } else if all_loop {
        Expect::RefuseLoopback
    } else if any_loop {
        Expect::RefuseEither
    } else {
        Expect::RefuseNonroutable
    }
}

const PORT: u16 = 4443;

async fn run_conn_case(case: &ConnCase) -> Result<String, Violation> {
    let cfg = Cfg {
        allow_private: case.allow_private,
        ipv6_available: case.ipv6_available,
        ..Cfg::default()
    };
    let w = make_world(&cfg).map_err(|e| {
        Violation::new("C03:machinery", format!("cannot build core: {e}"), json!({}))
    })?;
    let mut resolved: Vec<IpAddr> = vec![];
    let dest = if case.spelling == "literal" {
        VDestination::Address(SocketAddr::new(case.target.parse().unwrap(), PORT))
    } else {
        if let Some(a) = &case.answers {
            resolved = a.iter().map(|s| s.parse().unwrap()).collect();
            sys::script_host(&case.target, HostAnswer::Addrs(resolved.clone()));
        } else {
            // numeric alias answered by libc: every alias used here denotes 127.0.0.1
            resolved = vec![IpAddr::V4(Ipv4Addr::LOCALHOST)];
        }
        VDestination::HostName(case.target.clone(), PORT)
    };
    sys::take_connect_log();
    sys::script_connect(Some(redirect_rule));
    let res = vh::tcp_connect(&w.ctx, dest).await;
    let log: Vec<SocketAddr> = sys::take_connect_log()
        .into_iter()
        .filter_map(|e| match e {
            SysEvent::Connect { addr, sock_type } if sock_type == libc::SOCK_STREAM => Some(addr),
            _ => None,
        })
        .collect();
    if case.answers.is_some() {
        sys::unscript_host(&case.target);
    }
    let exp = expected(case, &resolved);
    let outcome = match &res {
        Ok(_) => "connected".to_string(),
        Err(e) => format!("{e:?}"),
    };
    drop(res);
    let fail = |what: String, sig: &str| -> Violation {
        let class = match &exp {
            Expect::ConnectTo(ip) => classify(*ip).1,
            _ => {
                if case.spelling == "literal" {
                    classify(case.target.parse().unwrap()).1
                } else {
                    resolved.first().map(|ip| classify(*ip).1).unwrap_or("empty")
                }
            }
        };
        Violation::new(
            format!(
                "C03:connect:{sig}:{}:{class}{}",
                case.spelling,
                if case.answers.as_ref().map(|a| a.len() > 1).unwrap_or(false) { ":multi" } else { "" }
            ),
            format!(
                "{what}; case={case:?} expected={exp:?} outcome={outcome} connect_log={log:?}"
            ),
            json!({"kind":"connect","case":case}),
        )
    };
    match &exp {
        Expect::ConnectTo(ip) => {
            if log.len() != 1 || log[0] != SocketAddr::new(*ip, PORT) {
                return Err(fail(
                    format!("expected exactly one connect to {ip}:{PORT}"),
                    "wrong-egress",
                ));
            }
            if matches!(
                outcome.as_str(),
                "DnsLoopback" | "DnsNonroutable"
            ) {
                return Err(fail("policy refusal of an allowed destination".into(), "refused"));
            }
        }
        Expect::RefuseLoopback | Expect::RefuseNonroutable | Expect::RefuseEither => {
            if !log.is_empty() {
                return Err(fail(
                    "a connection attempt was made to a destination the policy must refuse".into(),
                    "egress-to-refused",
                ));
            }
            let ok = match (&exp, outcome.as_str()) {
                (Expect::RefuseLoopback, "DnsLoopback") => true,
                (Expect::RefuseNonroutable, "DnsNonroutable") => true,
                (Expect::RefuseEither, "DnsLoopback" | "DnsNonroutable") => true,
                _ => false,
            };
            if !ok {
                return Err(fail(
                    "refusal is not reported as loopback (311) / non-routable (310)".into(),
                    "wrong-refusal-code",
                ));
            }
        }
        Expect::FailNoConnect => {
            if !log.is_empty() || outcome == "connected" {
                return Err(fail("egress without a usable address".into(), "egress-no-address"));
            }
        }
        Expect::Unconstrained => {}
    }
    let _ = VConnectionError::Timeout;
    Ok(format!("{exp:?}|{outcome}|{}", log.len())
        .replace(|c: char| c.is_ascii_digit(), "")
        .chars()
        .take(60)
        .collect())
}

fn representatives() -> Vec<&'static str> {
    vec![
        // must refuse
        "0.0.0.0", "0.1.2.3", "10.0.0.1", "10.255.255.255", "100.64.0.1", "100.127.255.254",
        "127.0.0.1", "127.0.0.2", "127.255.255.254", "169.254.169.254", "172.16.0.1",
        "172.31.255.255", "192.0.0.1", "192.0.0.8", "192.0.0.170", "192.0.2.1", "192.168.0.1",
        "192.168.255.255", "198.18.0.1", "198.19.255.255", "198.51.100.7", "203.0.113.9",
        "240.0.0.1", "255.255.255.254", "255.255.255.255",
        // must allow
        "1.1.1.1", "8.8.8.8", "9.255.255.255", "11.0.0.0", "100.63.255.255", "100.128.0.0",
        "126.255.255.255", "128.0.0.1", "169.253.255.255", "169.255.0.0", "172.15.255.255",
        "172.32.0.0", "192.0.0.9", "192.0.0.10", "192.0.1.0", "192.0.3.0", "192.167.255.255",
        "192.169.0.0", "198.17.255.255", "198.20.0.0", "198.51.99.255", "198.51.101.0",
        "203.0.112.255", "203.0.114.0", "223.255.255.255", "93.184.216.34",
        // v6 must refuse
        "::", "::1", "fc00::1", "fd00::1", "fd0e::1", "fdff:ffff::e", "fe80::1", "febf::1",
        "2001:db8::1", "2001:db8:ffff::e", "::ffff:127.0.0.1", "::ffff:10.0.0.1",
        "::ffff:192.168.1.1", "::ffff:169.254.169.254", "::ffff:100.64.0.1", "::ffff:0.0.0.0",
        "::ffff:192.0.2.1", "::ffff:255.255.255.255",
        // v6 must allow
        "2001:4860:4860::8888", "2606:4700:4700::1111", "2a00:1450:4001::e", "2a01:4f8::1",
        "2400:cb00::1", "2620:fe::fe", "2003::1", "2008::8", "3ffe::1", "2a02:6b8::feed:ff",
        "2001:200::1", "2001:dc7::1", "2001:db7:ffff::1", "2001:db9::1",
        // unconstrained (must not break the harness)
        "224.0.0.1", "ff02::1", "64:ff9b::808:808", "2002:7f00:1::1", "2001::1", "::ffff:8.8.8.8",
        "fec0::1", "100::1",
    ]
}

fn conn_cases(tier: Tier) -> Vec<ConnCase> {
    let mut v = Vec::new();
    let flags: Vec<(bool, bool)> = vec![(false, true), (false, false), (true, true), (true, false)];
    for (i, ip) in representatives().into_iter().enumerate() {
        for (allow, v6) in &flags {
            v.push(ConnCase {
                spelling: "literal".into(),
                target: ip.into(),
                answers: None,
                allow_private: *allow,
                ipv6_available: *v6,
            });
            v.push(ConnCase {
                spelling: "host".into(),
                target: format!("h{i}-{}-{}.c03.test", *allow as u8, *v6 as u8),
                answers: Some(vec![ip.into()]),
                allow_private: *allow,
                ipv6_available: *v6,
            });
        }
    }
    // libc-resolved numeric aliases of 127.0.0.1
    for alias in ["127.1", "2130706433", "0177.0.0.1", "0x7f.0.0.1", "localhost"] {
        for (allow, v6) in &flags {
            v.push(ConnCase {
                spelling: "host".into(),
                target: alias.into(),
                answers: None,
                allow_private: *allow,
                ipv6_available: *v6,
            });
        }
    }
    // resolver lists: every ordered list of 0..=3 addresses over the alphabet
    let alpha: Vec<&str> = match tier {
        Tier::Quick => vec!["127.0.0.1", "10.0.0.1", "93.184.216.34", "2606:2800:220:1::1", "::1"],
        Tier::Thorough => vec![
            "127.0.0.1", "10.0.0.1", "93.184.216.34", "2606:2800:220:1::1", "::1", "fd00::1",
            "::ffff:127.0.0.1", "2001:4860:4860::8888",
        ],
    };
    let mut lists: Vec<Vec<&str>> = vec![vec![]];
    for len in 1..=3usize {
        let mut idx = vec![0usize; len];
        loop {
            lists.push(idx.iter().map(|i| alpha[*i]).collect());
            let mut k = len;
            loop {
                if k == 0 {
                    break;
                }
                k -= 1;
                idx[k] += 1;
                if idx[k] < alpha.len() {
                    break;
                }
                idx[k] = 0;
                if k == 0 {
                    k = usize::MAX;
                    break;
                }
            }
            if k == usize::MAX {
                break;
            }
        }
    }
    for (i, l) in lists.into_iter().enumerate() {
        for (allow, v6) in &flags {
            v.push(ConnCase {
                spelling: "host".into(),
                target: format!("l{i}-{}-{}.c03.test", *allow as u8, *v6 as u8),
                answers: Some(l.iter().map(|s| s.to_string()).collect()),
                allow_private: *allow,
                ipv6_available: *v6,
            });
        }
    }
    v
}

fn sweep_connect(rep: &mut Report, tier: Tier) {
    let cases = conn_cases(tier);
    let n = cases.len();
    let workers = rt::workers().min(8);
    let chunks: Vec<Vec<ConnCase>> = {
        let mut c: Vec<Vec<ConnCase>> = (0..workers).map(|_| vec![]).collect();
        for (i, k) in cases.into_iter().enumerate() {
            c[i % workers].push(k);
        }
        c
    };
    let results: Vec<(Vec<Violation>, Vec<String>)> = std::thread::scope(|sc| {
        let hs: Vec<_> = chunks
            .into_iter()
            .map(|chunk| {
                sc.spawn(move || {
                    let canary = start_canary();
                    sys::set_redirect_port(canary.port);
                    let mut viol = vec![];
                    let mut classes = vec![];
                    rt::run_real(async {
                        for case in &chunk {
                            match run_conn_case(case).await {
                                Ok(c) => classes.push(c),
                                Err(v) => viol.push(v),
                            }
                        }
                    });
                    (viol, classes)
                })
            })
            .collect();
        hs.into_iter().map(|h| h.join().expect("worker")).collect()
    });
    let mut classes = std::collections::BTreeSet::new();
    for (v, c) in results {
        rep.violations(v);
        classes.extend(c);
    }
    rep.add("evaluations", n as u64);
    rep.add("distinct_nontrivial", classes.len() as u64);
    rep.cov("connect_cases", n as u64);
    rep.cov("connect_outcome_classes", classes.len() as u64);
    for c in classes.iter().take(4) {
        rep.sample(json!({"connect_outcome": c}));
    }
    rep.sub.push(json!({"sub":"connect","cases":n,"outcome_classes":classes.len()}));
}

pub fn run(tier: Tier) -> i32 {
    let mut rep = Report::new("C03", tier, "exploration");
    rep.cov(
        "rule",
        "(a) every address of the stated domain through the production classifier vs an IANA-registry oracle; distinct = (oracle class, verdict) pairs observed. (b) class representatives x {literal, scripted host name, libc numeric alias} x allow x ipv6_available, and every ordered resolver answer list of length <=3 over the alphabet, through the production TcpForwarder::connect with connect(2)/getaddrinfo interposed; distinct = (expectation, outcome) pairs",
    );
    sweep_classifier(&mut rep, tier);
    sweep_connect(&mut rep, tier);
    let complete = rep.coverage.get("classifier_sweep_complete").and_then(|v| v.as_bool()).unwrap_or(false);
    rep.cov("exhaustive", complete && tier == Tier::Thorough);
    rep.assume("connect(2) and getaddrinfo are interposed in the harness binary; non-loopback connects are redirected to a loopback canary, never emitted");
    rep.assume("IANA special-purpose registries as of 2024 define the oracle; blocks the statement is silent about (multicast, NAT64, 6to4, Teredo, v4-mapped global) are unconstrained");
    rep.finish()
}

pub fn replay(case: &serde_json::Value) -> Result<(), Violation> {
    match case["kind"].as_str() {
        Some("classify") => {
            let ip: IpAddr = case["ip"].as_str().unwrap_or("").parse().map_err(|_| {
                Violation::new("C03:machinery", "bad replay file", json!({}))
            })?;
            check_classifier(ip).map(|_| ())
        }
        Some("connect") => {
            let c: ConnCase = serde_json::from_value(case["case"].clone())
                .map_err(|_| Violation::new("C03:machinery", "bad replay file", json!({})))?;
            let canary = start_canary();
            sys::set_redirect_port(canary.port);
            rt::run_real(async { run_conn_case(&c).await.map(|_| ()) })
        }
        _ => Err(Violation::new("C03:machinery", "bad replay file", json!({}))),
    }
}
