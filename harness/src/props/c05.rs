//! C05 — SNI/ALPN demultiplexing selects the right host, channel and protocol; reload is atomic.
//!
//! Decision table: host configurations x listener protocol subsets x SNI strings x every ALPN list
//! of length <= 3 over {h3, h2, http/1.1, unknown, non-UTF-8} through the production
//! `TlsDemux::select` of a real `Core` (under its read lock, as core.rs calls it). Reload: every
//! history of reloads (valid A, valid B, invalid: duplicate host / missing file / bad key) up to
//! length 4 (quick) / 6 (thorough) through `Core::reload_tls_hosts_settings`, probing selections
//! after every step against a "current configuration" reference.

use super::common::{host_info, make_world, Cfg};
use crate::engine::explore::sweep_dyn;
use crate::engine::report::{Report, Tier, Violation};
use crate::engine::rt;
use serde_json::json;
use std::borrow::Cow;
use std::time::Duration;
use trusttunnel::settings::TlsHostsSettings;
use trusttunnel::verif_hooks::{self as vh, VChannel, VProtocol};

#[derive(Clone, Debug)]
struct HostCfg {
    name: &'static str,
    main: Vec<(&'static str, Vec<&'static str>)>,
    ping: Vec<&'static str>,
    speed: Vec<&'static str>,
    rproxy: Vec<&'static str>,
    rp_section: bool,
}

fn host_cfgs() -> Vec<HostCfg> {
    vec![
        HostCfg { name: "main-only", main: vec![("m.t", vec![])], ping: vec![], speed: vec![], rproxy: vec![], rp_section: false },
        HostCfg { name: "all-classes", main: vec![("m.t", vec![])], ping: vec!["p.t"], speed: vec!["s.t"], rproxy: vec!["r.t"], rp_section: true },
        HostCfg { name: "rp-hosts-without-section", main: vec![("m.t", vec![])], ping: vec!["p.t"], speed: vec![], rproxy: vec!["r.t"], rp_section: false },
        HostCfg { name: "ping-is-subdomain-of-main", main: vec![("m.t", vec![])], ping: vec!["x.m.t"], speed: vec!["s.t"], rproxy: vec![], rp_section: false },
        HostCfg { name: "two-main-nested", main: vec![("m.t", vec![]), ("x.m.t", vec![])], ping: vec![], speed: vec![], rproxy: vec![], rp_section: false },
        HostCfg { name: "alt-sni", main: vec![("m.t", vec!["alt.t", "q.t"]), ("n.t", vec!["c.m.t"])], ping: vec!["p.t"], speed: vec![], rproxy: vec![], rp_section: false },
        HostCfg { name: "speed-is-subdomain-of-main", main: vec![("m.t", vec![])], ping: vec![], speed: vec!["x.m.t"], rproxy: vec!["r.t"], rp_section: true },
    ]
}

const SNIS: [&str; 20] = [
    "m.t", "n.t", "x.m.t", "y.x.m.t", "p.t", "s.t", "r.t", "q.t", "alt.t", "c.m.t", "c.x.m.t", "c.p.t", ".m.t", "m.t.", "M.T", "unknown.example", "t", "", "c.alt.t", "c.q.t",
];

const ALPN_TOKENS: [&[u8]; 5] = [b"h3", b"h2", b"http/1.1", b"zz", b"\xff\xfe"];

fn alpn_list(mut i: usize) -> Vec<Vec<u8>> {
    // 0 -> [], then all sequences of length 1, 2, 3
    if i == 0 {
        return vec![];
    }
    i -= 1;
    let mut len = 1;
    loop {
        let n = 5usize.pow(len);
        if i < n {
            break;
        }
        i -= n;
        len += 1;
    }
    let mut v = vec![];
    for _ in 0..len {
        v.push(ALPN_TOKENS[i % 5].to_vec());
        i /= 5;
    }
    v
}
const N_ALPN: usize = 1 + 5 + 25 + 125;

#[derive(Debug, Clone, PartialEq)]
enum Want {
    Refused,
    Selected { channel: VChannel, host: &'static str, creds: Option<String>, protocol: VProtocol },
    DontCare,
}

fn proto_rank(p: VProtocol) -> u8 {
    match p {
        VProtocol::Http1 => 1,
        VProtocol::Http2 => 2,
        VProtocol::Http3 => 3,
    }
}

fn oracle(cfg: &HostCfg, protos: u8, sni: &str, alpn: &[Vec<u8>]) -> Want {
    // designated entry
    let exact_main = cfg.main.iter().find(|(h, _)| *h == sni).map(|(h, _)| *h);
    let exact_ping = cfg.ping.iter().find(|h| **h == sni).copied();
    let exact_speed = cfg.speed.iter().find(|h| **h == sni).copied();
    let exact_rp = if cfg.rp_section { cfg.rproxy.iter().find(|h| **h == sni).copied() } else { None };
    let alt = cfg.main.iter().find(|(_, a)| a.contains(&sni)).map(|(h, _)| *h);
    let creds_form = sni.split_once('.').and_then(|(label, rest)| cfg.main.iter().find(|(h, _)| *h == rest).map(|(h, _)| (label.to_string(), *h)));
    let (channel, host, creds) = if let Some(h) = exact_main {
        (VChannel::Tunnel, h, None)
    } else if let Some(h) = exact_rp {
        (VChannel::ReverseProxy, h, None)
    } else if let Some(h) = exact_ping {
        (VChannel::Ping, h, None)
    } else if let Some(h) = exact_speed {
        (VChannel::Speedtest, h, None)
    } else {
        match (alt, creds_form) {
            (Some(_), Some(_)) => return Want::DontCare, // the statement does not order the two
            (Some(h), None) => (VChannel::Tunnel, h, None),
            (None, Some((label, h))) => {
                if label.is_empty() {
                    return Want::DontCare; // an empty credentials label is not defined
                }
                (VChannel::Tunnel, h, Some(label))
            }
            (None, None) => return Want::Refused,
        }
    };
    // protocol: most preferred of offered ∩ listener-enabled ∩ channel-permitted; HTTP/1.1 assumed only for no ALPN at all
    let enabled = |p: VProtocol| match p {
        VProtocol::Http1 => protos & 1 != 0,
        VProtocol::Http2 => protos & 2 != 0,
        VProtocol::Http3 => protos & 4 != 0,
    };
    let permitted = |p: VProtocol| channel != VChannel::ReverseProxy || p != VProtocol::Http2;
    let offered: Vec<VProtocol> = if alpn.is_empty() {
        vec![VProtocol::Http1]
    } else {
        alpn.iter()
            .filter_map(|a| match a.as_slice() {
                b"h3" => Some(VProtocol::Http3),
                b"h2" => Some(VProtocol::Http2),
                b"http/1.1" => Some(VProtocol::Http1),
                _ => None,
            })
            .collect()
    };
    let best = offered.into_iter().filter(|p| enabled(*p) && permitted(*p)).max_by_key(|p| proto_rank(*p));
    match best {
        None => Want::Refused,
        Some(protocol) => Want::Selected { channel, host, creds, protocol },
    }
}

fn world_for(cfg: &HostCfg, protos: u8) -> Result<super::common::World, String> {
    let c = Cfg {
        http1: protos & 1 != 0,
        http2: protos & 2 != 0,
        quic: protos & 4 != 0,
        main_hosts: cfg.main.iter().map(|(h, a)| (h.to_string(), a.iter().map(|s| s.to_string()).collect())).collect(),
        ping_hosts: cfg.ping.iter().map(|s| s.to_string()).collect(),
        speedtest_hosts: cfg.speed.iter().map(|s| s.to_string()).collect(),
        reverse_proxy_hosts: cfg.rproxy.iter().map(|s| s.to_string()).collect(),
        reverse_proxy: cfg.rp_section.then(|| ("127.0.0.1:8080".parse().unwrap(), "/app".to_string())),
        ..Cfg::default()
    };
    make_world(&c)
}

fn compare(cfgname: &str, protos: u8, sni: &str, alpn: &[Vec<u8>], want: &Want, got: &Result<vh::VConnectionMeta, String>) -> Result<Cow<'static, str>, Violation> {
    let case = json!({"kind":"select","config":cfgname,"protocols":protos,"sni":sni,"alpn":alpn.iter().map(hex::encode).collect::<Vec<_>>()});
    let alpn_s: Vec<String> = alpn.iter().map(|a| String::from_utf8_lossy(a).into_owned()).collect();
    let lp = format!("{}{}{}", if protos & 1 != 0 { "h1" } else { "" }, if protos & 2 != 0 { "+h2" } else { "" }, if protos & 4 != 0 { "+h3" } else { "" });
    let mk = |sig: String, what: String| Violation::new(sig, format!("{what}; config {cfgname}, listener {lp}, SNI {sni:?}, ALPN {alpn_s:?}"), case.clone());
    match (want, got) {
        (Want::DontCare, _) => Ok(Cow::Borrowed("unconstrained")),
        (Want::Refused, Err(_)) => Ok(Cow::Borrowed("refused")),
        (Want::Refused, Ok(m)) => {
            let why = if oracle_designates(cfgname, sni) { "no-common-protocol" } else { "sni-designates-no-entry" };
            Err(mk(
                format!("C05:served-must-refuse:{why}:{:?}:{:?}", m.channel, m.protocol),
                format!("connection must be refused ({why}) but is served on channel {:?} with {:?}", m.channel, m.protocol),
            ))
        }
        (Want::Selected { channel, host, creds, protocol }, Err(e)) => Err(mk(
            format!("C05:refused-must-serve:{channel:?}:{protocol:?}:{}", if creds.is_some() { "creds-sni" } else { "plain-sni" }),
            format!("connection for host {host} must be served with {protocol:?} but is refused: {e}"),
        )),
        (Want::Selected { channel, host, creds, protocol }, Ok(m)) => {
            if m.channel != *channel {
                return Err(mk(format!("C05:wrong-channel:{channel:?}->{:?}", m.channel), format!("routed to {:?} instead of {channel:?}", m.channel)));
            }
            let want_cert = rt::cert_path(super::common::fixture_for(host));
            if m.cert_chain_path != want_cert {
                return Err(mk(format!("C05:wrong-certificate:{channel:?}"), format!("served with certificate {} instead of {want_cert}", m.cert_chain_path)));
            }
            if m.sni_auth_creds != *creds {
                return Err(mk("C05:wrong-sni-credentials".to_string(), format!("SNI credentials {:?} instead of {creds:?}", m.sni_auth_creds)));
            }
            if m.protocol != *protocol {
                return Err(mk(format!("C05:wrong-protocol:{channel:?}:{protocol:?}->{:?}", m.protocol), format!("protocol {:?} selected instead of {protocol:?}", m.protocol)));
            }
            Ok(Cow::Owned(format!("{channel:?}:{protocol:?}:{}", creds.is_some())))
        }
    }
}

fn oracle_designates(cfgname: &str, sni: &str) -> bool {
    let cfg = host_cfgs().into_iter().find(|c| c.name == cfgname).unwrap();
    !matches!(oracle(&cfg, 7, sni, &[b"h3".to_vec(), b"h2".to_vec(), b"http/1.1".to_vec()]), Want::Refused)
}

fn hosts_settings(kind: &str) -> Result<TlsHostsSettings, String> {
    // A: m.t main + p.t ping; B: n.t main (alt q.t) + s.t speedtest
    let b = TlsHostsSettings::builder();
    let b = match kind {
        "A" => b.main_hosts(vec![host_info("m.t", "m.t", &[])]).ping_hosts(vec![host_info("p.t", "p.t", &[])]),
        "B" => b.main_hosts(vec![host_info("n.t", "n.t", &["q.t".to_string()])]).speedtest_hosts(vec![host_info("s.t", "s.t", &[])]),
        "dup" => b.main_hosts(vec![host_info("n.t", "n.t", &[])]).ping_hosts(vec![host_info("n.t", "p.t", &[])]),
        "missing-file" => b.main_hosts(vec![trusttunnel::settings::TlsHostInfo { hostname: "n.t".into(), cert_chain_path: "/nonexistent.pem".into(), private_key_path: rt::key_path("n.t"), allowed_sni: vec![] }]),
        "bad-key" => b.main_hosts(vec![trusttunnel::settings::TlsHostInfo { hostname: "n.t".into(), cert_chain_path: rt::cert_path("n.t"), private_key_path: rt::fixtures().join("certs").join("bad.key").to_string_lossy().into_owned(), allowed_sni: vec![] }]),
        _ => unreachable!(),
    };
    b.build().map_err(|e| format!("{e:?}"))
}

/// the TOML path skips the builder's validation so that `reload_tls_hosts_settings` itself must refuse
fn hosts_settings_unvalidated(kind: &str) -> Result<TlsHostsSettings, String> {
    let host = |name: &str, fx: &str| format!("hostname = \"{name}\"\ncert_chain_path = \"{}\"\nprivate_key_path = \"{}\"\n", rt::cert_path(fx), rt::key_path(fx));
    let text = match kind {
        "dup" => format!("[[main_hosts]]\n{}[[ping_hosts]]\n{}", host("n.t", "n.t"), host("n.t", "p.t")),
        "bad-key" => format!("[[main_hosts]]\nhostname = \"n.t\"\ncert_chain_path = \"{}\"\nprivate_key_path = \"{}\"\n", rt::cert_path("n.t"), rt::fixtures().join("certs").join("bad.key").display()),
        "no-main" => "main_hosts = []\n".to_string(),
        // new, valid main hosts but a later class that cannot be loaded: nothing may be switched
        "new-main-bad-ping-key" => format!(
            "[[main_hosts]]\n{}[[ping_hosts]]\nhostname = \"p.t\"\ncert_chain_path = \"{}\"\nprivate_key_path = \"{}\"\n",
            host("n.t", "n.t"),
            rt::cert_path("p.t"),
            rt::fixtures().join("certs").join("bad.key").display()
        ),
        "new-main-bad-speedtest-cert" => format!(
            "[[main_hosts]]\n{}[[speedtest_hosts]]\nhostname = \"s.t\"\ncert_chain_path = \"{}\"\nprivate_key_path = \"{}\"\n",
            host("n.t", "n.t"),
            rt::fixtures().join("certs").join("bad.crt").display(),
            rt::key_path("s.t")
        ),
        _ => return hosts_settings(kind),
    };
    toml::from_str(&text).map_err(|e| e.to_string())
}

const RELOADS: [&str; 8] = ["A", "B", "dup", "bad-key", "no-main", "new-main-bad-ping-key", "new-main-bad-speedtest-cert", "validated-then-ping-key-corrupted"];

fn reload_history(h: &[usize]) -> Result<Cow<'static, str>, Violation> {
    let case = json!({"kind":"reload","history": h.iter().map(|i| RELOADS[*i]).collect::<Vec<_>>()});
    let world = make_world(&Cfg { main_hosts: vec![("m.t".into(), vec![])], ping_hosts: vec!["p.t".into()], ..Cfg::default() }).map_err(|e| Violation::new("C05:machinery", e, json!({})))?;
    let mut current = "A";
    let probes: [(&str, &[&[u8]]); 6] = [("m.t", &[b"h2"]), ("n.t", &[b"h2"]), ("p.t", &[]), ("s.t", &[b"http/1.1"]), ("q.t", &[b"h2", b"http/1.1"]), ("cred.n.t", &[b"h2"])];
    let expect = |cfg: &str, sni: &str| -> Option<(VChannel, &'static str, Option<&'static str>)> {
        match (cfg, sni) {
            ("A", "m.t") => Some((VChannel::Tunnel, "m.t", None)),
            ("A", "p.t") => Some((VChannel::Ping, "p.t", None)),
            ("B", "n.t") => Some((VChannel::Tunnel, "n.t", None)),
            ("B", "q.t") => Some((VChannel::Tunnel, "n.t", None)),
            ("B", "s.t") => Some((VChannel::Speedtest, "s.t", None)),
            ("B", "cred.n.t") => Some((VChannel::Tunnel, "n.t", Some("cred"))),
            _ => None,
        }
    };
    for (step, op) in h.iter().enumerate() {
        let kind = RELOADS[*op];
        let valid = matches!(kind, "A" | "B");
        let settings = if kind == "validated-then-ping-key-corrupted" {
            // settings that passed validation when they were built; the ping host's key file is
            // damaged before they are applied, so the new demultiplexer cannot be constructed
            let dir = std::env::temp_dir().join(format!("ttv-c05-{}-{:?}", std::process::id(), std::thread::current().id()));
            let _ = std::fs::create_dir_all(&dir);
            let key = dir.join("ping.key");
            let _ = std::fs::copy(rt::key_path("p.t"), &key);
            let built = TlsHostsSettings::builder()
                .main_hosts(vec![host_info("n.t", "n.t", &[])])
                .ping_hosts(vec![trusttunnel::settings::TlsHostInfo { hostname: "p.t".into(), cert_chain_path: rt::cert_path("p.t"), private_key_path: key.to_string_lossy().into_owned(), allowed_sni: vec![] }])
                .build()
                .map_err(|e| format!("{e:?}"));
            let _ = std::fs::write(&key, "not a key any more");
            built
        } else {
            hosts_settings_unvalidated(kind)
        };
        match settings {
            Err(e) if valid => return Err(Violation::new("C05:machinery", e, case)),
            Err(_) => {} // refused already while reading the file: nothing to reload
            Ok(s) => {
                let r = super::guarded(|| world.core.reload_tls_hosts_settings(s));
                match r {
                    Err(p) => return Err(Violation::new(format!("C05:reload:panic:{kind}"), format!("reload panicked: {p}"), case)),
                    Ok(Ok(())) if !valid => return Err(Violation::new(format!("C05:reload:invalid-accepted:{kind}"), format!("step {step}: an invalid host configuration ({kind}) was accepted"), case)),
                    Ok(Err(e)) if valid => return Err(Violation::new(format!("C05:reload:valid-refused:{kind}"), format!("step {step}: a valid host configuration was refused: {e}"), case)),
                    Ok(Ok(())) => current = kind,
                    Ok(Err(_)) => {}
                }
            }
        }
        for (sni, alpn) in probes {
            let alpn: Vec<Vec<u8>> = alpn.iter().map(|a| a.to_vec()).collect();
            let got = vh::tls_select(&world.ctx, &alpn, sni);
            let want = expect(current, sni);
            let ok = match (&want, &got) {
                (None, Err(_)) => true,
                (Some((ch, host, creds)), Ok(m)) => m.channel == *ch && m.cert_chain_path == rt::cert_path(host) && m.sni_auth_creds.as_deref() == *creds,
                _ => false,
            };
            if !ok {
                let after = if valid { "valid-reload" } else { "failed-reload" };
                return Err(Violation::new(
                    format!("C05:reload:wrong-config-in-force:after-{after}:{kind}"),
                    format!("step {step} (reload {kind}): configuration {current} must be in force, SNI {sni} selects {:?}, expected {want:?}", got.as_ref().map(|m| (m.channel, m.cert_chain_path.clone()))),
                    case,
                ));
            }
        }
    }
    Ok(Cow::Owned(format!("in-force-{current}")))
}

pub fn run(tier: Tier) -> i32 {
    crate::engine::watch::start("C05", tier.name(), Duration::from_secs(120), crate::engine::watch::OnExpiry::Machinery);
    let mut rep = Report::new("C05", tier, "exploration");
    let cfgs = host_cfgs();
    let proto_sets: Vec<u8> = (1..8).collect();
    let combos: Vec<(usize, u8)> = cfgs.iter().enumerate().flat_map(|(i, _)| proto_sets.iter().map(move |p| (i, *p))).collect();
    let alpn_n = tier.pick(N_ALPN, N_ALPN);
    let per = SNIS.len() * alpn_n;
    let r = sweep_dyn(combos.len() as u64, 1, Duration::from_secs(1500), rt::workers(), |ci| {
        let (ci_cfg, protos) = combos[ci as usize];
        let cfg = &cfgs[ci_cfg];
        let world = world_for(cfg, protos).map_err(|e| Violation::new("C05:machinery", format!("{}: {e}", cfg.name), json!({})))?;
        let mut classes = std::collections::BTreeSet::new();
        for k in 0..per {
            let sni = SNIS[k / alpn_n];
            let alpn = alpn_list(k % alpn_n);
            let want = oracle(cfg, protos, sni, &alpn);
            let got = vh::tls_select(&world.ctx, &alpn, sni);
            classes.insert(compare(cfg.name, protos, sni, &alpn, &want, &got)?.into_owned());
            EVALS.fetch_add(1, std::sync::atomic::Ordering::Relaxed);
        }
        Ok(Cow::Owned(format!("{}:{}", cfg.name, classes.len())))
    });
    let evals = EVALS.load(std::sync::atomic::Ordering::Relaxed);
    rep.add("evaluations", evals);
    rep.violations(r.violations);
    rep.sub.push(json!({"sub":"select-decision-table","configs":cfgs.len(),"protocol_sets":7,"snis":SNIS.len(),"alpn_lists":alpn_n,"selects":evals,"completed":r.completed}));
    let mut classes = r.classes.len() as u64;
    let mut complete = r.completed;
    // start-up refusal for invalid assignments is C13's table; here: reload histories
    let depth = tier.pick(4u32, 7u32);
    let mut total = 0u64;
    for len in 1..=depth {
        total += 8u64.pow(len);
    }
    let r = sweep_dyn(total, 8, Duration::from_secs(1500), rt::workers(), |mut i| {
        let mut len = 1;
        loop {
            let n = 8u64.pow(len);
            if i < n {
                break;
            }
            i -= n;
            len += 1;
        }
        let mut h = vec![];
        for _ in 0..len {
            h.push((i % 8) as usize);
            i /= 8;
        }
        reload_history(&h)
    });
    rep.add("evaluations", r.evaluations);
    classes += r.classes.len() as u64;
    complete &= r.completed;
    rep.violations(r.violations);
    rep.sub.push(json!({"sub":"reload-histories","max_length":depth,"histories":total,"completed":r.completed}));
    rep.cov("distinct_nontrivial", classes);
    rep.cov("exhaustive", complete);
    rep.cov("rule", format!("{} host configurations x 7 listener protocol sets x {} SNI strings x {} ALPN lists through TlsDemux::select of a real Core; every reload history of length <= {depth} over {{A, B, duplicate host, bad key, no main host, new main hosts + unloadable ping key, new main hosts + unloadable speedtest cert, validated settings whose ping key is corrupted before they are applied}} with 6 probe selections after each step", cfgs.len(), SNIS.len(), alpn_n));
    rep.sample(json!({"config":"ping-is-subdomain-of-main","listener":"h2","sni":"x.m.t","alpn":["http/1.1"],"expected":"refused (no common protocol)"}));
    rep.assume("an SNI that is both a configured alternative SNI and of the <credentials>.<main host> form is unconstrained; an empty credentials label is unconstrained");
    rep.assume("QUIC certificate switching and the TCP-side refusal of an h3 result are exercised through the real TLS path in C12, not here; RwLock atomicity of reload vs concurrent selects is trusted (each is one lock-protected operation)");
    super::cq::c05_into(&mut rep);
    // scratch key files of the `validated-then-ping-key-corrupted` reloads
    if let Ok(rd) = std::fs::read_dir(std::env::temp_dir()) {
        let prefix = format!("ttv-c05-{}-", std::process::id());
        for e in rd.flatten() {
            if e.file_name().to_string_lossy().starts_with(&prefix) {
                let _ = std::fs::remove_dir_all(e.path());
            }
        }
    }
    rep.finish()
}

static EVALS: std::sync::atomic::AtomicU64 = std::sync::atomic::AtomicU64::new(0);

pub fn replay(case: &serde_json::Value) -> Result<(), Violation> {
    let bad = || Violation::new("C05:machinery", "bad replay file", json!({}));
    match case["kind"].as_str() {
        Some("select") => {
            let cfg = host_cfgs().into_iter().find(|c| Some(c.name) == case["config"].as_str()).ok_or_else(bad)?;
            let protos = case["protocols"].as_u64().unwrap_or(7) as u8;
            let sni = case["sni"].as_str().unwrap_or("").to_string();
            let alpn: Vec<Vec<u8>> = case["alpn"].as_array().ok_or_else(bad)?.iter().map(|a| hex::decode(a.as_str().unwrap_or("")).unwrap_or_default()).collect();
            let world = world_for(&cfg, protos).map_err(|e| Violation::new("C05:machinery", e, json!({})))?;
            let sni_static = SNIS.iter().find(|s| **s == sni).copied().unwrap_or("");
            let want = oracle(&cfg, protos, sni_static, &alpn);
            let got = vh::tls_select(&world.ctx, &alpn, sni_static);
            compare(cfg.name, protos, sni_static, &alpn, &want, &got).map(|_| ())
        }
        Some("reload") => {
            let h: Vec<usize> = case["history"].as_array().ok_or_else(bad)?.iter().map(|k| RELOADS.iter().position(|r| Some(*r) == k.as_str()).unwrap_or(0)).collect();
            reload_history(&h).map(|_| ())
        }
        _ => Err(bad()),
    }
}
