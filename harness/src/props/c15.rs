//! C15 — SOCKS5 upstream dialogue is well-formed and faithful.
//!
//! The real accept path with `forward_protocol = socks5` pointing at a scripted SOCKS5 server on
//! loopback that the harness plays: everything the endpoint writes to it is parsed by an
//! independent RFC 1928/1929 (+ documented extended authentication) parser; the server's behaviour
//! (method selection, auth status, reply code, address type, wrong version / reserved bytes),
//! truncation at every byte and every 1-/2-cut segmentation of its bytes are enumerated.

use super::common::{make_world_with_auth, Cfg};
use super::door::{self, H2Client, H2Outcome, ReqSpec};
use crate::engine::explore::sweep_dyn;
use crate::engine::report::{Report, Tier, Violation};
use crate::engine::rt;
use base64::Engine;
use serde_json::json;
use std::borrow::Cow;
use std::net::SocketAddr;
use std::sync::Arc;
use std::time::Duration;
use tokio::io::{AsyncReadExt, AsyncWriteExt};
use trusttunnel::authentication::registry_based::{Client, RegistryBasedAuthenticator};
use trusttunnel::verif_hooks::VProtocol;

#[derive(Clone, Debug, serde::Serialize, serde::Deserialize)]
pub struct Case {
    /// index into `creds()`
    pub cred: usize,
    pub extended: bool,
    /// "v4" | "v6" | "domain1" | "domain255" | "domain256" | "domain300"
    pub dest: String,
    pub user_agent: bool,
    pub server: Server,
    /// cut positions in the concatenation of everything the server sends
    pub cuts: Vec<usize>,
    /// close the connection after this many server bytes
    pub truncate: Option<usize>,
}

#[derive(Clone, Debug, serde::Serialize, serde::Deserialize, PartialEq)]
pub struct Server {
    pub sel_version: u8,
    pub method: u8,
    pub auth_version: u8,
    pub auth_status: u8,
    pub rep_version: u8,
    pub reply: u8,
    pub reserved: u8,
    /// 1 | 3 | 4 | other
    pub atyp: u8,
}

impl Server {
    fn normal(method: u8) -> Self {
        Self { sel_version: 5, method, auth_version: 1, auth_status: 0, rep_version: 5, reply: 0, reserved: 0, atyp: 1 }
    }
}

fn creds() -> Vec<(String, String, &'static str)> {
    vec![
        ("alice".into(), "secret".into(), "plain"),
        ("al:ice".replace(':', "-"), "pa:ss:word".into(), "colon-in-password"),
        ("üser-ñame".into(), "pässwörd".into(), "utf8"),
        ("u".repeat(255), "p".repeat(255), "len255"),
        ("u".repeat(256), "p".into(), "user256"),
        ("u".into(), "p".repeat(256), "pass256"),
        ("u".repeat(600), "p".repeat(600), "len600"),
        ("u".into(), "p".into(), "len1"),
        // lengths are counted in octets, not characters
        ("\u{444}".repeat(127), "\u{20ac}".repeat(85), "utf8-254-and-255-octets"),
        ("\u{444}".repeat(128), "p".into(), "utf8-user-128-chars-256-octets"),
        ("u".into(), "\u{20ac}".repeat(86), "utf8-pass-86-chars-258-octets"),
    ]
}

fn dest_of(kind: &str) -> (String, Vec<u8>, u16) {
    // (authority, expected ATYP+ADDR bytes, port)
    match kind {
        "v4" => ("93.184.216.34:8443".into(), vec![1, 93, 184, 216, 34], 8443),
        "v6" => ("[2606:2800:220:1::1]:443".into(), {
            let mut v = vec![4];
            v.extend_from_slice(&"2606:2800:220:1::1".parse::<std::net::Ipv6Addr>().unwrap().octets());
            v
        }, 443),
        k => {
            let n: usize = k.trim_start_matches("domain").parse().unwrap();
            let name = if n <= 6 { "d".repeat(n) } else { format!("{}.test", "d".repeat(n - 5)) };
            let mut v = vec![3, n as u8];
            v.extend_from_slice(name.as_bytes());
            (format!("{name}:65535"), v, 65535)
        }
    }
}

#[derive(Debug, Default, Clone, serde::Serialize)]
pub struct Obs {
    pub client_bytes: Vec<u8>,
    pub status: Option<u16>,
    pub warning: Option<String>,
    pub relayed_ok: bool,
    pub notes: Vec<String>,
}

/// independent parser of the client's side of the dialogue
#[derive(Debug, Default, PartialEq)]
struct Parsed {
    methods: Option<Vec<u8>>,
    auth_userpass: Option<(Vec<u8>, Vec<u8>)>,
    auth_ext: Option<Vec<(u8, Vec<u8>)>>,
    request: Option<(u8, Vec<u8>, u16)>,
    rest: Vec<u8>,
    error: Option<String>,
}

fn parse_client(b: &[u8], server_method: u8) -> Parsed {
    let mut p = Parsed::default();
    let mut i = 0;
    macro_rules! need {
        ($n:expr, $what:expr) => {
            if b.len() < i + $n {
                if i < b.len() || $n > 0 && i == b.len() && !b.is_empty() && $what != "" {
                    // incomplete message at the end
                    if b.len() > i {
                        p.error = Some(format!("truncated {}", $what));
                    }
                }
                p.rest = b[i.min(b.len())..].to_vec();
                return p;
            }
        };
    }
    need!(2, "greeting");
    if b[0] != 5 {
        p.error = Some(format!("greeting version {}", b[0]));
        return p;
    }
    let n = b[1] as usize;
    need!(2 + n, "greeting methods");
    p.methods = Some(b[2..2 + n].to_vec());
    i = 2 + n;
    if server_method == 2 {
        if b.len() == i {
            return p;
        }
        need!(2, "auth header");
        if b[i] != 1 {
            p.error = Some(format!("auth version {}", b[i]));
            return p;
        }
        let ul = b[i + 1] as usize;
        need!(2 + ul + 1, "auth user name");
        let u = b[i + 2..i + 2 + ul].to_vec();
        let pl = b[i + 2 + ul] as usize;
        need!(2 + ul + 1 + pl, "auth password");
        let pw = b[i + 3 + ul..i + 3 + ul + pl].to_vec();
        p.auth_userpass = Some((u, pw));
        i += 3 + ul + pl;
    } else if server_method == 0x80 {
        if b.len() == i {
            return p;
        }
        need!(1, "ext auth version");
        if b[i] != 1 {
            p.error = Some(format!("extended auth version {}", b[i]));
            return p;
        }
        i += 1;
        let mut tlvs = vec![];
        loop {
            need!(3, "ext auth TLV header");
            let t = b[i];
            let l = u16::from_be_bytes([b[i + 1], b[i + 2]]) as usize;
            need!(3 + l, "ext auth TLV value");
            let v = b[i + 3..i + 3 + l].to_vec();
            i += 3 + l;
            if t == 0 {
                if l != 0 {
                    p.error = Some("TERM with a value".into());
                    return p;
                }
                break;
            }
            tlvs.push((t, v));
        }
        p.auth_ext = Some(tlvs);
    }
    if b.len() == i {
        return p;
    }
    need!(4, "request header");
    if b[i] != 5 || b[i + 2] != 0 {
        p.error = Some(format!("request version {} reserved {}", b[i], b[i + 2]));
        return p;
    }
    let cmd = b[i + 1];
    let atyp = b[i + 3];
    let alen = match atyp {
        1 => 4,
        4 => 16,
        3 => {
            need!(5, "request domain length");
            1 + b[i + 4] as usize
        }
        x => {
            p.error = Some(format!("request address type {x}"));
            return p;
        }
    };
    need!(4 + alen + 2, "request address");
    let mut addr = vec![atyp];
    addr.extend_from_slice(&b[i + 4..i + 4 + alen]);
    let port = u16::from_be_bytes([b[i + 4 + alen], b[i + 5 + alen]]);
    p.request = Some((cmd, addr, port));
    i += 6 + alen;
    p.rest = b[i..].to_vec();
    p
}

const PAYLOAD: &[u8] = b"ping-through-socks";

async fn run_case(c: &Case) -> Result<Obs, String> {
    let (user, pass, _) = creds()[c.cred].clone();
    let socks = tokio::net::TcpListener::bind("127.0.0.1:0").await.map_err(|e| e.to_string())?;
    let socks_addr = socks.local_addr().unwrap();
    let cfg = Cfg { socks5: Some((socks_addr, c.extended)), clients: vec![(user.clone(), pass.clone())], ..Cfg::default() };
    let clients = vec![Client { username: user.clone(), password: pass.clone() }];
    let world = make_world_with_auth(&cfg, Some(Arc::new(RegistryBasedAuthenticator::new(&clients))))?;
    let peer: SocketAddr = "198.51.100.7:40000".parse().unwrap();
    let (io, d) = door::open(&world.ctx, VProtocol::Http2, "m.t", None, peer, 1 << 16);
    let (authority, _, _) = dest_of(&c.dest);
    let token = base64::engine::general_purpose::STANDARD.encode(format!("{user}:{pass}"));
    let mut spec = ReqSpec::connect(&authority).with_auth(Some(format!("Basic {token}").into_bytes()));
    if c.user_agent {
        spec.headers.push(("User-Agent".into(), "verif-agent/1.0".into()));
    }
    let mut cl = H2Client::connect(io).await?;
    let mut st = cl.request(spec.h2_request()?, false).await?;
    let mut obs = Obs::default();
    async fn answer(st: &mut door::H2Stream, obs: &mut Obs) {
        match st.response(Duration::from_secs(3)).await {
            H2Outcome::Response(r) => {
                obs.status = Some(r.status);
                obs.warning = r.header("x-warning").map(String::from);
            }
            H2Outcome::Reset(e) => obs.notes.push(format!("reset: {e}")),
            H2Outcome::Nothing => {}
        }
    }
    // play the SOCKS server
    let mut acc = Box::pin(socks.accept());
    let Some(Ok((mut s, _))) = door::until(&mut acc, Duration::from_secs(3)).await else {
        // the endpoint never connected to the upstream: it must still answer the client
        answer(&mut st, &mut obs).await;
        obs.notes.push("no-upstream-connection".into());
        return Ok(obs);
    };
    drop(acc);
    let _ = s.set_linger(Some(Duration::ZERO));
    // what the server is going to send, message by message
    let srv = &c.server;
    let sel = vec![srv.sel_version, srv.method];
    let authresp = vec![srv.auth_version, srv.auth_status];
    let mut reply = vec![srv.rep_version, srv.reply, srv.reserved, srv.atyp];
    match srv.atyp {
        1 => reply.extend_from_slice(&[127, 0, 0, 1]),
        4 => reply.extend_from_slice(&std::net::Ipv6Addr::LOCALHOST.octets()),
        3 => {
            reply.push(4);
            reply.extend_from_slice(b"b.nd");
        }
        _ => reply.extend_from_slice(&[1, 2, 3, 4]),
    }
    reply.extend_from_slice(&[0x1f, 0x90]);
    let needs_auth = srv.method == 2 || srv.method == 0x80;
    let mut sent_total = 0usize;
    let mut closed = false;
    // send `bytes` honouring cuts and truncation
    async fn send_piecewise(s: &mut tokio::net::TcpStream, bytes: &[u8], base: usize, cuts: &[usize], truncate: Option<usize>) -> (usize, bool) {
        let mut prev = 0usize;
        let mut bounds: Vec<usize> = cuts.iter().filter(|c| **c > base && **c < base + bytes.len()).map(|c| c - base).collect();
        bounds.push(bytes.len());
        for b in bounds {
            let mut end = b;
            let mut stop = false;
            if let Some(t) = truncate {
                if base + end >= t {
                    end = t.saturating_sub(base).min(bytes.len());
                    stop = true;
                }
            }
            if end > prev {
                let mut w = Box::pin(s.write_all(&bytes[prev..end]));
                let _ = door::until(&mut w, Duration::from_secs(2)).await;
                drop(w);
                door::spin(15).await;
            }
            prev = end.max(prev);
            if stop {
                return (prev, true);
            }
        }
        (bytes.len(), false)
    }
    // read client bytes until `done(bytes)` or silence
    async fn read_until(s: &mut tokio::net::TcpStream, buf: &mut Vec<u8>, done: &dyn Fn(&[u8]) -> bool) -> bool {
        let t0 = std::time::Instant::now();
        let mut idle = 0;
        loop {
            if done(buf) {
                return true;
            }
            let mut tmp = [0u8; 4096];
            let r = {
                let mut f = Box::pin(s.read(&mut tmp));
                door::poll_once(&mut f).await
            };
            match r {
                Some(Ok(0)) | Some(Err(_)) => return false,
                Some(Ok(n)) => {
                    buf.extend_from_slice(&tmp[..n]);
                    idle = 0;
                }
                None => {
                    idle += 1;
                    tokio::task::yield_now().await;
                    if idle > 400 && t0.elapsed() > Duration::from_millis(300) {
                        return false;
                    }
                }
            }
        }
    }
    let mut cb: Vec<u8> = vec![];
    let greeting_done = |b: &[u8]| b.len() >= 2 && b.len() >= 2 + b[1] as usize;
    if read_until(&mut s, &mut cb, &greeting_done).await {
        let (n, stop) = send_piecewise(&mut s, &sel, 0, &c.cuts, c.truncate).await;
        sent_total += n;
        closed = stop;
        let glen = 2 + cb[1] as usize;
        let mut stage_ok = !closed;
        if stage_ok && needs_auth {
            let m = srv.method;
            let auth_done = move |b: &[u8]| {
                let p = parse_client(b, m);
                p.auth_userpass.is_some() || p.auth_ext.is_some() || p.error.is_some()
            };
            if read_until(&mut s, &mut cb, &auth_done).await && parse_client(&cb, m).error.is_none() {
                let (n, stop) = send_piecewise(&mut s, &authresp, sel.len(), &c.cuts, c.truncate).await;
                sent_total += n;
                closed = stop;
                stage_ok = !closed;
            } else {
                stage_ok = false;
            }
        }
        if stage_ok {
            let m = srv.method;
            let base = sel.len() + if needs_auth { authresp.len() } else { 0 };
            let req_done = move |b: &[u8]| {
                let p = parse_client(b, m);
                p.request.is_some() || p.error.is_some()
            };
            if read_until(&mut s, &mut cb, &req_done).await && parse_client(&cb, m).request.is_some() {
                let (n, stop) = send_piecewise(&mut s, &reply, base, &c.cuts, c.truncate).await;
                sent_total += n;
                closed = stop;
            }
        }
        let _ = (glen, sent_total);
    }
    if closed {
        drop(s);
        answer(&mut st, &mut obs).await;
        obs.client_bytes = cb;
        drop(d);
        return Ok(obs);
    }
    // the client's answer
    answer(&mut st, &mut obs).await;
    if obs.status == Some(200) {
        // relay both ways through the "upstream"
        let _ = st.tx.send_data(bytes::Bytes::from_static(PAYLOAD), false);
        let m = srv.method;
        let before = cb.len();
        let got_payload = move |b: &[u8]| b.len() >= before + PAYLOAD.len();
        let _ = m;
        if read_until(&mut s, &mut cb, &got_payload).await {
            let mut w = Box::pin(s.write_all(b"pong-from-upstream"));
            let _ = door::until(&mut w, Duration::from_secs(2)).await;
            drop(w);
            let t0 = std::time::Instant::now();
            let mut back: Vec<u8> = vec![];
            while back.len() < 18 && t0.elapsed() < Duration::from_secs(2) {
                let (b, ended, _) = st.body(20).await;
                back.extend_from_slice(&b);
                if ended {
                    break;
                }
            }
            obs.relayed_ok = back == b"pong-from-upstream";
        }
    } else {
        // anything more the client sends after a failure?
        let never = |_: &[u8]| false;
        let _ = read_until(&mut s, &mut cb, &never).await;
    }
    obs.client_bytes = cb;
    drop(d);
    Ok(obs)
}

fn judge(c: &Case, o: &Obs) -> Result<&'static str, Violation> {
    let (user, pass, cname) = creds()[c.cred].clone();
    let case = json!({"case": c});
    let srv = &c.server;
    let p = parse_client(&o.client_bytes, srv.method);
    let mk = |sig: String, what: String| {
        Violation::new(sig, format!("{what}; creds={cname} ext={} dest={} server={srv:?} cuts={:?} truncate={:?}; client wrote {} bytes: {}; status {:?} warning {:?}", c.extended, c.dest, c.cuts, c.truncate, o.client_bytes.len(), hex::encode(&o.client_bytes[..o.client_bytes.len().min(80)]), o.status, o.warning), case.clone())
    };
    if o.notes.iter().any(|n| n == "no-upstream-connection") {
        return if o.status.map(|s| s >= 400).unwrap_or(false) { Ok("failed-before-upstream") } else { Err(mk("C15:no-upstream-connection".into(), "the endpoint neither contacted the upstream nor failed the request".into())) };
    }
    // 1. well-formedness of everything written
    if let Some(e) = &p.error {
        return Err(mk(format!("C15:malformed-message:{}:{cname}", e.split(' ').take(2).collect::<Vec<_>>().join("-")), format!("the endpoint wrote a malformed SOCKS message ({e})")));
    }
    let Some(methods) = &p.methods else {
        return Err(mk("C15:no-greeting".into(), "no method selection message".into()));
    };
    let want_method: u8 = if c.extended { 0x80 } else { 2 };
    if methods.is_empty() || !methods.contains(&want_method) || methods.iter().any(|m| *m != want_method && *m != 0) {
        return Err(mk(format!("C15:wrong-offered-methods:ext={}", c.extended), format!("offered methods {methods:?} with credentials available (expected {want_method:#x} and optionally 0)")));
    }
    let offered = methods.contains(&srv.method);
    let greeting_complete_sent = c.truncate.map(|t| t >= 2).unwrap_or(true);
    let proceeds_allowed = srv.sel_version == 5 && offered && greeting_complete_sent;
    // 2. the authentication message
    if let Some((u, pw)) = &p.auth_userpass {
        if !proceeds_allowed {
            return Err(mk("C15:proceeded-after-bad-selection".into(), "authentication sent although the server did not select an offered method".into()));
        }
        if u != user.as_bytes() || pw != pass.as_bytes() {
            return Err(mk(format!("C15:wrong-userpass:{cname}"), format!("RFC 1929 message carries user {} bytes / password {} bytes, not the client's credentials ({} / {} bytes)", u.len(), pw.len(), user.len(), pass.len())));
        }
    }
    if let Some(tlvs) = &p.auth_ext {
        if !proceeds_allowed {
            return Err(mk("C15:proceeded-after-bad-selection".into(), "extended authentication sent although the server did not select an offered method".into()));
        }
        let get = |t: u8| tlvs.iter().find(|(k, _)| *k == t).map(|(_, v)| v.clone());
        let token = base64::engine::general_purpose::STANDARD.encode(format!("{user}:{pass}"));
        if get(1).as_deref() != Some(b"m.t".as_ref()) {
            return Err(mk("C15:ext-auth:domain".into(), format!("extended auth Domain {:?}", get(1).map(|v| String::from_utf8_lossy(&v).into_owned()))));
        }
        if get(2).as_deref() != Some([198u8, 51, 100, 7].as_ref()) {
            return Err(mk("C15:ext-auth:client-address".into(), format!("extended auth ClientAddress {:?}", get(2))));
        }
        if get(4).as_deref() != Some(token.as_bytes()) {
            return Err(mk(format!("C15:ext-auth:basic-token:{cname}"), "extended auth BasicProxyAuth is not the client's token".into()));
        }
        if c.user_agent && get(3).as_deref() != Some(b"verif-agent/1.0".as_ref()) {
            return Err(mk("C15:ext-auth:user-agent".into(), format!("extended auth UserAgent {:?}", get(3))));
        }
        if get(5).is_some() {
            return Err(mk("C15:ext-auth:sni-marker-with-basic".into(), "SniAuth marker together with BasicProxyAuth".into()));
        }
    }
    // 3. the request
    let (_, want_addr, want_port) = dest_of(&c.dest);
    let dom_len = if c.dest.starts_with("domain") { c.dest.trim_start_matches("domain").parse::<usize>().unwrap() } else { 0 };
    let auth_ok = !matches!(srv.method, 2 | 0x80) || (srv.auth_version == 1 && srv.auth_status == 0 && c.truncate.map(|t| t >= 4).unwrap_or(true));
    if let Some((cmd, addr, port)) = &p.request {
        if !(proceeds_allowed && auth_ok) {
            return Err(mk(format!("C15:proceeded-after-failed-negotiation:method={:#x}:status={}", srv.method, srv.auth_status), "a request was sent although the negotiation did not succeed".into()));
        }
        if dom_len > 255 {
            return Err(mk("C15:request-with-overlong-domain".into(), "a request was sent for a domain name longer than 255 octets".into()));
        }
        if *cmd != 1 || *addr != want_addr || *port != want_port {
            return Err(mk(format!("C15:wrong-request:{}", c.dest), format!("request cmd {cmd} addr {} port {port}, expected CONNECT {} port {want_port}", hex::encode(addr), hex::encode(&want_addr))));
        }
    }
    // 4. the outcome towards the client
    let reply_complete = c.truncate.is_none();
    let good_reply = srv.rep_version == 5 && srv.reserved == 0 && matches!(srv.atyp, 1 | 3 | 4) && reply_complete;
    let expect: (u16, Option<&str>) = if dom_len > 255 && proceeds_allowed && auth_ok {
        (502, None)
    } else if !proceeds_allowed {
        if srv.sel_version == 5 && greeting_complete_sent && (srv.method == 0xff || !offered) { (407, None) } else { (502, None) }
    } else if !auth_ok {
        if srv.auth_version == 1 && srv.auth_status != 0 && c.truncate.map(|t| t >= 4).unwrap_or(true) { (407, None) } else { (502, None) }
    } else if !good_reply {
        (502, None)
    } else {
        match srv.reply {
            0 => (200, None),
            3 | 4 => (502, Some("301")),
            6 => (502, Some("302")),
            _ => (502, Some("300")),
        }
    };
    let over255 = user.len() > 255 || pass.len() > 255;
    if over255 && !c.extended && srv.method == 2 {
        // credentials RFC 1929 cannot carry: the request must fail without a malformed message
        if p.auth_userpass.is_some() {
            unreachable!("checked above: a message that parses with other credentials is a violation");
        }
        if o.status.map(|s| (200..300).contains(&s)).unwrap_or(false) {
            return Err(mk(format!("C15:succeeded-with-unsendable-credentials:{cname}"), "request succeeded although the credentials cannot be sent".into()));
        }
        return Ok("unsendable-credentials-failed");
    }
    match o.status {
        None => Err(mk(format!("C15:no-answer-to-client:reply={}", srv.reply), "the client got no response".into())),
        Some(s) if s != expect.0 => {
            // a 407/502 distinction is only required where the statement names it
            let lenient = (expect.0 == 407 || expect.0 == 502) && (s == 407 || s == 502) && !(srv.method == 0xff || (matches!(srv.method, 2 | 0x80) && srv.auth_status != 0 && srv.auth_version == 1 && proceeds_allowed && c.truncate.is_none()));
            if lenient {
                Ok("failed")
            } else {
                Err(mk(format!("C15:wrong-status:reply={}:method={:#x}:auth={}:want{}", srv.reply, srv.method, srv.auth_status, expect.0), format!("client answered {s}, expected {}", expect.0)))
            }
        }
        Some(200) => {
            if !o.relayed_ok {
                return Err(mk("C15:no-relay-after-success".into(), "200 but bytes are not relayed through the upstream".into()));
            }
            if p.request.is_none() {
                return Err(mk("C15:success-without-request".into(), "200 without a CONNECT request to the upstream".into()));
            }
            Ok("connected-and-relayed")
        }
        Some(_) => {
            if let Some(w) = expect.1 {
                if !o.warning.as_deref().unwrap_or("").starts_with(w) {
                    return Err(mk(format!("C15:wrong-warning:reply={}:want{w}", srv.reply), format!("X-Warning {:?}", o.warning)));
                }
            }
            Ok("failed-as-documented")
        }
    }
}

fn cases(tier: Tier) -> Vec<Case> {
    let mut v = vec![];
    // A. well-formedness of the client's messages, cooperative server
    for cred in 0..creds().len() {
        for extended in [false, true] {
            for dest in ["v4", "v6", "domain1", "domain255", "domain256", "domain300"] {
                for ua in [false, true] {
                    if ua && !extended {
                        continue;
                    }
                    v.push(Case { cred, extended, dest: dest.into(), user_agent: ua, server: Server::normal(if extended { 0x80 } else { 2 }), cuts: vec![], truncate: None });
                }
            }
        }
    }
    // B. server behaviours x truncation x cuts with an ordinary client
    let mut behaviours: Vec<Server> = vec![];
    for extended_method in [2u8, 0x80] {
        for m in [0u8, 2, 0x80, 0xff, 1, 0x7f] {
            let _ = extended_method;
            behaviours.push(Server::normal(m));
        }
    }
    behaviours.dedup();
    for st in [1u8, 0xff] {
        behaviours.push(Server { auth_status: st, ..Server::normal(2) });
        behaviours.push(Server { auth_status: st, ..Server::normal(0x80) });
    }
    behaviours.push(Server { auth_version: 5, ..Server::normal(2) });
    behaviours.push(Server { sel_version: 4, ..Server::normal(2) });
    for rep in 1..=9u8 {
        behaviours.push(Server { reply: rep, ..Server::normal(2) });
    }
    behaviours.push(Server { rep_version: 4, ..Server::normal(2) });
    behaviours.push(Server { reserved: 1, ..Server::normal(2) });
    for atyp in [3u8, 4, 2] {
        behaviours.push(Server { atyp, ..Server::normal(2) });
    }
    for extended in [false, true] {
        for b in &behaviours {
            let needs_auth = b.method == 2 || b.method == 0x80;
            let total = 2 + if needs_auth { 2 } else { 0 } + match b.atyp { 1 => 10, 4 => 22, 3 => 11, _ => 10 };
            let base = Case { cred: 0, extended, dest: "domain255".into(), user_agent: false, server: b.clone(), cuts: vec![], truncate: None };
            v.push(base.clone());
            if b.reply == 0 || tier == Tier::Thorough {
                for t in 0..total {
                    v.push(Case { truncate: Some(t), ..base.clone() });
                }
            }
            if (b.reply == 0 && b.auth_status == 0) || tier == Tier::Thorough {
                for a in 1..total {
                    v.push(Case { cuts: vec![a], ..base.clone() });
                    if tier == Tier::Thorough {
                        for bb in a + 1..total {
                            v.push(Case { cuts: vec![a, bb], ..base.clone() });
                        }
                    }
                }
                v.push(Case { cuts: (1..total).collect(), ..base.clone() });
            }
        }
    }
    v
}

pub fn run_sync(c: &Case) -> Result<&'static str, Violation> {
    match rt::run_real(run_case(c)) {
        Err(e) => Err(Violation::new("C15:machinery", e, json!({"case": c}))),
        Ok(o) => judge(c, &o),
    }
}

// ------------------------------------------------------------------------------------------------
// UDP through the SOCKS5 relay: RFC 1928 section 7 wrapping both ways
// ------------------------------------------------------------------------------------------------

async fn udp_relay_case(v6: bool, payload_len: usize) -> Result<&'static str, Violation> {
    let case = json!({"kind":"udp-relay","v6":v6,"payload_len":payload_len});
    let mk = |sig: &str, what: String| Violation::new(format!("C15:udp-relay:{sig}:{}", if v6 { "v6" } else { "v4" }), what, case.clone());
    let mach = |e: String| Violation::new("C15:machinery", e, json!({}));
    let socks = tokio::net::TcpListener::bind("127.0.0.1:0").await.map_err(|e| mach(e.to_string()))?;
    let relay = tokio::net::UdpSocket::bind("127.0.0.1:0").await.map_err(|e| mach(e.to_string()))?;
    let relay_addr = relay.local_addr().unwrap();
    let cfg = Cfg { socks5: Some((socks.local_addr().unwrap(), false)), clients: vec![("u".into(), "p".into())], ..Cfg::default() };
    let world = make_world_with_auth(&cfg, Some(Arc::new(RegistryBasedAuthenticator::new(&[Client { username: "u".into(), password: "p".into() }])))).map_err(mach)?;
    let peer: SocketAddr = "198.51.100.7:40000".parse().unwrap();
    let (io, d) = door::open(&world.ctx, VProtocol::Http2, "m.t", None, peer, 1 << 16);
    let mut cl = H2Client::connect(io).await.map_err(mach)?;
    let spec = ReqSpec::connect("_udp2").with_auth(Some(b"Basic dTpw".to_vec()));
    let mut st = cl.request(spec.h2_request().map_err(mach)?, false).await.map_err(mach)?;
    let dst: SocketAddr = if v6 { "[2606:2800:220:1::1]:4000".parse().unwrap() } else { "93.184.216.34:4000".parse().unwrap() };
    let src: SocketAddr = "10.1.2.3:5000".parse().unwrap();
    let payload: Vec<u8> = (0..payload_len).map(|i| (i % 251) as u8).collect();
    let mut controls = vec![];
    let mut status = None;
    let mut sent = false;
    let mut from_endpoint: Option<(Vec<u8>, SocketAddr)> = None;
    let t0 = std::time::Instant::now();
    while t0.elapsed() < Duration::from_secs(5) && from_endpoint.is_none() {
        {
            let mut acc = Box::pin(socks.accept());
            if let Some(Ok((s, _))) = door::poll_once(&mut acc).await {
                drop(acc);
                if let Some(s) = super::c09::socks_control(s, relay_addr).await {
                    controls.push(s);
                }
            }
        }
        if status.is_none() {
            if let H2Outcome::Response(r) = st.response(Duration::from_millis(5)).await {
                status = Some(r.status);
                if r.status != 200 {
                    return Err(mk("mux-refused", format!("CONNECT _udp2 through a SOCKS5 upstream answered {}", r.status)));
                }
            }
        }
        if status == Some(200) && !sent {
            st.tx.send_data(bytes::Bytes::from(super::c06::build_record(src, dst, b"app", &payload)), false).map_err(|e| mach(e.to_string()))?;
            sent = true;
        }
        let mut tmp = vec![0u8; 70_000];
        if let Ok((n, from)) = relay.try_recv_from(&mut tmp) {
            from_endpoint = Some((tmp[..n].to_vec(), from));
        }
        tokio::task::yield_now().await;
    }
    let Some((wire, endpoint_addr)) = from_endpoint else {
        return Err(mk("datagram-not-relayed", "the client's datagram never reached the SOCKS5 relay".into()));
    };
    // section 7: RSV RSV FRAG ATYP DST.ADDR DST.PORT DATA
    let mut want = vec![0u8, 0, 0, if v6 { 4 } else { 1 }];
    match dst.ip() {
        std::net::IpAddr::V4(a) => want.extend_from_slice(&a.octets()),
        std::net::IpAddr::V6(a) => want.extend_from_slice(&a.octets()),
    }
    want.extend_from_slice(&dst.port().to_be_bytes());
    want.extend_from_slice(&payload);
    if wire != want {
        let n = want.len().min(24);
        return Err(mk("wrong-wrapping:to-relay", format!("the relay received {} bytes starting {}, expected {} bytes starting {}", wire.len(), hex::encode(&wire[..wire.len().min(24)]), want.len(), hex::encode(&want[..n]))));
    }
    // the relay answers with a wrapped datagram from the destination
    let answer: Vec<u8> = (0..payload_len.max(1)).map(|i| (i % 13) as u8 + 1).collect();
    let mut back = want[..want.len() - payload.len()].to_vec();
    back.extend_from_slice(&answer);
    let _ = relay.send_to(&back, endpoint_addr).await;
    let want_rec_len = 4 + 36 + answer.len();
    let mut got = vec![];
    let t0 = std::time::Instant::now();
    while got.len() < want_rec_len && t0.elapsed() < Duration::from_secs(3) {
        let (b, ended, _) = st.body(20).await;
        got.extend_from_slice(&b);
        if ended {
            break;
        }
    }
    drop(controls);
    d.task.abort();
    let expect = trusttunnel::verif_hooks::udp_encode(dst, src, bytes::Bytes::from(answer.clone())).map(|b| b.to_vec()).unwrap_or_default();
    if got != expect {
        return Err(mk("wrong-unwrapping:to-client", format!("the client received {} bytes, expected the {}-byte record labelled {dst} -> {src}", got.len(), expect.len())));
    }
    Ok("wrapped-and-unwrapped")
}

fn udp_relay_into(rep: &mut Report) {
    let mut classes = vec![];
    let mut n = 0u64;
    for v6 in [false, true] {
        for len in [0usize, 1, 1200, 9000] {
            n += 1;
            match super::guarded(|| rt::run_real(udp_relay_case(v6, len))) {
                Ok(Ok(c)) => classes.push(format!("{}:{len}:{c}", if v6 { "v6" } else { "v4" })),
                Ok(Err(v)) => rep.violation(v),
                Err(p) => rep.violation(Violation::new("C15:udp-relay:panic", p, json!({"kind":"udp-relay","v6":v6,"payload_len":len}))),
            }
        }
    }
    rep.add("evaluations", n);
    rep.sub.push(json!({"sub":"udp-relay","cases":n,"classes":classes,
        "what":"a _udp2 tunnel through a SOCKS5 upstream (harness-played control connection + UDP relay): the client's datagram reaches the relay wrapped as RFC 1928 section 7 prescribes (IPv4 / IPv6 destination, payload 0..9000 bytes), the relay's wrapped answer reaches the client as a 6.4 record labelled destination -> source"}));
}

pub fn run(tier: Tier) -> i32 {
    crate::engine::watch::start("C15", tier.name(), Duration::from_secs(120), crate::engine::watch::OnExpiry::Machinery);
    let mut rep = Report::new("C15", tier, "exploration");
    let cs = cases(tier);
    let r = sweep_dyn(cs.len() as u64, 1, Duration::from_secs(tier.pick(50, 1500)), rt::workers(), |i| {
        let c = &cs[i as usize];
        let _g = crate::engine::watch::enter("C15:wedged".into(), json!({"case": c}).to_string());
        run_sync(c).map(|k| Cow::Owned(format!("{k}:m{:#x}:r{}", c.server.method, c.server.reply)))
    });
    rep.add("evaluations", r.evaluations);
    rep.add("distinct_nontrivial", r.classes.len() as u64);
    rep.violations(r.violations);
    rep.cov("exhaustive", r.completed);
    rep.cov("rule", format!("{} dialogues: (A) 8 credential shapes (lengths 1..600, UTF-8, colon in the password) x {{RFC 1929, extended auth}} x 6 destinations (IPv4, IPv6, domain of 1/255/256/300 octets); (B) 30+ server behaviours (each method selection, auth status, reply code 0..9, address type, wrong version/reserved bytes) x truncation at every byte x every 1-cut (+ 2-cuts in thorough) and byte-at-a-time of the server's bytes; distinct = (verdict, method, reply) classes", cs.len()));
    rep.sample(json!({"case": cs[3]}));
    rep.assume("the endpoint is driven through its real accept path over HTTP/2 with forward_protocol=socks5; the SOCKS5 UDP relay wrapping is not exercised here");
    udp_relay_into(&mut rep);
    rep.finish()
}

pub fn replay(case: &serde_json::Value) -> Result<(), Violation> {
    if case["kind"].as_str() == Some("udp-relay") {
        return rt::run_real(udp_relay_case(case["v6"].as_bool().unwrap_or(false), case["payload_len"].as_u64().unwrap_or(1) as usize)).map(|_| ());
    }
    let c: Case = serde_json::from_value(case["case"].clone()).map_err(|_| Violation::new("C15:machinery", "bad replay file", json!({})))?;
    run_sync(&c).map(|_| ())
}
