//! C18 — ping, speedtest and reverse-proxy channels do exactly what is documented.
//!
//! Request-selected variants through the real accept path (HttpDownstream's demultiplexer in
//! front of the three real handlers) over HTTP/1.1 and HTTP/2, and host-selected variants through
//! real TLS on loopback (`Core::on_new_tls_connection`). Request heads around the documented
//! ones, N and L at and beyond their bounds, client back-pressure patterns for downloads,
//! reverse-proxy settings x egress policy x attempts to name another destination.

use super::c12::new_client;
use super::common::{make_world, Cfg};
use super::door::{self, H1Client, H2Client, H2Outcome, ReqSpec};
use crate::engine::explore::sweep_dyn;
use crate::engine::report::{Report, Tier, Violation};
use crate::engine::rt;
use crate::engine::sys::{self, SysEvent};
use serde_json::json;
use std::borrow::Cow;
use std::net::SocketAddr;
use std::time::Duration;
use tokio::io::{AsyncReadExt, AsyncWriteExt};
use trusttunnel::verif_hooks::{self as vh, VProtocol};

const MIB: usize = 1 << 20;

#[derive(Clone, Debug, serde::Serialize, serde::Deserialize, PartialEq)]
pub enum Case {
    Ping { h2: bool, method: String, marker: String, with_creds: bool },
    Download { h2: bool, n: String, segment: bool, pacing: String },
    Upload { h2: bool, length: String, body: usize },
    OtherSpeed { h2: bool, method: String, path: String },
    Rproxy { origin_v6: bool, allow_private: bool, path: String, upgrade: bool, steer: String },
    HostBased { which: String },
    /// a speedtest that runs longer than the session's idle timer (virtual clock)
    LongTest { h2: bool, upload: bool },
    /// the configured origin is a private, non-loopback address (reached through the interposer)
    RproxyPrivateOrigin { allow_private: bool, v6: bool },
    /// a reverse-proxy host session whose client takes the response a few bytes at a time
    RproxySlowClient { h2: bool, body: usize },
}

fn users() -> Vec<(String, String)> {
    vec![("u".into(), "p".into())]
}

#[derive(Debug, Default, serde::Serialize)]
struct Obs {
    status: Option<u16>,
    headers: Vec<(String, String)>,
    body_len: usize,
    body_head: Vec<u8>,
    ended: bool,
    error: Option<String>,
    connects: Vec<String>,
    origin_request: Vec<u8>,
}

/// read an HTTP/1.1 response whose body runs until the connection closes; returns after EOF
async fn h1_until_close(cl: &mut H1Client, obs: &mut Obs, slow: bool, wall: Duration) {
    let t0 = std::time::Instant::now();
    let mut head_done = false;
    loop {
        if !head_done {
            if let Some(r) = cl.take_response() {
                obs.status = Some(r.status);
                obs.headers = r.headers;
                head_done = true;
                obs.body_len = cl.inbuf.len();
                obs.body_head = cl.inbuf.iter().take(32).cloned().collect();
                cl.inbuf.clear();
            }
        } else {
            obs.body_len += cl.inbuf.len();
            if obs.body_head.len() < 32 {
                obs.body_head.extend(cl.inbuf.iter().take(32 - obs.body_head.len()));
            }
            cl.inbuf.clear();
        }
        if cl.eof {
            obs.ended = true;
            break;
        }
        if t0.elapsed() > wall {
            break;
        }
        if slow {
            let mut tmp = [0u8; 5];
            let r = {
                let mut f = Box::pin(cl.io.read(&mut tmp));
                door::poll_once(&mut f).await
            };
            match r {
                Some(Ok(0)) => cl.eof = true,
                Some(Ok(n)) => cl.inbuf.extend_from_slice(&tmp[..n]),
                Some(Err(e)) => {
                    cl.io_error = Some(e.to_string());
                    cl.eof = true;
                }
                None => door::spin(3).await,
            }
        } else {
            cl.pump(20).await;
        }
    }
}

async fn h2_collect(st: &mut door::H2Stream, obs: &mut Obs, slow: bool, wall: Duration) {
    match st.response(Duration::from_secs(5)).await {
        H2Outcome::Response(r) => {
            obs.status = Some(r.status);
            obs.headers = r.headers;
        }
        H2Outcome::Reset(e) => {
            obs.error = Some(e);
            return;
        }
        H2Outcome::Nothing => return,
    }
    let t0 = std::time::Instant::now();
    while t0.elapsed() < wall {
        let (b, ended, err) = st.body(if slow { 1 } else { 30 }).await;
        obs.body_len += b.len();
        if obs.body_head.len() < 32 {
            obs.body_head.extend(b.iter().take(32 - obs.body_head.len()));
        }
        if let Some(e) = err {
            obs.error = Some(e);
        }
        if ended {
            obs.ended = true;
            break;
        }
        if slow {
            door::spin(3).await;
        }
    }
}

fn egress() -> Vec<String> {
    sys::take_connect_log()
        .into_iter()
        .filter_map(|e| match e {
            SysEvent::Connect { addr, sock_type } if sock_type == libc::SOCK_STREAM => Some(addr.to_string()),
            _ => None,
        })
        .collect()
}

async fn simple_exchange(world: &super::common::World, h2: bool, spec: ReqSpec, body: Option<Vec<u8>>, slow: bool, wall: Duration) -> Result<Obs, String> {
    let peer: SocketAddr = "198.51.100.7:40000".parse().unwrap();
    let mut obs = Obs::default();
    sys::take_connect_log();
    let (io, d) = door::open(&world.ctx, if h2 { VProtocol::Http2 } else { VProtocol::Http1 }, "m.t", None, peer, if slow && !h2 { 64 } else { 1 << 18 });
    if !h2 {
        let mut cl = H1Client::new(io);
        let mut bytes = spec.h1_bytes();
        if let Some(b) = &body {
            bytes.extend_from_slice(b);
        }
        // big uploads are written while the response is awaited
        let big = bytes.len() > (1 << 17);
        if !big {
            cl.send(&bytes).await;
        } else {
            let mut off = 0;
            let t0 = std::time::Instant::now();
            while off < bytes.len() && t0.elapsed() < wall {
                let end = (off + (1 << 16)).min(bytes.len());
                let mut w = Box::pin(cl.io.write_all(&bytes[off..end]));
                if door::until(&mut w, Duration::from_secs(5)).await.is_none() {
                    break;
                }
                off = end;
            }
        }
        h1_until_close(&mut cl, &mut obs, slow, wall).await;
        obs.error = obs.error.or(cl.io_error.clone());
    } else {
        let mut cl = H2Client::connect_with(io, if slow { Some(9) } else { None }).await?;
        let mut st = cl.request(spec.h2_request()?, body.is_none()).await?;
        if let Some(b) = body {
            let mut off = 0;
            let t0 = std::time::Instant::now();
            while off < b.len() && t0.elapsed() < wall {
                st.tx.reserve_capacity((b.len() - off).min(1 << 16));
                let cap = {
                    let mut f = Box::pin(std::future::poll_fn(|cx| st.tx.poll_capacity(cx)));
                    match door::until(&mut f, Duration::from_secs(5)).await {
                        Some(Some(Ok(n))) => n,
                        _ => break,
                    }
                };
                let end = (off + cap).min(b.len());
                if st.tx.send_data(bytes::Bytes::copy_from_slice(&b[off..end]), end == b.len()).is_err() {
                    break;
                }
                off = end;
            }
            if b.is_empty() {
                let _ = st.tx.send_data(bytes::Bytes::new(), true);
            }
        }
        h2_collect(&mut st, &mut obs, slow, wall).await;
    }
    door::spin(50).await;
    obs.connects = egress();
    d.task.abort();
    Ok(obs)
}

async fn run_case(c: &Case) -> Result<Obs, String> {
    match c {
        Case::Ping { h2, method, marker, with_creds } => {
            let world = make_world(&Cfg { clients: users(), ..Cfg::default() })?;
            let mut spec = ReqSpec { method: method.clone(), target: "https://m.t/".into(), proxy_auth: with_creds.then(|| b"Basic dTpw".to_vec()), headers: vec![] };
            match marker.as_str() {
                "x-ping-1" => spec.headers.push(("x-ping".into(), "1".into())),
                "x-ping-2" => spec.headers.push(("x-ping".into(), "2".into())),
                "navigate" => spec.headers.push(("sec-fetch-mode".into(), "navigate".into())),
                _ => {}
            }
            if !*h2 {
                spec.target = "/".into();
                spec.headers.push(("Host".into(), "m.t".into()));
            }
            simple_exchange(&world, *h2, spec, None, false, Duration::from_secs(3)).await
        }
        Case::Download { h2, n, segment, pacing } => {
            let world = make_world(&Cfg { clients: users(), speedtest: true, ..Cfg::default() })?;
            let path = format!("{}/{n}mb.bin", if *segment { "/speed" } else { "" });
            let mut spec = ReqSpec { method: "GET".into(), target: format!("https://m.t{path}"), proxy_auth: None, headers: vec![] };
            if !*h2 {
                spec.target = path;
                spec.headers.push(("Host".into(), "m.t".into()));
            }
            simple_exchange(&world, *h2, spec, None, pacing == "slow", Duration::from_secs(60)).await
        }
        Case::Upload { h2, length, body } => {
            let world = make_world(&Cfg { clients: users(), speedtest: true, ..Cfg::default() })?;
            let mut spec = ReqSpec { method: "POST".into(), target: "https://m.t/speed/upload.html".into(), proxy_auth: None, headers: vec![] };
            if length != "absent" {
                spec.headers.push(("content-length".into(), length.clone()));
            }
            if !*h2 {
                spec.target = "/speed/upload.html".into();
                spec.headers.push(("Host".into(), "m.t".into()));
            }
            // a body shorter than announced never completes (and is unconstrained): do not wait for it
            let complete = length.parse::<u64>().map(|l| *body as u64 >= l).unwrap_or(true);
            simple_exchange(&world, *h2, spec, Some(vec![0x55; *body]), false, Duration::from_secs(if complete { 60 } else { 2 })).await
        }
        Case::OtherSpeed { h2, method, path } => {
            let world = make_world(&Cfg { clients: users(), speedtest: true, ..Cfg::default() })?;
            let mut spec = ReqSpec { method: method.clone(), target: format!("https://m.t{path}"), proxy_auth: None, headers: vec![] };
            if !*h2 {
                spec.target = path.clone();
                spec.headers.push(("Host".into(), "m.t".into()));
            }
            simple_exchange(&world, *h2, spec, None, false, Duration::from_secs(3)).await
        }
        Case::Rproxy { origin_v6, allow_private, path, upgrade, steer } => {
            let origin = tokio::net::TcpListener::bind(if *origin_v6 { "[::1]:0" } else { "127.0.0.1:0" }).await.map_err(|e| e.to_string())?;
            let oaddr = origin.local_addr().unwrap();
            let world = make_world(&Cfg { clients: users(), allow_private: *allow_private, reverse_proxy: Some((oaddr, "/app".into())), reverse_proxy_hosts: vec!["r.t".into()], ..Cfg::default() })?;
            let target = match steer.as_str() {
                "absolute-uri" => format!("http://evil.c18.test{path}"),
                _ => path.clone(),
            };
            let mut spec = ReqSpec { method: "GET".into(), target, proxy_auth: None, headers: vec![] };
            spec.headers.push(("Host".into(), if steer == "host-header" { "evil.c18.test".into() } else { "m.t".into() }));
            if *upgrade {
                spec.headers.push(("Upgrade".into(), "websocket".into()));
                spec.headers.push(("Connection".into(), "Upgrade".into()));
            }
            if steer == "own-original-protocol" {
                // the field tells the origin how the client arrived: it is the endpoint's to set
                spec.headers.push(("X-Original-Protocol".into(), "spoofed".into()));
            }
            let peer: SocketAddr = "198.51.100.7:40000".parse().unwrap();
            let mut obs = Obs::default();
            sys::take_connect_log();
            // "slow-client": the client's transport takes a few bytes at a time
            let (io, d) = door::open(&world.ctx, VProtocol::Http1, "m.t", None, peer, if steer == "slow-client" { 7 } else { 1 << 16 });
            let mut cl = H1Client::new(io);
            cl.send(&spec.h1_bytes()).await;
            // play the origin
            let mut acc = Box::pin(origin.accept());
            if let Some(Ok((mut os, _))) = door::until(&mut acc, Duration::from_millis(700)).await {
                let _ = os.set_linger(Some(Duration::ZERO));
                let t0 = std::time::Instant::now();
                while !obs.origin_request.windows(4).any(|w| w == b"\r\n\r\n") && t0.elapsed() < Duration::from_secs(2) {
                    let mut tmp = [0u8; 2048];
                    let mut r = Box::pin(os.read(&mut tmp));
                    match door::until(&mut r, Duration::from_secs(1)).await {
                        Some(Ok(n)) if n > 0 => obs.origin_request.extend_from_slice(&tmp[..n]),
                        _ => break,
                    }
                }
                {
                    let mut w = Box::pin(os.write_all(b"HTTP/1.1 101 Switching Protocols\r\nUpgrade: websocket\r\nConnection: Upgrade\r\nX-Origin: yes\r\n\r\n\x01\x02raw-after-head"));
                    door::until(&mut w, Duration::from_secs(2)).await;
                }
                if let Some(r) = cl.response(Duration::from_secs(3)).await {
                    obs.status = Some(r.status);
                    obs.headers = r.headers;
                }
                // bytes both ways after the head
                cl.send(b"client-bytes").await;
                let t0 = std::time::Instant::now();
                let mut got = vec![];
                while got.len() < 12 && t0.elapsed() < Duration::from_secs(2) {
                    let mut tmp = [0u8; 64];
                    let mut r = Box::pin(os.read(&mut tmp));
                    match door::until(&mut r, Duration::from_secs(1)).await {
                        Some(Ok(n)) if n > 0 => got.extend_from_slice(&tmp[..n]),
                        _ => break,
                    }
                }
                obs.origin_request.extend_from_slice(b"|after-head:");
                obs.origin_request.extend_from_slice(&got);
                let t0 = std::time::Instant::now();
                while cl.inbuf.len() < 16 && t0.elapsed() < Duration::from_secs(2) {
                    cl.pump(20).await;
                }
                obs.body_head = cl.inbuf.clone();
                obs.body_len = cl.inbuf.len();
            } else {
                drop(acc);
                if let Some(r) = cl.response(Duration::from_secs(2)).await {
                    obs.status = Some(r.status);
                    obs.headers = r.headers;
                }
                obs.ended = cl.eof;
            }
            door::spin(50).await;
            obs.connects = egress();
            obs.error = Some(oaddr.to_string()); // carries the configured origin for the oracle
            d.task.abort();
            Ok(obs)
        }
        Case::HostBased { which } => host_based(which).await,
        Case::LongTest { h2, upload } => long_test(*h2, *upload).await,
        Case::RproxySlowClient { h2, body } => rproxy_slow_client(*h2, *body).await,
        Case::RproxyPrivateOrigin { allow_private, v6 } => rproxy_private_origin(*allow_private, *v6).await,
    }
}

thread_local! {
    static PRIVATE_ORIGIN_PORT: std::cell::Cell<u16> = const { std::cell::Cell::new(0) };
}

fn to_private_origin(a: &SocketAddr, _t: i32) -> crate::engine::sys::ConnectAnswer {
    let private = match a.ip() {
        std::net::IpAddr::V4(v4) => v4.octets()[0] == 10,
        std::net::IpAddr::V6(v6) => v6.segments()[0] == 0xfd00,
    };
    if private {
        crate::engine::sys::ConnectAnswer::RedirectLoopback(PRIVATE_ORIGIN_PORT.with(|p| p.get()))
    } else {
        crate::engine::sys::ConnectAnswer::PassThrough
    }
}

/// The configured origin is 10.9.8.7 / fd00::7 (the interposer connects it to a loopback listener):
/// the client egress policy does not apply to the operator's own origin.
async fn rproxy_private_origin(allow_private: bool, v6: bool) -> Result<Obs, String> {
    let origin = tokio::net::TcpListener::bind(if v6 { "[::1]:0" } else { "127.0.0.1:0" }).await.map_err(|e| e.to_string())?;
    let port = origin.local_addr().unwrap().port();
    PRIVATE_ORIGIN_PORT.with(|p| p.set(port));
    let configured: SocketAddr = if v6 { format!("[fd00::7]:{port}") } else { format!("10.9.8.7:{port}") }.parse().unwrap();
    let world = make_world(&Cfg { clients: users(), allow_private, reverse_proxy: Some((configured, "/app".into())), reverse_proxy_hosts: vec!["r.t".into()], ..Cfg::default() })?;
    sys::script_connect(Some(to_private_origin));
    sys::take_connect_log();
    let peer: SocketAddr = "198.51.100.7:40000".parse().unwrap();
    let mut obs = Obs::default();
    let (io, server) = tokio::io::duplex(1 << 16);
    let ctx = world.ctx.clone();
    let d = door::Door { task: tokio::spawn(async move { vh::reverse_proxy_listen(&ctx, VProtocol::Http1, vh::wrap_io(server, peer), "r.t".to_string()).await }) };
    let mut cl = H1Client::new(io);
    let spec = ReqSpec { method: "GET".into(), target: "/app/data".into(), proxy_auth: None, headers: vec![("Host".into(), "r.t".into())] };
    cl.send(&spec.h1_bytes()).await;
    let mut acc = Box::pin(origin.accept());
    if let Some(Ok((mut os, _))) = door::until(&mut acc, Duration::from_secs(2)).await {
        let _ = os.set_linger(Some(Duration::ZERO));
        let t0 = std::time::Instant::now();
        while !obs.origin_request.windows(4).any(|w| w == b"\r\n\r\n") && t0.elapsed() < Duration::from_secs(2) {
            let mut tmp = [0u8; 2048];
            let mut r = Box::pin(os.read(&mut tmp));
            match door::until(&mut r, Duration::from_secs(1)).await {
                Some(Ok(n)) if n > 0 => obs.origin_request.extend_from_slice(&tmp[..n]),
                _ => break,
            }
        }
        let mut w = Box::pin(os.write_all(b"HTTP/1.1 200 OK\r\nContent-Length: 2\r\nConnection: close\r\n\r\nok"));
        door::until(&mut w, Duration::from_secs(2)).await;
        drop(w);
        door::spin(50).await;
        let mut sd = Box::pin(os.shutdown());
        door::until(&mut sd, Duration::from_secs(1)).await;
        drop(sd);
        h1_until_close(&mut cl, &mut obs, false, Duration::from_secs(3)).await;
    } else if let Some(r) = cl.response(Duration::from_secs(2)).await {
        obs.status = Some(r.status);
    }
    drop(acc);
    obs.connects = egress();
    sys::script_connect(None);
    d.task.abort();
    Ok(obs)
}

/// The origin answers head and body in one write; the client of the reverse-proxy host has a tiny
/// window (HTTP/2) / transport buffer (HTTP/1.1), so its sink takes the body piecemeal.
async fn rproxy_slow_client(h2: bool, body: usize) -> Result<Obs, String> {
    let origin = tokio::net::TcpListener::bind("127.0.0.1:0").await.map_err(|e| e.to_string())?;
    let oaddr = origin.local_addr().unwrap();
    let world = make_world(&Cfg { clients: users(), reverse_proxy: Some((oaddr, "/app".into())), reverse_proxy_hosts: vec!["r.t".into()], ..Cfg::default() })?;
    let peer: SocketAddr = "198.51.100.7:40000".parse().unwrap();
    let mut obs = Obs::default();
    let (io, server) = tokio::io::duplex(if h2 { 1 << 16 } else { 7 });
    let ctx = world.ctx.clone();
    let proto = if h2 { VProtocol::Http2 } else { VProtocol::Http1 };
    let d = door::Door { task: tokio::spawn(async move { vh::reverse_proxy_listen(&ctx, proto, vh::wrap_io(server, peer), "r.t".to_string()).await }) };
    let mut spec = ReqSpec { method: "GET".into(), target: "https://r.t/app/data".into(), proxy_auth: None, headers: vec![] };
    if !h2 {
        spec.target = "/app/data".into();
        spec.headers.push(("Host".into(), "r.t".into()));
    }
    let payload: Vec<u8> = (0..body).map(|i| b'a' + (i % 26) as u8).collect();
    let mut wire = format!("HTTP/1.1 200 OK\r\nContent-Length: {body}\r\nConnection: close\r\n\r\n").into_bytes();
    wire.extend_from_slice(&payload);
    let serve = |mut os: tokio::net::TcpStream, wire: Vec<u8>| async move {
        let _ = os.set_linger(Some(Duration::ZERO));
        let mut got = vec![];
        let t0 = std::time::Instant::now();
        while !got.windows(4).any(|w| w == b"\r\n\r\n") && t0.elapsed() < Duration::from_secs(2) {
            let mut tmp = [0u8; 2048];
            let mut r = Box::pin(os.read(&mut tmp));
            match door::until(&mut r, Duration::from_secs(1)).await {
                Some(Ok(n)) if n > 0 => got.extend_from_slice(&tmp[..n]),
                _ => break,
            }
        }
        let mut w = Box::pin(os.write_all(&wire));
        door::until(&mut w, Duration::from_secs(2)).await;
        drop(w);
        door::spin(50).await;
        let mut sd = Box::pin(os.shutdown());
        door::until(&mut sd, Duration::from_secs(1)).await;
        drop(sd);
        (os, got)
    };

    if !h2 {
        let mut cl = H1Client::new(io);
        cl.send(&spec.h1_bytes()).await;
        let mut acc = Box::pin(origin.accept());
        let Some(Ok((os, _))) = door::until(&mut acc, Duration::from_secs(2)).await else { return Err("the origin was not contacted".into()) };
        drop(acc);
        let (_os, got) = serve(os, wire).await;
        obs.origin_request = got;
        h1_until_close(&mut cl, &mut obs, true, Duration::from_secs(4)).await;

    } else {
        let mut cl = H2Client::connect_with(io, Some(5)).await?;
        let mut st = cl.request(spec.h2_request()?, true).await?;
        let mut acc = Box::pin(origin.accept());
        let Some(Ok((os, _))) = door::until(&mut acc, Duration::from_secs(2)).await else { return Err("the origin was not contacted".into()) };
        drop(acc);
        let (_os, got) = serve(os, wire).await;
        obs.origin_request = got;
        h2_collect(&mut st, &mut obs, true, Duration::from_secs(4)).await;
    }
    d.task.abort();
    Ok(obs)
}

/// A speedtest exchange that is still in progress when the session's idle timer (the TLS handshake
/// timeout, 2 s here) has passed several times over, on a paused clock.
async fn long_test(h2: bool, upload: bool) -> Result<Obs, String> {
    let cfg = Cfg { clients: users(), speedtest: true, tls_timeout: Duration::from_secs(2), ..Cfg::default() };
    let world = make_world(&cfg)?;
    let peer: SocketAddr = "198.51.100.7:40000".parse().unwrap();
    let mut obs = Obs::default();
    // the session of a speedtest host: its handler owns the connection and its idle timer
    let (io, server) = tokio::io::duplex(1 << 16);
    let ctx = world.ctx.clone();
    let proto = if h2 { VProtocol::Http2 } else { VProtocol::Http1 };
    let d = door::Door { task: tokio::spawn(async move { vh::speedtest_listen(&ctx, proto, vh::wrap_io(server, peer)).await }) };
    let path = if upload { "/speed/upload.html" } else { "/speed/1mb.bin" };
    let mut spec = ReqSpec { method: if upload { "POST" } else { "GET" }.into(), target: format!("https://m.t{path}"), proxy_auth: None, headers: vec![] };
    if upload {
        spec.headers.push(("content-length".into(), "8".into()));
    }
    if !h2 {
        spec.target = path.into();
        spec.headers.push(("Host".into(), "m.t".into()));
    }
    async fn idle(steps: u32) {
        for _ in 0..steps {
            tokio::time::advance(Duration::from_millis(701)).await;
            door::spin(30).await;
        }
    }
    if !h2 {
        let mut cl = H1Client::new(io);
        let mut bytes = spec.h1_bytes();
        if upload {
            bytes.extend_from_slice(b"half");
        }
        cl.send(&bytes).await;
        door::spin(40).await;
        if upload {
            idle(10).await; // 7 s of silence in the middle of the body
            cl.send(b"rest").await;
        } else {
            // read a little, stay away for 7 s, read the rest
            cl.pump(2).await;
            idle(10).await;
        }
        h1_until_close(&mut cl, &mut obs, false, Duration::from_secs(5)).await;
    } else {
        let mut cl = H2Client::connect(io).await?;
        let mut st = cl.request(spec.h2_request()?, !upload).await?;
        if upload {
            let _ = st.tx.send_data(bytes::Bytes::from_static(b"half"), false);
            door::spin(40).await;
            idle(10).await;
            let _ = st.tx.send_data(bytes::Bytes::from_static(b"rest"), true);
        } else {
            door::spin(40).await;
            idle(10).await;
        }
        h2_collect(&mut st, &mut obs, false, Duration::from_secs(5)).await;
    }
    d.task.abort();
    Ok(obs)
}

/// host-selected channels through real TLS on loopback
async fn host_based(which: &str) -> Result<Obs, String> {
    let origin = tokio::net::TcpListener::bind("127.0.0.1:0").await.map_err(|e| e.to_string())?;
    let oaddr = origin.local_addr().unwrap();
    let world = make_world(&Cfg {
        clients: users(),
        allow_private: which == "rproxy-host-private-allowed",
        speedtest: false,
        ping_hosts: vec!["p.t".into()],
        speedtest_hosts: vec!["s.t".into()],
        reverse_proxy_hosts: vec!["r.t".into()],
        reverse_proxy: Some((oaddr, "/app".into())),
        ..Cfg::default()
    })?;
    let (sni, req): (&str, &[u8]) = match which {
        "ping-host" => ("p.t", b"GET /anything HTTP/1.1\r\nHost: p.t\r\n\r\n"),
        "speedtest-host-1mb" => ("s.t", b"GET /1mb.bin HTTP/1.1\r\nHost: s.t\r\n\r\n"),
        "speedtest-host-segment" => ("s.t", b"GET /speed/2mb.bin HTTP/1.1\r\nHost: s.t\r\n\r\n"),
        _ => ("r.t", b"GET /whatever HTTP/1.1\r\nHost: r.t\r\n\r\n"),
    };
    let listener = tokio::net::TcpListener::bind("127.0.0.1:0").await.map_err(|e| e.to_string())?;
    let addr = listener.local_addr().unwrap();
    let ctx = world.ctx.clone();
    sys::take_connect_log();
    let server = tokio::spawn(async move {
        let (s, peer) = listener.accept().await.map_err(|e| e.to_string())?;
        let acc = vh::tls_listen(s).await.map_err(|e| format!("listen: {e}"))?;
        vh::on_new_tls_connection(&ctx, acc, peer.ip()).await
    });
    let (mut conn, hello) = new_client(sni, &[b"http/1.1"])?;
    let mut connect = Box::pin(tokio::net::TcpStream::connect(addr));
    let Some(Ok(mut sock)) = door::until(&mut connect, Duration::from_secs(5)).await else { return Err("connect".into()) };
    drop(connect);
    let _ = sock.set_linger(Some(Duration::ZERO));
    {
        let mut w = Box::pin(sock.write_all(&hello));
        door::until(&mut w, Duration::from_secs(5)).await;
    }
    let mut obs = Obs::default();
    let mut plain: Vec<u8> = vec![];
    let mut sent = false;
    let mut origin_acc = Box::pin(origin.accept());
    let mut origin_sock: Option<tokio::net::TcpStream> = None;
    let t0 = std::time::Instant::now();
    let mut head_len: Option<usize> = None;
    loop {
        while conn.wants_write() {
            let mut out = Vec::new();
            let _ = conn.write_tls(&mut out);
            let mut w = Box::pin(sock.write_all(&out));
            door::until(&mut w, Duration::from_secs(5)).await;
        }
        if !conn.is_handshaking() && !sent {
            use std::io::Write;
            conn.writer().write_all(req).unwrap();
            sent = true;
            continue;
        }
        if origin_sock.is_none() {
            if let Some(Ok((mut os, _))) = door::poll_once(&mut origin_acc).await {
                let _ = os.set_linger(Some(Duration::ZERO));
                let mut tmp = [0u8; 2048];
                let got = {
                    let mut r = Box::pin(os.read(&mut tmp));
                    door::until(&mut r, Duration::from_secs(2)).await
                };
                if let Some(Ok(n)) = got {
                    obs.origin_request.extend_from_slice(&tmp[..n]);
                }
                let mut w = Box::pin(os.write_all(b"HTTP/1.1 200 OK\r\nContent-Length: 2\r\nX-Origin: yes\r\n\r\nok"));
                door::until(&mut w, Duration::from_secs(2)).await;
                drop(w);
                origin_sock = Some(os);
            }
        }
        if head_len.is_none() {
            if let Some(p) = plain.windows(4).position(|w| w == b"\r\n\r\n") {
                head_len = Some(p + 4);
                let mut headers = [httparse::EMPTY_HEADER; 32];
                let mut r = httparse::Response::new(&mut headers);
                if r.parse(&plain).is_ok() {
                    obs.status = r.code;
                    obs.headers = r.headers.iter().map(|h| (h.name.to_ascii_lowercase(), String::from_utf8_lossy(h.value).into_owned())).collect();
                }
            }
        }
        if t0.elapsed() > Duration::from_secs(20) {
            break;
        }
        let mut buf = [0u8; 16384];
        let n = {
            let mut r = Box::pin(sock.read(&mut buf));
            match door::until(&mut r, Duration::from_millis(if which.starts_with("rproxy") && head_len.is_some() { 300 } else { 1500 })).await {
                Some(Ok(n)) => n,
                _ => 0,
            }
        };
        if n == 0 {
            obs.ended = true;
            break;
        }
        use std::io::Read;
        let mut slice = &buf[..n];
        let mut failed = false;
        while !slice.is_empty() {
            // read_tls takes only what fits its buffer: feed the rest after processing
            if conn.read_tls(&mut slice).is_err() || conn.process_new_packets().is_err() {
                failed = true;
                break;
            }
            let mut tmp = [0u8; 16384];
            while let Ok(k) = conn.reader().read(&mut tmp) {
                if k == 0 {
                    break;
                }
                plain.extend_from_slice(&tmp[..k]);
            }
        }
        if failed {
            obs.ended = true; // close_notify / EOF surfaces as an error from the reader
            break;
        }
    }
    if let Some(h) = head_len {
        obs.body_len = plain.len() - h;
        obs.body_head = plain[h..].iter().take(32).cloned().collect();
    }
    drop(sock);
    let mut sj = Box::pin(server);
    let _ = door::until(&mut sj, Duration::from_secs(2)).await;
    door::spin(30).await;
    obs.connects = egress().into_iter().filter(|a| *a != addr.to_string()).collect();
    obs.error = Some(oaddr.to_string());
    Ok(obs)
}

fn judge(c: &Case, o: &Obs) -> Result<&'static str, Violation> {
    let case = json!({"case": c});
    let mk = |sig: String, what: String| Violation::new(sig, format!("{what}; case {c:?}; observed status {:?} body {} bytes ended {} error {:?} connects {:?}", o.status, o.body_len, o.ended, o.error, o.connects), case.clone());
    match c {
        Case::Ping { h2, method, marker, .. } => {
            let p = if *h2 { "h2" } else { "h1" };
            let is_ping = matches!(marker.as_str(), "x-ping-1" | "navigate");
            if !o.connects.is_empty() {
                return Err(mk(format!("C18:ping:egress:{marker}:{p}"), "a ping-marked or unauthenticated request caused an outbound connection".into()));
            }
            if is_ping {
                if o.status != Some(200) {
                    return Err(mk(format!("C18:ping:not-200:{marker}:{method}:{p}"), format!("a request bearing the ping marker was answered {:?}", o.status)));
                }
                if o.body_len != 0 {
                    return Err(mk(format!("C18:ping:body:{p}"), "ping answer has a body".into()));
                }
                Ok("ping-200")
            } else {
                if o.status == Some(200) && method != "CONNECT" {
                    return Err(mk(format!("C18:ping:unmarked-answered-200:{marker}:{p}"), "a request without the ping markers and without credentials was answered 200".into()));
                }
                Ok("not-ping")
            }
        }
        Case::Download { h2, n, pacing, .. } => {
            let p = if *h2 { "h2" } else { "h1" };
            let canonical: Option<usize> = n.parse::<usize>().ok().filter(|v| v.to_string() == *n && (1..=100).contains(v));
            let numeric: Option<usize> = n.trim_start_matches('+').parse::<usize>().ok().filter(|v| (1..=100).contains(v));
            if !o.connects.is_empty() {
                return Err(mk(format!("C18:speedtest:egress:{p}"), "a speedtest request caused an outbound connection".into()));
            }
            match canonical {
                Some(v) => {
                    if o.status != Some(200) {
                        return Err(mk(format!("C18:download:not-200:n={n}:{p}"), format!("GET /{n}mb.bin answered {:?}", o.status)));
                    }
                    if o.body_len != v * MIB || !o.ended {
                        let how = if o.body_len < v * MIB { "short" } else { "long" };
                        return Err(mk(format!("C18:download:wrong-size:{how}:{pacing}:{p}"), format!("download of {v} MiB delivered {} bytes (ended: {})", o.body_len, o.ended)));
                    }
                    Ok("download-exact")
                }
                None => {
                    match o.status {
                        Some(400) => Ok("download-400"),
                        Some(200) if numeric.map(|v| v * MIB == o.body_len).unwrap_or(false) => Ok("download-noncanonical-exact"),
                        other => Err(mk(format!("C18:download:bad-n-not-400:n={}:{p}", if n.len() > 6 { "huge" } else { n.as_str() }), format!("GET /{n}mb.bin answered {other:?} with {} bytes", o.body_len))),
                    }
                }
            }
        }
        Case::Upload { h2, length, body } => {
            let p = if *h2 { "h2" } else { "h1" };
            let l: Option<u64> = length.parse::<u64>().ok().filter(|v| v.to_string() == *length);
            let valid = l.map(|v| (1..=120 * MIB as u64).contains(&v)).unwrap_or(false);
            let h2_layer_refusal = *h2 && o.status.is_none() && o.error.is_some();
            if valid && (*body as u64) < l.unwrap() {
                // the client announced more than it sends: unconstrained
                Ok("upload-short-body-unconstrained")
            } else if valid && h2_layer_refusal && (*body as u64) > l.unwrap() {
                // HTTP/2 itself refuses a body longer than the declared length
                Ok("upload-h2-length-mismatch-reset")
            } else if valid {
                if o.status != Some(200) {
                    return Err(mk(format!("C18:upload:not-200:body-vs-length={}:{p}", (*body as u64).cmp(&l.unwrap()) as i8), format!("upload with Content-Length {length} and {body} body bytes answered {:?}", o.status)));
                }
                Ok("upload-200")
            } else if l == Some(0) {
                Ok("upload-zero-unconstrained")
            } else if h2_layer_refusal {
                // a malformed content-length is refused by the HTTP/2 layer (stream reset)
                Ok("upload-h2-malformed-length-reset")
            } else {
                if o.status != Some(400) {
                    return Err(mk(format!("C18:upload:bad-length-not-400:{}:{p}", if length.len() > 9 { "huge" } else { length.as_str() }), format!("upload with Content-Length {length} answered {:?}", o.status)));
                }
                Ok("upload-400")
            }
        }
        Case::LongTest { h2, upload } => {
            let p = if *h2 { "h2" } else { "h1" };
            let what = if *upload { "upload" } else { "download" };
            if o.status != Some(200) {
                return Err(mk(format!("C18:long-{what}:not-200:{p}"), format!("a speedtest {what} that outlasts the session's idle timer was answered {:?} ({:?})", o.status, o.error)));
            }
            if !*upload && (o.body_len != MIB || !o.ended) {
                return Err(mk(format!("C18:long-download:wrong-size:{p}"), format!("a slow 1 MiB download delivered {} bytes (ended: {})", o.body_len, o.ended)));
            }
            Ok("long-test-completes")
        }
        Case::OtherSpeed { h2, method, path } => {
            let p = if *h2 { "h2" } else { "h1" };
            if o.status != Some(400) {
                return Err(mk(format!("C18:speedtest:other-not-400:{method}:{p}"), format!("{method} {path} on the speedtest channel answered {:?}", o.status)));
            }
            Ok("speedtest-400")
        }
        Case::RproxyPrivateOrigin { allow_private, v6 } => {
            if o.status != Some(200) || o.body_head != b"ok" || o.origin_request.is_empty() {
                return Err(mk(format!("C18:rproxy:origin-not-contacted:private-origin:allow_private={allow_private}:v6={v6}"), format!("a reverse-proxy request to the configured private origin was answered {:?}; the origin saw {} request bytes", o.status, o.origin_request.len())));
            }
            Ok("proxied-to-private-origin")
        }
        Case::RproxySlowClient { h2, body } => {
            let p = if *h2 { "h2" } else { "h1" };
            if o.status != Some(200) {
                return Err(mk(format!("C18:rproxy:slow-client:status:{p}"), format!("the origin's 200 reached the client as {:?} ({:?})", o.status, o.error)));
            }
            let want: Vec<u8> = (0..(*body).min(32)).map(|i| b'a' + (i % 26) as u8).collect();
            if o.body_len != *body || o.body_head != want {
                return Err(mk(format!("C18:rproxy:slow-client:body-{}:{p}", if o.body_len < *body { "truncated" } else { "changed" }), format!("the origin sent {body} body bytes with the head, the client received {} ({:?}...)", o.body_len, String::from_utf8_lossy(&o.body_head))));
            }
            Ok("proxied-to-slow-client")
        }
        Case::Rproxy { path, upgrade, steer, allow_private, origin_v6 } => {
            let origin = o.error.clone().unwrap_or_default();
            let selected = *upgrade && path.starts_with("/app");
            let others: Vec<&String> = o.connects.iter().filter(|a| **a != origin).collect();
            if !others.is_empty() {
                return Err(mk(format!("C18:rproxy:steered:{steer}"), format!("outbound connection to {others:?}, the configured origin is {origin}")));
            }
            if !selected {
                if o.connects.iter().any(|a| *a == origin) {
                    return Err(mk("C18:rproxy:unselected-request-proxied".into(), "a request outside the reverse-proxy selection reached the origin".into()));
                }
                return Ok("not-proxied");
            }
            let req = String::from_utf8_lossy(&o.origin_request).to_string();
            if o.connects.is_empty() || req.is_empty() {
                return Err(mk(format!("C18:rproxy:origin-not-contacted:allow_private={allow_private}:v6={origin_v6}"), "the configured origin was not contacted".into()));
            }
            let lower = req.to_ascii_lowercase();
            if !req.starts_with(&format!("GET {path} HTTP/1.1\r\n")) || !lower.contains("x-original-protocol: http1") {
                return Err(mk("C18:rproxy:request-not-translated".into(), format!("origin received {req:?}")));
            }
            if lower.matches("x-original-protocol:").count() != 1 || lower.contains("spoofed") {
                return Err(mk("C18:rproxy:original-protocol-from-client".into(), format!("the origin must see one X-Original-Protocol field, the endpoint's; it received {req:?}")));
            }
            if o.status != Some(101) || !o.headers.iter().any(|(n, v)| n == "x-origin" && v == "yes") {
                return Err(mk("C18:rproxy:response-head-changed".into(), format!("client received status {:?} headers {:?}", o.status, o.headers)));
            }
            if o.body_head != b"\x01\x02raw-after-head" {
                return Err(mk("C18:rproxy:bytes-after-head-changed:to-client".into(), format!("client received {:?} after the head", String::from_utf8_lossy(&o.body_head))));
            }
            if !req.ends_with("|after-head:client-bytes") {
                return Err(mk("C18:rproxy:bytes-after-head-changed:to-origin".into(), format!("origin received {:?}", req)));
            }
            Ok("proxied")
        }
        Case::HostBased { which } => {
            let origin = o.error.clone().unwrap_or_default();
            match which.as_str() {
                "ping-host" => {
                    if o.status != Some(200) || o.body_len != 0 || !o.connects.is_empty() {
                        return Err(mk("C18:host:ping".into(), "a request on a ping host must be answered 200 with no body and no egress".into()));
                    }
                }
                "speedtest-host-1mb" | "speedtest-host-segment" => {
                    let want = if which.ends_with("1mb") { MIB } else { 2 * MIB };
                    if o.status != Some(200) || o.body_len != want || !o.connects.is_empty() {
                        return Err(mk(format!("C18:host:speedtest:{which}"), format!("download on a speedtest host must return exactly {want} bytes")));
                    }
                }
                _ => {
                    if o.connects.iter().any(|a| *a != origin) {
                        return Err(mk("C18:host:rproxy:steered".into(), "connection to something else than the configured origin".into()));
                    }
                    let lower = String::from_utf8_lossy(&o.origin_request).to_ascii_lowercase();
                    if o.status != Some(200) || !lower.contains("x-original-protocol: http1") || o.body_head != b"ok" {
                        return Err(mk(format!("C18:host:rproxy:not-served:{which}"), format!("a request on a reverse-proxy host was not proxied to the configured loopback origin (origin saw {lower:?})")));
                    }
                }
            }
            Ok("host-based-ok")
        }
    }
}

fn cases(tier: Tier) -> Vec<Case> {
    let mut v = vec![];
    for h2 in [false, true] {
        for method in ["GET", "POST", "HEAD", "OPTIONS"] {
            for marker in ["x-ping-1", "x-ping-2", "navigate", "none"] {
                for with_creds in [false, true] {
                    if with_creds && marker != "x-ping-1" {
                        continue;
                    }
                    v.push(Case::Ping { h2, method: method.into(), marker: marker.into(), with_creds });
                }
            }
        }
        let mut ns = vec!["0", "1", "2", "101", "4095", "4096", "4097", "8193", "4294967296", "4294967297", "+5", "05", "1.5", "", "-1", "1e1"];
        if tier == Tier::Thorough {
            ns.push("99");
            ns.push("100");
        }
        for n in ns {
            v.push(Case::Download { h2, n: n.into(), segment: true, pacing: "prompt".into() });
        }
        for n in ["1", "2"] {
            v.push(Case::Download { h2, n: n.into(), segment: true, pacing: "slow".into() });
        }
        for (length, bodies) in [("absent", vec![0usize]), ("0", vec![0]), ("1", vec![0, 1, 2]), ("5", vec![3, 5, 9]), ("125829120", vec![7]), ("125829121", vec![0]), ("4294967296", vec![0]), ("4294967297", vec![0, 1]), ("4294967301", vec![5]), ("8589934593", vec![1]), ("18446744073709551617", vec![1]), ("x", vec![0]), ("-1", vec![0]), ("1.0", vec![0])] {
            for b in bodies {
                v.push(Case::Upload { h2, length: length.into(), body: b });
            }
        }
        if tier == Tier::Thorough {
            v.push(Case::Upload { h2, length: "125829120".into(), body: 125829120 });
        }
        for (m, p) in [("PUT", "/speed/upload.html"), ("POST", "/speed/other.html"), ("GET", "/speed/1mb.bim"), ("GET", "/speed/mb.bin"), ("DELETE", "/speed/1mb.bin"), ("POST", "/speed/1mb.bin")] {
            v.push(Case::OtherSpeed { h2, method: m.into(), path: p.into() });
        }
    }
    for origin_v6 in [false, true] {
        for allow_private in [false, true] {
            for (path, upgrade) in [("/app/x", true), ("/app", true), ("/app/x", false), ("/other", true), ("/ap", true)] {
                for steer in ["none", "absolute-uri", "host-header", "slow-client", "own-original-protocol"] {
                    v.push(Case::Rproxy { origin_v6, allow_private, path: path.into(), upgrade, steer: steer.into() });
                }
            }
        }
    }
    for w in ["ping-host", "speedtest-host-1mb", "speedtest-host-segment", "rproxy-host", "rproxy-host-private-allowed"] {
        v.push(Case::HostBased { which: w.into() });
    }
    for h2 in [false, true] {
        for upload in [false, true] {
            v.push(Case::LongTest { h2, upload });
        }
    }
    // (reverse-proxy hosts are never served over HTTP/2: the TLS demultiplexer offers them HTTP/1.1 and HTTP/3 only)
    for allow_private in [false, true] {
        for v6 in [false, true] {
            v.push(Case::RproxyPrivateOrigin { allow_private, v6 });
        }
    }
    for body in [1usize, 26, 300, 70_000, 600_000] {
        v.push(Case::RproxySlowClient { h2: false, body });
    }
    v
}

pub fn run(tier: Tier) -> i32 {
    crate::engine::watch::start("C18", tier.name(), Duration::from_secs(300), crate::engine::watch::OnExpiry::Machinery);
    let mut rep = Report::new("C18", tier, "exploration");
    let cs = cases(tier);
    let r = sweep_dyn(cs.len() as u64, 1, Duration::from_secs(tier.pick(55, 1500)), rt::workers(), |i| {
        let c = &cs[i as usize];
        let _g = crate::engine::watch::enter("C18:wedged".into(), json!({"case": c}).to_string());
        let o = if matches!(c, Case::LongTest { .. }) { rt::run_paused(run_case(c)) } else { rt::run_real(run_case(c)) }.map_err(|e| Violation::new("C18:machinery", e, json!({"case": c})))?;
        judge(c, &o).map(|k| {
            Cow::Owned(format!("{k}:{}", match c {
                Case::Ping { h2, marker, .. } => format!("ping:{h2}:{marker}"),
                Case::Download { h2, pacing, .. } => format!("dl:{h2}:{pacing}"),
                Case::Upload { h2, .. } => format!("ul:{h2}"),
                Case::OtherSpeed { h2, .. } => format!("other:{h2}"),
                Case::Rproxy { upgrade, steer, .. } => format!("rp:{upgrade}:{steer}"),
                Case::HostBased { which } => which.clone(),
                Case::LongTest { upload, .. } => format!("long:{upload}"),
                Case::RproxySlowClient { h2, .. } => format!("rp-slow:{h2}"),
                Case::RproxyPrivateOrigin { allow_private, .. } => format!("rp-private:{allow_private}"),
            }))
        })
    });
    rep.add("evaluations", r.evaluations);
    rep.add("distinct_nontrivial", r.classes.len() as u64);
    rep.violations(r.violations);
    rep.cov("exhaustive", r.completed);
    rep.cov("rule", format!("{} sessions: ping (4 methods x 4 markers x credentials) ; speedtest downloads /Nmb.bin for N in {{0,1,2,(99,100),101,2^32,+5,05,1.5,'',-1,1e1}} with prompt and back-pressured clients, uploads with Content-Length in {{absent,0,1,5,120MiB,120MiB+1,2^32,x,-1,1.0}} and bodies shorter/equal/longer, other methods/paths; reverse proxy {{IPv4,IPv6 loopback origin}} x {{policy on,off}} x 5 path/upgrade selections x 3 steering attempts + a client-supplied X-Original-Protocol; 5 host-selected scenarios over real TLS; each over HTTP/1.1 and HTTP/2 where the channel permits", cs.len()));
    rep.sample(json!({"case": cs[3]}));
    rep.assume("HTTP/3 variants are not driven; the 100 MiB download and 120 MiB upload run in the thorough tier only");
    super::cq::c18_into(&mut rep, tier);
    super::cq::c18_services_into(&mut rep);
    rep.finish()
}

pub fn replay(case: &serde_json::Value) -> Result<(), Violation> {
    let c: Case = serde_json::from_value(case["case"].clone()).map_err(|_| Violation::new("C18:machinery", "bad replay file", json!({})))?;
    let o = if matches!(c, Case::LongTest { .. }) { rt::run_paused(run_case(&c)) } else { rt::run_real(run_case(&c)) }.map_err(|e| Violation::new("C18:machinery", e, json!({})))?;
    judge(&c, &o).map(|_| ())
}
