//! C16 — metrics equal the live objects and relayed bytes, and are exported.
//!
//! Explicit-state search over histories of session / tunnel / UDP-flow operations on ONE real
//! context through the real accept path (HTTP/1.1 and HTTP/2 sessions, real DirectForwarder, real
//! loopback peers). After every operation the live series (read from the gauges/counters
//! themselves) are compared with reference counters; at the end of every history the same series
//! must be what `Metrics::collect` renders and what `GET /metrics` on the metrics handler returns,
//! and `/health-check` answers 200.

use super::common::{make_world, Cfg, World};
use super::door::{self, H1Client, H2Client, H2Outcome, H2Stream, ReqSpec};
use crate::engine::explore::{bfs, hash_of, HistOutcome, HistoryModel};
use crate::engine::report::{Report, Tier, Violation};
use crate::engine::rt;
use serde_json::json;
use std::collections::BTreeMap;
use std::net::SocketAddr;
use std::time::Duration;
use tokio::io::{AsyncReadExt, AsyncWriteExt};
use trusttunnel::verif_hooks::{self as vh, VProtocol};

#[derive(Clone, Debug, PartialEq, Eq, serde::Serialize, serde::Deserialize)]
pub enum Op {
    OpenH1,
    OpenH2,
    /// CONNECT to the peer on the newest session able to take a request
    Connect,
    /// CONNECT to a closed port (ECONNREFUSED)
    ConnectRefused,
    Up,
    Down,
    /// the client ends the upload of the oldest HTTP/2 tunnel (half-close); the connection stays
    HalfCloseUpload,
    /// the client ends the oldest tunnel (H1: closes the connection; H2: resets the stream)
    CloseTunnelByClient,
    /// the peer closes the oldest tunnel's connection, the client then ends its side
    CloseTunnelByPeer,
    /// the client drops the oldest session's connection
    CloseSession,
    /// CONNECT _udp2 on the newest HTTP/2 session
    OpenUdp,
    /// a datagram on a new flow / on the last flow
    DgramNewFlow,
    DgramSameFlow,
    CloseUdp,
}

enum Client {
    H1(H1Client),
    H2(H2Client),
}

struct Tun {
    sess: usize,
    h2: Option<H2Stream>,
    peer: tokio::net::TcpStream,
    half_closed: bool,
}

struct Sess {
    client: Client,
    task: tokio::task::JoinHandle<std::io::Result<()>>,
    /// an HTTP/1.1 session carries one request
    used: bool,
}

struct UdpMux {
    sess: usize,
    stream: H2Stream,
    flows: u32,
    peer: std::net::UdpSocket,
}

#[derive(Default, Clone, Debug, PartialEq, Eq, Hash)]
struct Model {
    sessions: BTreeMap<&'static str, i64>,
    tcp: i64,
    udp: i64,
    up: BTreeMap<&'static str, u64>,
    down: BTreeMap<&'static str, u64>,
}

fn label(h2: bool) -> &'static str {
    if h2 { "HTTP2" } else { "HTTP1" }
}

struct Sys {
    world: World,
    listener: tokio::net::TcpListener,
    peer_addr: SocketAddr,
    closed_port: SocketAddr,
    sessions: Vec<Option<Sess>>,
    tunnels: Vec<Option<Tun>>,
    udp: Option<UdpMux>,
    model: Model,
}

async fn settle() {
    door::spin(150).await;
}

const WALL: Duration = Duration::from_secs(5);

impl Sys {
    async fn new() -> Result<Self, String> {
        let world = make_world(&Cfg { metrics: true, ..Cfg::default() })?;
        // one listening port per worker thread for all histories: a gracefully closed tunnel leaves a
        // TIME_WAIT entry on the listener's port, and a fresh port per history would use up the range
        thread_local! {
            static PEER_LISTENER: std::net::TcpListener = {
                let l = std::net::TcpListener::bind("127.0.0.1:0").expect("bind peer listener");
                l.set_nonblocking(true).expect("nonblocking");
                l
            };
        }
        let std_l = PEER_LISTENER.with(|l| l.try_clone()).map_err(|e| e.to_string())?;
        // connections a previous history left in the backlog
        while std_l.accept().is_ok() {}
        let listener = tokio::net::TcpListener::from_std(std_l).map_err(|e| e.to_string())?;
        let peer_addr = listener.local_addr().unwrap();
        // a destination that refuses connections: answered by the interposer (a bound-then-dropped
        // port could be reused by another worker thread's listener)
        fn refuse(_a: &SocketAddr, _t: i32) -> crate::engine::sys::ConnectAnswer {
            crate::engine::sys::ConnectAnswer::Errno(libc::ECONNREFUSED)
        }
        crate::engine::sys::script_connect(Some(refuse));
        let closed_port: SocketAddr = "93.184.216.34:81".parse().unwrap();
        Ok(Self { world, listener, peer_addr, closed_port, sessions: vec![], tunnels: vec![], udp: None, model: Model::default() })
    }

    fn open_tunnels_of(&self, s: usize) -> usize {
        self.tunnels.iter().flatten().filter(|t| t.sess == s).count()
    }

    /// Ok(false) = operation not applicable in this state
    async fn apply(&mut self, op: &Op) -> Result<bool, String> {
        let peer: SocketAddr = "198.51.100.7:40000".parse().unwrap();
        match op {
            Op::OpenH1 | Op::OpenH2 => {
                if self.sessions.iter().flatten().count() >= 2 {
                    return Ok(false);
                }
                let h2 = *op == Op::OpenH2;
                let (io, d) = door::open(&self.world.ctx, if h2 { VProtocol::Http2 } else { VProtocol::Http1 }, "m.t", None, peer, 1 << 16);
                let client = if h2 { Client::H2(H2Client::connect(io).await?) } else { Client::H1(H1Client::new(io)) };
                self.sessions.push(Some(Sess { client, task: d.task, used: false }));
                settle().await;
                *self.model.sessions.entry(label(h2)).or_default() += 1;
                Ok(true)
            }
            Op::Connect | Op::ConnectRefused => {
                let refused = *op == Op::ConnectRefused;
                let Some(si) = (0..self.sessions.len()).rev().find(|i| self.sessions[*i].as_ref().map(|s| !s.used).unwrap_or(false)) else {
                    return Ok(false);
                };
                if self.tunnels.iter().flatten().count() >= 2 {
                    return Ok(false);
                }
                let target = if refused { self.closed_port } else { self.peer_addr };
                let spec = ReqSpec::connect(&target.to_string());
                let sess = self.sessions[si].as_mut().unwrap();
                let mut h2stream = None;
                let status = match &mut sess.client {
                    Client::H1(cl) => {
                        sess.used = true;
                        cl.send(&spec.h1_bytes()).await;
                        cl.response(WALL).await.map(|r| r.status)
                    }
                    Client::H2(cl) => {
                        let mut st = cl.request(spec.h2_request()?, false).await?;
                        let s = match st.response(WALL).await {
                            H2Outcome::Response(r) => Some(r.status),
                            _ => None,
                        };
                        h2stream = Some(st);
                        s
                    }
                };
                let is_h2 = matches!(sess.client, Client::H2(_));
                if refused {
                    if status != Some(502) {
                        return Err(format!("refused connect answered {status:?}"));
                    }
                    settle().await;
                    if !is_h2 {
                        // Connection: close - the HTTP/1.1 session is over
                        self.end_session(si).await;
                    }
                    return Ok(true);
                }
                if status != Some(200) {
                    return Err(format!("connect answered {status:?}"));
                }
                let mut acc = Box::pin(self.listener.accept());
                let Some(Ok((p, _))) = door::until(&mut acc, WALL).await else {
                    return Err("peer did not see the connection".into());
                };
                drop(acc);
                let _ = p.set_linger(Some(Duration::ZERO));
                self.tunnels.push(Some(Tun { sess: si, h2: h2stream, peer: p, half_closed: false }));
                settle().await;
                self.model.tcp += 1;
                Ok(true)
            }
            Op::HalfCloseUpload => {
                let Some(ti) = (0..self.tunnels.len()).find(|i| self.tunnels[*i].as_ref().map(|t| t.h2.is_some() && !t.half_closed).unwrap_or(false)) else {
                    return Ok(false);
                };
                let t = self.tunnels[ti].as_mut().unwrap();
                t.h2.as_mut().unwrap().tx.send_data(bytes::Bytes::new(), true).map_err(|e| e.to_string())?;
                t.half_closed = true;
                // the peer sees the end of the upload; the connection is still there for the download
                let mut buf = [0u8; 16];
                let mut r = Box::pin(t.peer.read(&mut buf));
                match door::until(&mut r, WALL).await {
                    Some(Ok(0)) => {}
                    other => return Err(format!("the peer did not see the end of the upload: {other:?}")),
                }
                drop(r);
                settle().await;
                Ok(true)
            }
            Op::Up | Op::Down => {
                let Some(ti) = (0..self.tunnels.len()).find(|i| self.tunnels[*i].is_some()) else {
                    return Ok(false);
                };
                if *op == Op::Up && self.tunnels[ti].as_ref().unwrap().half_closed {
                    return Ok(false);
                }
                let t = self.tunnels[ti].as_mut().unwrap();
                let si = t.sess;
                let is_h2 = t.h2.is_some();
                if *op == Op::Up {
                    let data = b"upl";
                    match (&mut self.sessions[si].as_mut().unwrap().client, t.h2.as_mut()) {
                        (Client::H1(cl), _) => {
                            cl.send(data).await;
                        }
                        (_, Some(st)) => {
                            st.tx.send_data(bytes::Bytes::from_static(data), false).map_err(|e| e.to_string())?;
                        }
                        _ => unreachable!(),
                    }
                    let mut buf = [0u8; 16];
                    let mut got = 0;
                    let t0 = std::time::Instant::now();
                    while got < data.len() && t0.elapsed() < WALL {
                        let mut r = Box::pin(t.peer.read(&mut buf));
                        if let Some(Ok(n)) = door::until(&mut r, Duration::from_secs(1)).await {
                            got += n;
                            if n == 0 {
                                break;
                            }
                        }
                    }
                    if got != data.len() {
                        return Err(format!("peer received {got} of {} uploaded bytes", data.len()));
                    }
                    settle().await;
                    *self.model.up.entry(label(is_h2)).or_default() += data.len() as u64;
                } else {
                    let data = b"downl";
                    {
                        let mut w = Box::pin(t.peer.write_all(data));
                        door::until(&mut w, WALL).await;
                    }
                    let mut got = 0;
                    let t0 = std::time::Instant::now();
                    while got < data.len() && t0.elapsed() < WALL {
                        match (&mut self.sessions[si].as_mut().unwrap().client, t.h2.as_mut()) {
                            (Client::H1(cl), _) => {
                                cl.pump(30).await;
                                got = cl.inbuf.len();
                            }
                            (_, Some(st)) => {
                                let (b, _, _) = st.body(30).await;
                                got += b.len();
                            }
                            _ => unreachable!(),
                        }
                    }
                    if let Client::H1(cl) = &mut self.sessions[si].as_mut().unwrap().client {
                        cl.inbuf.clear();
                    }
                    if got != data.len() {
                        return Err(format!("client received {got} of {} downloaded bytes", data.len()));
                    }
                    settle().await;
                    *self.model.down.entry(label(is_h2)).or_default() += data.len() as u64;
                }
                Ok(true)
            }
            Op::CloseTunnelByClient | Op::CloseTunnelByPeer => {
                let Some(ti) = (0..self.tunnels.len()).find(|i| self.tunnels[*i].is_some()) else {
                    return Ok(false);
                };
                let t = self.tunnels[ti].take().unwrap();
                let si = t.sess;
                let by_peer = *op == Op::CloseTunnelByPeer;
                let Tun { h2, peer, .. } = t;
                if by_peer {
                    // graceful: FIN first (the later drop resets, leaving no TIME_WAIT behind)
                    let mut peer = peer;
                    {
                        let mut sd = Box::pin(peer.shutdown());
                        door::until(&mut sd, WALL).await;
                    }
                    settle().await;
                    drop(h2);
                    settle().await;
                    drop(peer);
                } else {
                    drop(h2);
                    settle().await;
                    drop(peer);
                }
                let is_h1 = matches!(self.sessions[si].as_ref().map(|s| &s.client), Some(Client::H1(_)));
                if is_h1 {
                    // the HTTP/1.1 connection is the tunnel
                    self.end_session(si).await;
                }
                settle().await;
                self.model.tcp -= 1;
                Ok(true)
            }
            Op::CloseSession => {
                let Some(si) = (0..self.sessions.len()).find(|i| self.sessions[*i].is_some()) else {
                    return Ok(false);
                };
                // its tunnels and UDP multiplexer go with it
                let mut closed_tcp = 0;
                for t in self.tunnels.iter_mut() {
                    if t.as_ref().map(|t| t.sess == si).unwrap_or(false) {
                        *t = None;
                        closed_tcp += 1;
                    }
                }
                if self.udp.as_ref().map(|u| u.sess == si).unwrap_or(false) {
                    self.udp = None;
                    self.model.udp = 0;
                }
                self.end_session(si).await;
                settle().await;
                self.model.tcp -= closed_tcp;
                Ok(true)
            }
            Op::OpenUdp => {
                if self.udp.is_some() {
                    return Ok(false);
                }
                let Some(si) = (0..self.sessions.len()).rev().find(|i| matches!(self.sessions[*i].as_ref().map(|s| &s.client), Some(Client::H2(_)))) else {
                    return Ok(false);
                };
                let Some(Sess { client: Client::H2(cl), .. }) = self.sessions[si].as_mut() else { unreachable!() };
                let mut st = cl.request(ReqSpec::connect("_udp2").h2_request()?, false).await?;
                match st.response(WALL).await {
                    H2Outcome::Response(r) if r.status == 200 => {}
                    other => return Err(format!("_udp2 answered {other:?}")),
                }
                let peer = std::net::UdpSocket::bind("127.0.0.1:0").map_err(|e| e.to_string())?;
                peer.set_nonblocking(true).ok();
                self.udp = Some(UdpMux { sess: si, stream: st, flows: 0, peer });
                settle().await;
                Ok(true)
            }
            Op::DgramNewFlow | Op::DgramSameFlow => {
                let Some(u) = self.udp.as_mut() else { return Ok(false) };
                let new = *op == Op::DgramNewFlow;
                if !new && u.flows == 0 || new && u.flows >= 3 {
                    return Ok(false);
                }
                if new {
                    u.flows += 1;
                }
                let src: SocketAddr = format!("10.0.0.1:{}", 1000 + u.flows).parse().unwrap();
                let dst = u.peer.local_addr().unwrap();
                let payload = b"dgram!";
                let rec = super::c06::build_record(src, dst, b"app", payload);
                u.stream.tx.send_data(bytes::Bytes::from(rec), false).map_err(|e| e.to_string())?;
                let t0 = std::time::Instant::now();
                let mut got = false;
                let mut buf = [0u8; 64];
                while t0.elapsed() < WALL {
                    door::spin(20).await;
                    if let Ok((n, _)) = u.peer.recv_from(&mut buf) {
                        got = n == payload.len();
                        break;
                    }
                }
                if !got {
                    return Err("UDP peer did not receive the datagram".into());
                }
                settle().await;
                if new {
                    self.model.udp += 1;
                }
                *self.model.up.entry("HTTP2").or_default() += payload.len() as u64;
                Ok(true)
            }
            Op::CloseUdp => {
                let Some(u) = self.udp.take() else { return Ok(false) };
                drop(u);
                settle().await;
                self.model.udp = 0;
                Ok(true)
            }
        }
    }

    async fn end_session(&mut self, si: usize) {
        if let Some(s) = self.sessions[si].take() {
            let h2 = matches!(s.client, Client::H2(_));
            let Sess { client, mut task, .. } = s;
            drop(client);
            let mut f = Box::pin(&mut task);
            if door::until(&mut f, WALL).await.is_none() {
                task.abort();
            }
            *self.model.sessions.entry(label(h2)).or_default() -= 1;
        }
    }

    fn compare(&self, hist: &[Op], step: usize) -> Result<(), Violation> {
        let snap = vh::metrics_snapshot(&self.world.ctx);
        let op = &hist[step];
        let fail = |series: &str, what: String| Violation::new(format!("C16:{series}:after-{op:?}"), format!("step {step} of {hist:?}: {what}"), json!({"history": hist}));
        for (l, v) in &snap.client_sessions {
            let want = self.model.sessions.get(l.as_str()).copied().unwrap_or(0);
            if *v != want {
                return Err(fail("client_sessions", format!("client_sessions{{{l}}} = {v}, live sessions = {want}")));
            }
        }
        if snap.outbound_tcp_sockets != self.model.tcp {
            return Err(fail("outbound_tcp_sockets", format!("outbound_tcp_sockets = {}, live outbound TCP connections = {}", snap.outbound_tcp_sockets, self.model.tcp)));
        }
        if snap.outbound_udp_sockets != self.model.udp {
            return Err(fail("outbound_udp_sockets", format!("outbound_udp_sockets = {}, live UDP flows = {}", snap.outbound_udp_sockets, self.model.udp)));
        }
        for (l, v) in &snap.inbound_traffic_bytes {
            let want = self.model.up.get(l.as_str()).copied().unwrap_or(0);
            if *v != want {
                return Err(fail("inbound_traffic_bytes", format!("inbound_traffic_bytes{{{l}}} = {v}, bytes uploaded by clients = {want} (downloaded: {})", self.model.down.get(l.as_str()).copied().unwrap_or(0))));
            }
        }
        for (l, v) in &snap.outbound_traffic_bytes {
            let want = self.model.down.get(l.as_str()).copied().unwrap_or(0);
            if *v != want {
                return Err(fail("outbound_traffic_bytes", format!("outbound_traffic_bytes{{{l}}} = {v}, bytes downloaded by clients = {want}")));
            }
        }
        Ok(())
    }

    /// the exported text must carry the same series under the documented names and labels
    async fn check_export(&self, hist: &[Op]) -> Result<(), Violation> {
        let fail = |sig: &str, what: String| Violation::new(format!("C16:export:{sig}"), format!("{what}; history {hist:?}"), json!({"history": hist}));
        let text = vh::metrics_collect(&self.world.ctx);
        let value = |text: &str, name: &str, lbl: Option<&str>| -> Option<f64> {
            text.lines().filter(|l| !l.starts_with('#')).find_map(|l| {
                let (k, v) = l.rsplit_once(' ')?;
                let (n, labels) = match k.split_once('{') {
                    Some((n, rest)) => (n, Some(rest.trim_end_matches('}'))),
                    None => (k, None),
                };
                if n != name {
                    return None;
                }
                match (lbl, labels) {
                    (None, None) => v.parse().ok(),
                    (Some(want), Some(have)) => {
                        let (ln, lv) = have.split_once('=')?;
                        (ln == "protocol_type" && lv.trim_matches('"').eq_ignore_ascii_case(want)).then(|| v.parse().ok()).flatten()
                    }
                    _ => None,
                }
            })
        };
        let snap = vh::metrics_snapshot(&self.world.ctx);
        for (name, want) in [("outbound_tcp_sockets", snap.outbound_tcp_sockets as f64), ("outbound_udp_sockets", snap.outbound_udp_sockets as f64)] {
            if value(&text, name, None) != Some(want) {
                return Err(fail(&format!("series-missing-or-wrong:{name}"), format!("{name} is {:?} in the exported text, live value {want}", value(&text, name, None))));
            }
        }
        for (l, v) in &snap.client_sessions {
            if *v != 0 && value(&text, "client_sessions", Some(l)) != Some(*v as f64) {
                return Err(fail("series-missing-or-wrong:client_sessions", format!("client_sessions{{protocol_type={l}}} is {:?} in the exported text, live value {v}", value(&text, "client_sessions", Some(l)))));
            }
        }
        for (name, vals) in [("inbound_traffic_bytes", &snap.inbound_traffic_bytes), ("outbound_traffic_bytes", &snap.outbound_traffic_bytes)] {
            for (l, v) in vals {
                if *v != 0 && value(&text, name, Some(l)) != Some(*v as f64) {
                    return Err(fail(&format!("series-missing-or-wrong:{name}"), format!("{name}{{protocol_type={l}}} is {:?} in the exported text, live value {v}", value(&text, name, Some(l)))));
                }
            }
        }
        // over the wire: GET /metrics and /health-check through the metrics request handler
        // (every history up to length 3, every fourth longer one: real sockets are a finite resource)
        // (and every 16th beyond length 6: the handler closes first, each exchange leaves a TIME_WAIT entry)
        let h = hash_of(&format!("{hist:?}"));
        if (hist.len() > 3 && h % 4 != 0) || (hist.len() > 6 && h % 16 != 0) {
            return Ok(());
        }
        let l = std::sync::Arc::new(tokio::net::TcpListener::bind("127.0.0.1:0").await.map_err(|e| fail("machinery", e.to_string()))?);
        let addr = l.local_addr().unwrap();
        for (path, want_status) in [("/metrics", 200u16), ("/health-check", 200), ("/other", 400)] {
            let ctx = self.world.ctx.clone();
            let l2 = l.clone();
            let srv = tokio::spawn(async move {
                if let Ok((s, _)) = l2.accept().await {
                    vh::metrics_handle_request(&ctx, s).await;
                }
            });
            let mut c = Box::pin(tokio::net::TcpStream::connect(addr));
            let Some(Ok(mut s)) = door::until(&mut c, WALL).await else { return Err(fail("machinery", "connect".into())) };
            drop(c);
            let _ = s.set_linger(Some(Duration::ZERO));
            {
                let req = format!("GET {path} HTTP/1.1\r\nHost: x\r\n\r\n");
                let mut w = Box::pin(s.write_all(req.as_bytes()));
                door::until(&mut w, WALL).await;
            }
            let mut buf = Vec::new();
            let t0 = std::time::Instant::now();
            loop {
                let mut tmp = [0u8; 4096];
                let mut r = Box::pin(s.read(&mut tmp));
                match door::until(&mut r, Duration::from_secs(2)).await {
                    Some(Ok(0)) | Some(Err(_)) | None => break,
                    Some(Ok(n)) => buf.extend_from_slice(&tmp[..n]),
                }
                if t0.elapsed() > WALL {
                    break;
                }
            }
            srv.abort();
            let head = String::from_utf8_lossy(&buf).into_owned();
            let status: Option<u16> = head.split(' ').nth(1).and_then(|s| s.parse().ok());
            if status != Some(want_status) {
                return Err(fail(&format!("http:{path}:status"), format!("GET {path} answered {status:?}, expected {want_status}")));
            }
            if path == "/metrics" {
                let body = head.split_once("\r\n\r\n").map(|x| x.1).unwrap_or("");
                if value(body, "outbound_tcp_sockets", None).is_none() || value(body, "outbound_udp_sockets", None).is_none() {
                    return Err(fail("http:/metrics:series-missing", "GET /metrics does not return the documented series".into()));
                }
            }
        }
        Ok(())
    }
}

async fn run_history(hist: &[Op]) -> Result<HistOutcome, Violation> {
    let mut sys = Sys::new().await.map_err(|e| Violation::new("C16:machinery", e, json!({})))?;
    for (step, op) in hist.iter().enumerate() {
        match sys.apply(op).await {
            Ok(true) => {}
            Ok(false) => return Ok(HistOutcome { canon: 0, extend: false }),
            Err(e) => {
                return Err(Violation::new(format!("C16:operation-failed:{op:?}"), format!("step {step} of {hist:?}: {e}"), json!({"history": hist})));
            }
        }
        sys.compare(hist, step)?;
        if step == 0 {
            // an earlier scrape must not influence what a later one reports
            let _ = vh::metrics_collect(&sys.world.ctx);
        }
    }
    // fingerprint of the state reached: reference counters + which sessions / tunnels / flows are
    // alive and in which slots (operations address "oldest"/"newest")
    let shape = (
        sys.model.clone(),
        sys.sessions.iter().map(|s| s.as_ref().map(|s| (matches!(s.client, Client::H2(_)), s.used))).collect::<Vec<_>>(),
        sys.tunnels.iter().map(|t| t.as_ref().map(|t| (t.sess, t.half_closed))).collect::<Vec<_>>(),
        sys.udp.as_ref().map(|u| (u.sess, u.flows)),
    );
    sys.check_export(hist).await?;
    // everything goes away with the clients: all gauges return to zero
    let live: Vec<usize> = (0..sys.sessions.len()).filter(|i| sys.sessions[*i].is_some()).collect();
    sys.tunnels.clear();
    sys.udp = None;
    for si in live {
        sys.end_session(si).await;
    }
    settle().await;
    let snap = vh::metrics_snapshot(&sys.world.ctx);
    if snap.outbound_tcp_sockets != 0 || snap.outbound_udp_sockets != 0 || snap.client_sessions.iter().any(|(_, v)| *v != 0) {
        return Err(Violation::new("C16:gauges-not-zero-after-all-clients-left", format!("after every client left: {snap:?}; history {hist:?}"), json!({"history": hist})));
    }
    Ok(HistOutcome { canon: hash_of(&shape), extend: true })
}

struct M;
impl HistoryModel for M {
    type Op = Op;
    fn ops(&self) -> Vec<Op> {
        vec![Op::OpenH1, Op::OpenH2, Op::Connect, Op::ConnectRefused, Op::Up, Op::Down, Op::HalfCloseUpload, Op::CloseTunnelByClient, Op::CloseTunnelByPeer, Op::CloseSession, Op::OpenUdp, Op::DgramNewFlow, Op::DgramSameFlow, Op::CloseUdp]
    }
    fn run(&self, hist: &[Op]) -> Result<HistOutcome, Violation> {
        let _g = crate::engine::watch::enter("C16:wedged".into(), json!({"history": hist}).to_string());
        rt::run_paused(run_history(hist))
    }
}

pub fn run(tier: Tier) -> i32 {
    crate::engine::watch::start("C16", tier.name(), Duration::from_secs(120), crate::engine::watch::OnExpiry::Machinery);
    let mut rep = Report::new("C16", tier, "model_checking");
    let depth = tier.pick(6usize, 11usize);
    let (st, viol, samples) = bfs(&M, depth, Duration::from_secs(tier.pick(50, 1500)), rt::workers(), &|| {});
    let mut viol = viol;
    viol.sort_by_key(|(h, _)| h.len());
    for (_, v) in viol {
        rep.violation(v);
    }
    rep.cov("states", st.states);
    rep.cov("transitions", st.transitions);
    rep.cov("traces_validated_against_impl", st.transitions);
    rep.cov("max_depth_completed", st.max_depth_completed);
    rep.cov("per_depth_new_states", json!(st.per_depth_states));
    rep.cov("capped", st.capped);
    rep.cov("exhaustive", !st.capped);
    for s in samples.into_iter().take(4) {
        rep.sample(json!({"history": s}));
    }
    rep.cov("explanation", format!("breadth-first search over histories (depth <= {depth}) of 13 operations on one real context; every transition re-executes the whole history through the real accept path; after each operation the live series are compared with reference counters, at the end of each history with Metrics::collect and GET /metrics, /health-check over a loopback socket, and all gauges must return to zero when the clients are gone"));
    rep.assume("label values are compared case-insensitively (METRICS.md fixes names and labels); a connection attempt in progress is not judged; HTTP/3 sessions are not driven");
    if st.states < 5 && rep.n_violations() == 0 {
        eprintln!("MACHINERY: vacuous search");
        return 2;
    }
    super::cq::c16_into(&mut rep);
    rep.finish()
}

pub fn replay(case: &serde_json::Value) -> Result<(), Violation> {
    let hist: Vec<Op> = serde_json::from_value(case["history"].clone()).map_err(|_| Violation::new("C16:machinery", "bad replay file", json!({})))?;
    rt::run_paused(run_history(&hist)).map(|_| ())
}
