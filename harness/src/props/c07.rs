//! C07 — UDP flows: correct routing, isolation, expiry and bounded sockets.
//!
//! Explicit-state search over operation histories on the real `udp_pipe::DuplexPipe` wired to the
//! real direct-forwarder multiplexer, with real loopback UDP peers owned by the harness and a
//! paused clock. After every operation: peers got exactly the datagrams addressed to them, the
//! client got each reply labelled with the flow's addresses, the `outbound_udp_sockets` gauge
//! equals the number of live flows of a reference model, and the multiplexer is still running.

use super::common::{make_world, Cfg};
use crate::engine::explore::{bfs, hash_of, HistOutcome, HistoryModel};
use crate::engine::report::{Report, Tier, Violation};
use crate::engine::rt;
use async_trait::async_trait;
use serde_json::json;
use std::collections::{BTreeMap, BTreeSet, VecDeque};
use std::net::{IpAddr, Ipv4Addr, SocketAddr, UdpSocket};
use std::sync::atomic::{AtomicU32, Ordering};
use std::sync::{Arc, Mutex};
use std::time::Duration;
use trusttunnel::verif_hooks::{self as vh, VUdpIn, VUdpOut, VUdpSink, VUdpSource};

const T_MS: u64 = 1000;
const STEP_MS: u64 = T_MS / 4 + 1;

#[derive(Clone, Debug, PartialEq, Eq, serde::Serialize, serde::Deserialize)]
pub enum Op {
    /// client datagram on flow 0..=3 (3 = the port-53 flow)
    Send(u8),
    /// peer of flow i answers
    Reply(u8),
    /// peer answers on the socket of a flow that has expired
    LateReply(u8),
    /// somebody who is not the flow's destination sends a datagram to the flow's outbound socket
    Foreign(u8),
    Tick,
    /// destination that cannot be connected (255.255.255.255:9 -> EACCES)
    SendUnconnectable,
    /// two datagrams back to back to a closed port (the second send meets ECONNREFUSED)
    BurstClosedPort,
    /// peer of flow i answers while the client's stream has no room: the datagram is dropped
    ReplyRefused(u8),
    /// socket error on a live flow: its peer goes away, a client datagram meets the closed port
    /// (the error is latched on the flow's socket), the peer comes back on the same port and sends
    PeerRestart(u8),
}

static WORKER: AtomicU32 = AtomicU32::new(0);
thread_local! {
    static MY_IP: Ipv4Addr = {
        let i = WORKER.fetch_add(1, Ordering::Relaxed);
        Ipv4Addr::new(127, 77, (i / 200) as u8, (i % 200 + 1) as u8)
    };
}

struct ClientSource {
    q: Arc<Mutex<VecDeque<VUdpIn>>>,
    n: Arc<tokio::sync::Notify>,
}

#[async_trait]
impl VUdpSource for ClientSource {
    async fn read(&mut self) -> std::io::Result<VUdpIn> {
        loop {
            if let Some(d) = self.q.lock().unwrap().pop_front() {
                return Ok(d);
            }
            self.n.notified().await;
        }
    }
}

struct ClientSink {
    log: Arc<Mutex<Vec<VUdpOut>>>,
    /// the client's stream has no room: datagrams are dropped (and counted here)
    refuse: Arc<std::sync::atomic::AtomicBool>,
    refused: Arc<AtomicU32>,
}

#[async_trait]
impl VUdpSink for ClientSink {
    async fn write(&mut self, d: VUdpOut) -> std::io::Result<bool> {
        if self.refuse.load(Ordering::SeqCst) {
            self.refused.fetch_add(1, Ordering::SeqCst);
            return Ok(false);
        }
        self.log.lock().unwrap().push(d);
        Ok(true)
    }
}

#[derive(Clone, Debug, PartialEq, Eq, Hash)]
struct MFlow {
    age: u32,
    pending: Option<u32>,
    /// steps since the flow was created and what refreshed it last: not needed by the oracle, but
    /// part of the state fingerprint so that histories which differ in how a flow was kept alive
    /// (a hidden-state difference in the implementation) are not merged
    since_created: u32,
    refreshed_by_reply: bool,
}

#[derive(Default)]
struct Model {
    flows: BTreeMap<u8, MFlow>,
    /// flows that died and whose former outbound socket address the peer still remembers
    stale: BTreeSet<u8>,
    /// the closed-port flow may or may not be alive (a socket error may have closed it): its age
    maybe_closed_port: Option<u32>,
}

struct Peers {
    socks: Vec<UdpSocket>,
    closed_port: SocketAddr,
    /// flow -> address of the endpoint's outbound socket as last seen by the peer
    seen_from: BTreeMap<u8, SocketAddr>,
}

fn flow_src(i: u8) -> SocketAddr {
    match i {
        1 => "10.0.0.1:1001".parse().unwrap(),
        _ => "10.0.0.1:1000".parse().unwrap(),
    }
}

fn flow_peer_index(i: u8) -> usize {
    match i {
        0 | 1 => 0,
        2 => 1,
        _ => 2,
    }
}

fn drain(s: &UdpSocket) -> Vec<(Vec<u8>, SocketAddr)> {
    let mut v = vec![];
    let mut buf = [0u8; 2048];
    while let Ok((n, a)) = s.recv_from(&mut buf) {
        v.push((buf[..n].to_vec(), a));
    }
    v
}

async fn settle(rounds: u32) {
    for _ in 0..rounds {
        tokio::task::yield_now().await;
    }
}

pub struct Runner {
    pub dns_available: bool,
}

fn bind_peers(ip: Ipv4Addr) -> Result<(Peers, bool), String> {
    let mk = |port: u16| -> std::io::Result<UdpSocket> {
        let s = UdpSocket::bind(SocketAddr::new(IpAddr::V4(ip), port))?;
        s.set_nonblocking(true)?;
        Ok(s)
    };
    let p1 = mk(0).map_err(|e| format!("bind peer: {e}"))?;
    let p2 = mk(0).map_err(|e| format!("bind peer: {e}"))?;
    let (dns, dns_ok) = match mk(53) {
        Ok(s) => (s, true),
        Err(_) => (mk(0).map_err(|e| e.to_string())?, false),
    };
    // a port nobody listens on, below the ephemeral range (a bound-then-dropped ephemeral port can
    // be handed to the flow's own outbound socket, which then talks to itself)
    let closed = SocketAddr::new(IpAddr::V4(ip), 7);
    Ok((Peers { socks: vec![p1, p2, dns], closed_port: closed, seen_from: BTreeMap::new() }, dns_ok))
}

async fn run_history(hist: &[Op]) -> Result<HistOutcome, Violation> {
    let fail = |sig: &str, what: String| Violation::new(format!("C07:{sig}"), format!("{what}; history {hist:?}"), json!({"history": hist}));
    let cfg = Cfg { udp_timeout: Duration::from_millis(T_MS), ..Cfg::default() };
    let world = make_world(&cfg).map_err(|e| Violation::new("C07:machinery", e, json!({})))?;
    let ip = MY_IP.with(|i| *i);
    let (mut peers, dns_ok) = bind_peers(ip).map_err(|e| Violation::new("C07:machinery", e, json!({})))?;
    let q = Arc::new(Mutex::new(VecDeque::new()));
    let notify = Arc::new(tokio::sync::Notify::new());
    let sink_log = Arc::new(Mutex::new(Vec::new()));
    let metrics = Arc::new(Mutex::new([0usize; 2]));
    let refuse = Arc::new(std::sync::atomic::AtomicBool::new(false));
    let refused = Arc::new(AtomicU32::new(0));
    let task = {
        let ctx = world.ctx.clone();
        let src = ClientSource { q: q.clone(), n: notify.clone() };
        let snk = ClientSink { log: sink_log.clone(), refuse: refuse.clone(), refused: refused.clone() };
        let m = metrics.clone();
        tokio::spawn(async move {
            vh::run_udp_pipe(&ctx, (Box::new(src), Box::new(snk)), Duration::from_millis(T_MS), move |out, n| {
                m.lock().unwrap()[if out { 0 } else { 1 }] += n;
            })
            .await
        })
    };
    settle(20).await;
    let mut model = Model::default();
    let mut seq = 0u32;
    // payload bytes handed to an outbound socket successfully / returned to the client
    let mut want_up = 0usize;
    let mut want_down = 0usize;
    let mut burst_bytes_unknown = 0u32;
    crate::engine::sys::record_udp_sends();
    let dst_of = |i: u8, peers: &Peers| peers.socks[flow_peer_index(i)].local_addr().unwrap();
    for (step, op) in hist.iter().enumerate() {
        let mut expect_peer: Vec<(usize, Vec<u8>, u8)> = vec![]; // (peer index, payload, flow)
        let mut expect_client: Vec<VUdpOut> = vec![];
        let push = |src: SocketAddr, dst: SocketAddr, payload: Vec<u8>| {
            q.lock().unwrap().push_back(VUdpIn { source: src, destination: dst, app_name: Some("app".into()), payload });
        };
        match op {
            Op::Send(i) => {
                if *i == 3 && !dns_ok {
                    return Ok(HistOutcome { canon: 0, extend: false });
                }
                seq += 1;
                let payload = format!("q{step}-{seq}-f{i}").into_bytes();
                push(flow_src(*i), dst_of(*i, &peers), payload.clone());
                notify.notify_one();
                want_up += payload.len();
                expect_peer.push((flow_peer_index(*i), payload, *i));
                let f = model.flows.entry(*i).or_insert(MFlow { age: 0, pending: if *i == 3 { Some(0) } else { None }, since_created: 0, refreshed_by_reply: false });
                f.age = 0;
                f.refreshed_by_reply = false;
                if let Some(p) = f.pending.as_mut() {
                    *p += 1;
                }
                model.stale.remove(i);
            }
            Op::Reply(i) | Op::LateReply(i) => {
                let late = matches!(op, Op::LateReply(_));
                let live = model.flows.contains_key(i);
                if late == live || (late && !model.stale.contains(i)) {
                    return Ok(HistOutcome { canon: 0, extend: false }); // not enabled in this state
                }
                let Some(to) = peers.seen_from.get(i).copied() else {
                    return Ok(HistOutcome { canon: 0, extend: false });
                };
                seq += 1;
                let payload = format!("r{step}-{seq}-f{i}").into_bytes();
                let _ = peers.socks[flow_peer_index(*i)].send_to(&payload, to);
                if live {
                    want_down += payload.len();
                    expect_client.push(VUdpOut { source: dst_of(*i, &peers), destination: flow_src(*i), payload });
                    let f = model.flows.get_mut(i).unwrap();
                    f.age = 0;
                    f.refreshed_by_reply = true;
                    if let Some(p) = f.pending.as_mut() {
                        *p = p.saturating_sub(1);
                        if *p == 0 {
                            model.flows.remove(i);
                            model.stale.insert(*i);
                        }
                    }
                }
            }
            Op::Foreign(i) => {
                if !model.flows.contains_key(i) {
                    return Ok(HistOutcome { canon: 0, extend: false });
                }
                let Some(to) = peers.seen_from.get(i).copied() else {
                    return Ok(HistOutcome { canon: 0, extend: false });
                };
                if let Ok(third) = std::net::UdpSocket::bind((MY_IP.with(|ip| *ip), 0)) {
                    let _ = third.send_to(format!("x{step}-foreign-f{i}").as_bytes(), to);
                }
                // nothing may reach the client: it would be labelled as coming from the flow's destination
            }
            Op::Tick => {
                tokio::time::advance(Duration::from_millis(STEP_MS)).await;
                let mut dead = vec![];
                for (i, f) in model.flows.iter_mut() {
                    f.age += 1;
                    f.since_created = (f.since_created + 1).min(8);
                    if f.age as u64 * STEP_MS > T_MS {
                        dead.push(*i);
                    }
                }
                for i in dead {
                    model.flows.remove(&i);
                    model.stale.insert(i);
                }
                if let Some(a) = model.maybe_closed_port.as_mut() {
                    *a += 1;
                    if *a as u64 * STEP_MS > T_MS {
                        model.maybe_closed_port = None;
                    }
                }
            }
            Op::ReplyRefused(i) => {
                if !model.flows.contains_key(i) {
                    return Ok(HistOutcome { canon: 0, extend: false });
                }
                let Some(to) = peers.seen_from.get(i).copied() else {
                    return Ok(HistOutcome { canon: 0, extend: false });
                };
                seq += 1;
                let before = refused.load(Ordering::SeqCst);
                refuse.store(true, Ordering::SeqCst);
                let _ = peers.socks[flow_peer_index(*i)].send_to(format!("d{step}-{seq}-f{i}").as_bytes(), to);
                settle(120).await;
                refuse.store(false, Ordering::SeqCst);
                if refused.load(Ordering::SeqCst) != before + 1 {
                    return Err(fail("reply-not-returned:refused-reply", format!("step {step} {op:?}: the reply was not offered to the client's stream")));
                }
                // not relayed, so not counted; the flow has seen traffic all the same
                let f = model.flows.get_mut(i).unwrap();
                f.age = 0;
                f.refreshed_by_reply = true;
                if let Some(p) = f.pending.as_mut() {
                    *p = p.saturating_sub(1);
                    if *p == 0 {
                        model.flows.remove(i);
                        model.stale.insert(*i);
                    }
                }
            }
            Op::PeerRestart(i) => {
                if !model.flows.contains_key(i) {
                    return Ok(HistOutcome { canon: 0, extend: false });
                }
                let Some(to) = peers.seen_from.get(i).copied() else {
                    return Ok(HistOutcome { canon: 0, extend: false });
                };
                let pi = flow_peer_index(*i);
                let paddr = peers.socks[pi].local_addr().unwrap();
                let gauge_before = vh::metrics_snapshot(&world.ctx).outbound_udp_sockets;
                // the peer goes away
                let placeholder = UdpSocket::bind(SocketAddr::new(paddr.ip(), 0)).map_err(|e| Violation::new("C07:machinery", e.to_string(), json!({})))?;
                drop(std::mem::replace(&mut peers.socks[pi], placeholder));
                // a client datagram meets the closed port
                seq += 1;
                let lost = format!("l{step}-{seq}-f{i}").into_bytes();
                push(flow_src(*i), paddr, lost.clone());
                notify.notify_one();
                want_up += lost.len();
                settle(120).await;
                // the peer is back on its port and sends
                let back = UdpSocket::bind(paddr).map_err(|e| Violation::new("C07:machinery", format!("rebind {paddr}: {e}"), json!({})))?;
                back.set_nonblocking(true).map_err(|e| Violation::new("C07:machinery", e.to_string(), json!({})))?;
                seq += 1;
                let hello = format!("b{step}-{seq}-f{i}").into_bytes();
                let _ = back.send_to(&hello, to);
                peers.socks[pi] = back;
                settle(120).await;
                // either the latched error was met by the read (the flow is closed, the datagram goes
                // with its socket) or it was not (the flow lives on and the datagram is relayed):
                // told apart by the gauge, both are within the statement
                let gauge_after = vh::metrics_snapshot(&world.ctx).outbound_udp_sockets;
                if gauge_after == gauge_before - 1 {
                    model.flows.remove(i);
                    model.stale.insert(*i);
                    peers.seen_from.remove(i);
                } else {
                    want_down += hello.len();
                    expect_client.push(VUdpOut { source: paddr, destination: flow_src(*i), payload: hello });
                    let f = model.flows.get_mut(i).unwrap();
                    f.age = 0;
                    f.refreshed_by_reply = true;
                }
            }
            Op::SendUnconnectable => {
                seq += 1;
                push(flow_src(0), "255.255.255.255:9".parse().unwrap(), format!("u{step}").into_bytes());
                notify.notify_one();
            }
            Op::BurstClosedPort => {
                seq += 1;
                // whether each of the two sends succeeds depends on whether the socket's pending error
                // was consumed by the reader first: decided by the send(2) results observed below
                push(flow_src(0), peers.closed_port, format!("e{step}a").into_bytes());
                push(flow_src(0), peers.closed_port, format!("e{step}b").into_bytes());
                notify.notify_one();
                model.maybe_closed_port = Some(0);
            }
        }
        settle(120).await;
        // observations
        let mut got_peer: Vec<(usize, Vec<u8>, SocketAddr)> = vec![];
        for (pi, s) in peers.socks.iter().enumerate() {
            for (p, a) in drain(s) {
                got_peer.push((pi, p, a));
            }
        }
        let want: Vec<(usize, Vec<u8>)> = expect_peer.iter().map(|(a, b, _)| (*a, b.clone())).collect();
        let got: Vec<(usize, Vec<u8>)> = got_peer.iter().map(|(a, b, _)| (*a, b.clone())).collect();
        if want != got {
            let kind = if got.len() < want.len() { "datagram-not-delivered" } else { "misrouted-or-duplicated-datagram" };
            return Err(fail(
                &format!("{kind}:after-{}", op_name(hist.get(step.wrapping_sub(1)))),
                format!("step {step} {op:?}: peers received {:?}, expected {:?}", got.iter().map(|(i, p)| (i, String::from_utf8_lossy(p).into_owned())).collect::<Vec<_>>(), want.iter().map(|(i, p)| (i, String::from_utf8_lossy(p).into_owned())).collect::<Vec<_>>()),
            ));
        }
        for ((_, _, flow), (_, _, from)) in expect_peer.iter().zip(got_peer.iter()) {
            // distinct flows must use distinct sockets
            for (other, addr) in peers.seen_from.iter() {
                if other != flow && addr == from && model.flows.contains_key(other) {
                    return Err(fail("flows-share-a-socket", format!("flows {flow} and {other} are served by the same outbound socket {from}")));
                }
            }
            peers.seen_from.insert(*flow, *from);
        }
        let client_got: Vec<VUdpOut> = std::mem::take(&mut *sink_log.lock().unwrap());
        if client_got != expect_client {
            let kind = if client_got.len() < expect_client.len() {
                "reply-not-returned"
            } else if client_got.len() > expect_client.len() {
                "unexpected-datagram-to-client"
            } else {
                "reply-mislabelled"
            };
            return Err(fail(&format!("{kind}:{}", op_name(Some(op))), format!("step {step} {op:?}: client received {client_got:?}, expected {expect_client:?}")));
        }
        if task.is_finished() {
            return Err(fail(
                &format!("multiplexer-terminated:{}:after-{}", op_name(Some(op)), op_name(hist.get(step.wrapping_sub(1)))),
                format!("step {step} {op:?}: the whole UDP multiplexer ended because of one flow"),
            ));
        }
        let counted = *metrics.lock().unwrap();
        // bytes handed to a socket successfully, as the kernel saw them
        let sent_ok: usize = crate::engine::sys::udp_sends().iter().filter(|(_, ok)| *ok).map(|(n, _)| *n).sum();
        if !matches!(op, Op::BurstClosedPort) && burst_bytes_unknown == 0 && sent_ok != want_up {
            return Err(Violation::new("C07:machinery", format!("send(2) log ({sent_ok} bytes) and the reference model ({want_up} bytes) disagree; history {hist:?}"), json!({"kind":"history","history": hist})));
        }
        if matches!(op, Op::BurstClosedPort) {
            burst_bytes_unknown += 1;
        }
        let want_up = sent_ok;
        if counted[0] != want_up || counted[1] != want_down {
            let dir = if counted[0] != want_up { "client-to-peer" } else { "peer-to-client" };
            return Err(fail(
                &format!("traffic-counter:{dir}:{}", op_name(Some(op))),
                format!("step {step} {op:?}: the metrics callback counted {} bytes client->peer and {} peer->client, relayed were {want_up} and {want_down}", counted[0], counted[1]),
            ));
        }
        let gauge = vh::metrics_snapshot(&world.ctx).outbound_udp_sockets;
        let lo = model.flows.len() as i64;
        let hi = lo + model.maybe_closed_port.is_some() as i64;
        if gauge < lo || gauge > hi {
            let why = if gauge > hi { "socket-not-released" } else { "socket-missing" };
            let cause = if matches!(op, Op::Tick) { "expiry" } else { op_name(Some(op)) };
            return Err(fail(&format!("{why}:{cause}"), format!("step {step} {op:?}: outbound_udp_sockets = {gauge}, live flows in the model = {lo}..={hi} ({:?})", model.flows)));
        }
    }
    task.abort();
    let gauge = vh::metrics_snapshot(&world.ctx).outbound_udp_sockets;
    let canon = hash_of(&(
        model.flows.iter().map(|(k, v)| (*k, v.clone())).collect::<Vec<_>>(),
        model.stale.iter().cloned().collect::<Vec<_>>(),
        model.maybe_closed_port,
        gauge,
    ));
    Ok(HistOutcome { canon, extend: true })
}

fn op_name(op: Option<&Op>) -> &'static str {
    match op {
        None => "start",
        Some(Op::Send(3)) => "dns-query",
        Some(Op::Send(_)) => "datagram",
        Some(Op::Reply(3)) => "dns-answer",
        Some(Op::Reply(_)) => "reply",
        Some(Op::LateReply(_)) => "late-reply",
        Some(Op::Foreign(_)) => "foreign-datagram",
        Some(Op::Tick) => "tick",
        Some(Op::SendUnconnectable) => "unconnectable",
        Some(Op::BurstClosedPort) => "burst-to-closed-port",
        Some(Op::ReplyRefused(_)) => "refused-reply",
        Some(Op::PeerRestart(_)) => "peer-restart",
    }
}

/// Workers share the host's UDP port space: a flow socket is bound to the wildcard address for an
/// instant before it is connected, and a datagram another worker sends to a stale port of its own
/// can land in it (seen once in ~10^6 executions). Each worker therefore gets a network namespace
/// of its own (loopback only) when the process may create one; otherwise the shared one is used.
fn isolate_network() -> bool {
    #[repr(C)]
    struct IfReq {
        name: [libc::c_char; 16],
        flags: libc::c_short,
        pad: [u8; 22],
    }
    unsafe {
        if libc::unshare(libc::CLONE_NEWNET) != 0 {
            return false;
        }
        let fd = libc::socket(libc::AF_INET, libc::SOCK_DGRAM, 0);
        if fd < 0 {
            return false;
        }
        let mut r: IfReq = std::mem::zeroed();
        r.name[0] = b'l' as libc::c_char;
        r.name[1] = b'o' as libc::c_char;
        let mut ok = libc::ioctl(fd, libc::SIOCGIFFLAGS, &mut r as *mut IfReq) == 0;
        if ok {
            r.flags |= (libc::IFF_UP | libc::IFF_RUNNING) as libc::c_short;
            ok = libc::ioctl(fd, libc::SIOCSIFFLAGS, &r as *const IfReq) == 0;
        }
        libc::close(fd);
        ok
    }
}

static ISOLATED_WORKERS: AtomicU32 = AtomicU32::new(0);
static SHARED_WORKERS: AtomicU32 = AtomicU32::new(0);
static UNCONFIRMED: Mutex<Vec<String>> = Mutex::new(Vec::new());

struct M;

impl HistoryModel for M {
    type Op = Op;
    fn ops(&self) -> Vec<Op> {
        vec![
            Op::Send(0), Op::Send(1), Op::Send(2), Op::Send(3), Op::Reply(0), Op::Reply(3), Op::LateReply(0), Op::Foreign(0), Op::Tick,
            Op::SendUnconnectable, Op::BurstClosedPort, Op::ReplyRefused(0), Op::PeerRestart(2),
        ]
    }
    fn run(&self, hist: &[Op]) -> Result<HistOutcome, Violation> {
        let _g = crate::engine::watch::enter("C07:wedged".into(), json!({"history": hist}).to_string());
        match rt::run_paused(run_history(hist)) {
            Ok(o) => Ok(o),
            Err(v) if v.signature.contains("machinery") => Err(v),
            // a failure counts when the same history fails the same way again (real sockets on a
            // shared host are the one thing the harness does not own); what does not repeat is
            // listed in the evidence
            Err(v) => match rt::run_paused(run_history(hist)) {
                Err(v2) if v2.signature == v.signature => Err(v),
                other => {
                    UNCONFIRMED.lock().unwrap().push(format!("{} ({}); second run: {}", v.signature, v.what, match &other { Ok(_) => "held".to_string(), Err(v2) => v2.signature.clone() }));
                    other
                }
            },
        }
    }
}

pub fn run(tier: Tier) -> i32 {
    crate::engine::watch::start("C07", tier.name(), Duration::from_secs(60), crate::engine::watch::OnExpiry::Machinery);
    let mut rep = Report::new("C07", tier, "model_checking");
    let depth = tier.pick(6usize, 11usize);
    let (st, viol, samples) = bfs(&M, depth, Duration::from_secs(tier.pick(45, 1500)), rt::workers(), &|| {
        if isolate_network() {
            ISOLATED_WORKERS.fetch_add(1, Ordering::Relaxed);
        } else {
            SHARED_WORKERS.fetch_add(1, Ordering::Relaxed);
        }
    });
    // report the shortest history per signature
    let mut viol = viol;
    viol.sort_by_key(|(h, _)| h.len());
    for (_, v) in viol {
        rep.violation(v);
    }
    rep.cov("states", st.states);
    rep.cov("transitions", st.transitions);
    rep.cov("traces_validated_against_impl", st.transitions);
    rep.cov("max_depth_completed", st.max_depth_completed);
    rep.cov("per_depth_new_states", json!(st.per_depth_states));
    rep.cov("capped", st.capped);
    rep.cov("exhaustive", !st.capped);
    rep.cov("workers_in_own_network_namespace", ISOLATED_WORKERS.load(Ordering::Relaxed));
    rep.cov("workers_on_shared_loopback", SHARED_WORKERS.load(Ordering::Relaxed));
    let unconfirmed = std::mem::take(&mut *UNCONFIRMED.lock().unwrap());
    for u in &unconfirmed {
        eprintln!("UNCONFIRMED (did not repeat on re-execution): {u}");
    }
    rep.cov("failures_not_confirmed_by_reexecution", json!(unconfirmed));
    for s in samples.into_iter().take(4) {
        rep.sample(json!({"history": s}));
    }
    rep.cov("explanation", format!("breadth-first search over histories of {{datagram on flow 0..3 (3 = port 53), reply, late reply on an expired flow's socket, clock step T/4+1ms, unconnectable destination, burst to a closed port}} up to depth {depth}; every transition re-executes the whole history on a fresh real pipe + multiplexer + loopback sockets; states are merged on (reference-model state, outbound_udp_sockets gauge)"));
    rep.assume("loopback UDP delivery is synchronous; the pipe task runs to quiescence (120 scheduler turns) after every operation; paused tokio clock");
    rep.assume("the liveness of a flow whose socket met ECONNREFUSED is unconstrained until it would have expired");
    if st.states < 10 && rep.n_violations() == 0 {
        eprintln!("MACHINERY: vacuous search ({} states)", st.states);
        return 2;
    }
    super::cq::c07_into(&mut rep);
    rep.finish()
}

pub fn replay(case: &serde_json::Value) -> Result<(), Violation> {
    let hist: Vec<Op> = serde_json::from_value(case["history"].clone()).map_err(|_| Violation::new("C07:machinery", "bad replay file", json!({})))?;
    rt::run_paused(run_history(&hist)).map(|_| ())
}
