//! C17 — plain-HTTP forwarding preserves requests and response bodies byte for byte.
//!
//! Non-CONNECT requests through the real accept path (HTTP/1.1 and HTTP/2 clients, real
//! DirectForwarder) to an origin played by the harness on loopback: request kinds x origin
//! responses (status, framing: Content-Length / chunked with varied chunk sizes and extensions /
//! close-delimited / bodiless, 1xx prefixes, trailing bytes) x every 1-cut (and 2-cuts for short
//! responses) of the origin's byte stream x client back-pressure patterns.

use super::common::{make_world, Cfg};
use super::door::{self, H1Client, H2Client, H2Outcome, ReqSpec};
use crate::engine::explore::sweep_dyn;
use crate::engine::report::{Report, Tier, Violation};
use crate::engine::rt;
use serde_json::json;
use std::borrow::Cow;
use std::net::SocketAddr;
use std::time::Duration;
use tokio::io::{AsyncReadExt, AsyncWriteExt};
use trusttunnel::verif_hooks::VProtocol;

#[derive(Clone, Debug, serde::Serialize, serde::Deserialize, PartialEq)]
pub struct Case {
    pub h2: bool,
    /// "get" | "head" | "post-cl" | "post-chunked" | "post-h2-no-length"
    pub req: String,
    pub status: u16,
    /// "cl" | "chunked" | "close" | "none"
    pub framing: String,
    /// chunk sizes for chunked framing
    pub chunks: Vec<usize>,
    /// "none" | "100" | "103+100"
    pub prefix: String,
    pub trailing: usize,
    pub cuts: Vec<usize>,
    /// "prompt" | "slow"
    pub pacing: String,
}

const BODY: &[u8] = b"The quick brown fox jumps over the lazy dog 0123456789";

fn origin_response(c: &Case) -> (Vec<u8>, Vec<u8>) {
    // (bytes on the wire, body the client must end up with)
    let mut w = Vec::new();
    match c.prefix.as_str() {
        "100" => w.extend_from_slice(b"HTTP/1.1 100 Continue\r\n\r\n"),
        "103+100" => w.extend_from_slice(b"HTTP/1.1 103 Early Hints\r\nLink: </s.css>; rel=preload\r\n\r\nHTTP/1.1 100 Continue\r\n\r\n"),
        _ => {}
    }
    let reason = match c.status { 200 => "OK", 204 => "No Content", 304 => "Not Modified", 404 => "Not Found", _ => "X" };
    w.extend_from_slice(format!("HTTP/1.1 {} {reason}\r\nX-End: e2e\r\nConnection: keep-alive, x-hop\r\nKeep-Alive: timeout=5\r\nX-Hop: secret-hop\r\n", c.status).as_bytes());
    let bodiless = matches!(c.status, 204 | 304) || c.req == "head";
    let total: usize = c.chunks.iter().sum();
    let body: Vec<u8> = BODY.iter().cycle().take(total).cloned().collect();
    let mut expect_body = vec![];
    match c.framing.as_str() {
        "cl" => {
            w.extend_from_slice(format!("Content-Length: {}\r\n\r\n", body.len()).as_bytes());
            if !bodiless {
                w.extend_from_slice(&body);
                expect_body = body.clone();
            }
        }
        "chunked" => {
            w.extend_from_slice(b"Transfer-Encoding: chunked\r\n\r\n");
            if !bodiless {
                let mut off = 0;
                for (i, n) in c.chunks.iter().enumerate() {
                    if *n == 0 {
                        continue;
                    }
                    let ext = if i % 2 == 1 { ";ext=1" } else { "" };
                    w.extend_from_slice(format!("{:x}{ext}\r\n", n).as_bytes());
                    w.extend_from_slice(&body[off..off + n]);
                    w.extend_from_slice(b"\r\n");
                    off += n;
                }
                w.extend_from_slice(b"0\r\n\r\n");
                expect_body = body.clone();
            }
        }
        "close" => {
            w.extend_from_slice(b"\r\n");
            if !bodiless {
                w.extend_from_slice(&body);
                expect_body = body.clone();
            }
        }
        _ => {
            w.extend_from_slice(b"Content-Length: 0\r\n\r\n");
        }
    }
    w.extend(std::iter::repeat(b'T').take(c.trailing));
    (w, expect_body)
}

#[derive(Debug, Default, Clone, serde::Serialize)]
pub struct Obs {
    origin_request: Vec<u8>,
    interim: Vec<u16>,
    status: Option<u16>,
    headers: Vec<(String, String)>,
    body: Vec<u8>,
    ended: bool,
    error: Option<String>,
    second_final: bool,
}

fn dechunk(b: &[u8]) -> Option<(Vec<u8>, usize)> {
    // returns (body, bytes consumed) when the terminating chunk is complete
    let mut out = vec![];
    let mut i = 0;
    loop {
        let line_end = b[i..].windows(2).position(|w| w == b"\r\n")? + i;
        let line = std::str::from_utf8(&b[i..line_end]).ok()?;
        let n = usize::from_str_radix(line.split(';').next()?.trim(), 16).ok()?;
        i = line_end + 2;
        if n == 0 {
            // trailers (none expected) then CRLF
            if b.len() < i + 2 {
                return None;
            }
            return Some((out, i + 2));
        }
        if b.len() < i + n + 2 {
            return None;
        }
        out.extend_from_slice(&b[i..i + n]);
        i += n + 2;
    }
}

async fn run_case(c: &Case, tag: &str) -> Result<Obs, String> {
    let world = make_world(&Cfg::default())?;
    let origin = tokio::net::TcpListener::bind("127.0.0.1:0").await.map_err(|e| e.to_string())?;
    let oaddr = origin.local_addr().unwrap();
    let peer: SocketAddr = "198.51.100.7:40000".parse().unwrap();
    let slow = c.pacing == "slow";
    let (io, d) = door::open(&world.ctx, if c.h2 { VProtocol::Http2 } else { VProtocol::Http1 }, "m.t", None, peer, if slow && !c.h2 { 16 } else { 1 << 16 });
    let method = match c.req.as_str() { "get" => "GET", "head" => "HEAD", _ => "POST" };
    let mut spec = ReqSpec { method: method.into(), target: format!("http://127.0.0.1:{}/p/{tag}?q=1", oaddr.port()), proxy_auth: Some(b"Basic Zm9vOmJhcg==".to_vec()), headers: vec![("x-req".into(), "v".into())] };
    if !c.h2 {
        // (connection-specific headers cannot be expressed in HTTP/2)
        spec.headers.push(("proxy-connection".into(), "keep-alive".into()));
    }
    let req_body: &[u8] = b"data";
    match c.req.as_str() {
        "post-cl" => spec.headers.push(("content-length".into(), "4".into())),
        "post-chunked" => spec.headers.push(("transfer-encoding".into(), "chunked".into())),
        _ => {}
    }
    let mut obs = Obs::default();
    let mut h1 = None;
    let mut h2c = None;
    let mut st = None;
    if !c.h2 {
        let mut cl = H1Client::new(io);
        let mut bytes = spec.h1_bytes();
        match c.req.as_str() {
            "post-cl" => bytes.extend_from_slice(req_body),
            "post-chunked" => bytes.extend_from_slice(b"4\r\ndata\r\n0\r\n\r\n"),
            _ => {}
        }
        cl.send(&bytes).await;
        h1 = Some(cl);
    } else {
        let mut cl = H2Client::connect_with(io, if slow { Some(7) } else { None }).await?;
        let has_body = c.req.starts_with("post");
        let mut s = cl.request(spec.h2_request()?, !has_body).await?;
        if has_body {
            s.tx.send_data(bytes::Bytes::from_static(req_body), true).map_err(|e| e.to_string())?;
        }
        st = Some(s);
        h2c = Some(cl);
    }
    // the origin: read the forwarded request, answer in pieces
    let mut acc = Box::pin(origin.accept());
    let Some(Ok((mut os, _))) = door::until(&mut acc, Duration::from_secs(3)).await else {
        obs.error = Some("the request was not forwarded to the origin".into());
        return Ok(obs);
    };
    drop(acc);
    let _ = os.set_linger(Some(Duration::ZERO));
    let want_req_body: usize = match c.req.as_str() { "post-cl" | "post-h2-no-length" => 4, "post-chunked" => 14, _ => 0 };
    let t0 = std::time::Instant::now();
    let mut idle = 0;
    loop {
        let head_end = obs.origin_request.windows(4).position(|w| w == b"\r\n\r\n");
        if let Some(h) = head_end {
            if obs.origin_request.len() >= h + 4 + want_req_body {
                break;
            }
        }
        let mut tmp = [0u8; 4096];
        let r = {
            let mut f = Box::pin(os.read(&mut tmp));
            door::poll_once(&mut f).await
        };
        match r {
            Some(Ok(0)) | Some(Err(_)) => break,
            Some(Ok(n)) => {
                obs.origin_request.extend_from_slice(&tmp[..n]);
                idle = 0;
            }
            None => {
                idle += 1;
                tokio::task::yield_now().await;
                if idle > 600 && t0.elapsed() > Duration::from_millis(400) {
                    break;
                }
            }
        }
    }
    let (wire, _) = origin_response(c);
    let mut prev = 0;
    let mut bounds = c.cuts.clone();
    bounds.push(wire.len());
    // the client reads while the origin writes (slow = one small read per piece)
    async fn client_step(h1: &mut Option<H1Client>, st: &mut Option<door::H2Stream>, obs: &mut Obs, rounds: u32, slow: bool) {
        if let Some(cl) = h1.as_mut() {
            if slow {
                let mut tmp = [0u8; 3];
                let r = {
                    let mut f = Box::pin(cl.io.read(&mut tmp));
                    door::poll_once(&mut f).await
                };
                match r {
                    Some(Ok(0)) => cl.eof = true,
                    Some(Ok(n)) => cl.inbuf.extend_from_slice(&tmp[..n]),
                    _ => {}
                }
            } else {
                cl.pump(rounds).await;
            }
        }
        if let Some(s) = st.as_mut() {
            if obs.status.is_none() {
                match s.response(Duration::from_millis(1)).await {
                    H2Outcome::Response(r) => {
                        obs.status = Some(r.status);
                        obs.headers = r.headers;
                    }
                    H2Outcome::Reset(e) => obs.error = Some(e),
                    H2Outcome::Nothing => {}
                }
            }
            if obs.status.is_some() && !obs.ended {
                let (b, ended, err) = s.body(if slow { 1 } else { rounds }).await;
                obs.body.extend_from_slice(&b);
                obs.ended = ended;
                if let Some(e) = err {
                    obs.error = Some(e);
                }
            }
        }
    }
    for b in bounds {
        if b <= prev || b > wire.len() {
            continue;
        }
        {
            let mut w = Box::pin(os.write_all(&wire[prev..b]));
            let _ = door::until(&mut w, Duration::from_secs(2)).await;
        }
        prev = b;
        door::spin(20).await;
        client_step(&mut h1, &mut st, &mut obs, 10, slow).await;
    }
    if c.framing == "close" {
        let mut sd = Box::pin(os.shutdown());
        door::until(&mut sd, Duration::from_secs(1)).await;
    }
    // drain the client side
    let t0 = std::time::Instant::now();
    let mut last = (0usize, false);
    let mut stable = 0;
    while t0.elapsed() < Duration::from_secs(4) && stable < 60 {
        door::spin(10).await;
        client_step(&mut h1, &mut st, &mut obs, 10, slow).await;
        let now = (h1.as_ref().map(|c| c.inbuf.len()).unwrap_or(obs.body.len()), h1.as_ref().map(|c| c.eof).unwrap_or(obs.ended));
        if now == last {
            stable += 1;
        } else {
            stable = 0;
            last = now;
        }
        if now.1 {
            break;
        }
    }
    // parse what an HTTP/1.1 client received
    if let Some(cl) = h1.as_mut() {
        loop {
            let Some(r) = cl.take_response() else { break };
            if r.status < 200 {
                obs.interim.push(r.status);
                continue;
            }
            obs.status = Some(r.status);
            obs.headers = r.headers;
            break;
        }
        let rest = cl.inbuf.clone();
        let te_chunked = obs.headers.iter().any(|(n, v)| n == "transfer-encoding" && v.to_ascii_lowercase().contains("chunked"));
        let cl_len: Option<usize> = obs.headers.iter().find(|(n, _)| n == "content-length").and_then(|(_, v)| v.parse().ok());
        let bodiless = c.req == "head" || matches!(obs.status, Some(204) | Some(304));
        if bodiless {
            obs.body = vec![];
            obs.ended = true;
            obs.second_final = rest.starts_with(b"HTTP/1.");
        } else if te_chunked {
            match dechunk(&rest) {
                Some((b, used)) => {
                    obs.body = b;
                    obs.ended = true;
                    obs.second_final = rest[used..].starts_with(b"HTTP/1.");
                }
                None => {
                    obs.body = rest.clone();
                    obs.error.get_or_insert("incomplete chunked body".into());
                }
            }
        } else if let Some(n) = cl_len {
            obs.body = rest[..n.min(rest.len())].to_vec();
            obs.ended = rest.len() >= n;
            obs.second_final = rest.len() > n && rest[n..].starts_with(b"HTTP/1.");
        } else {
            obs.body = rest;
            obs.ended = cl.eof;
        }
    }
    drop(os);
    drop(st);
    drop(h2c);
    drop(h1);
    let mut task = d.task;
    let mut f = Box::pin(&mut task);
    if door::until(&mut f, Duration::from_secs(2)).await.is_none() {
        task.abort();
    }
    Ok(obs)
}

fn judge(c: &Case, o: &Obs, tag: &str) -> Result<&'static str, Violation> {
    let case = json!({"case": c});
    let proto = if c.h2 { "h2" } else { "h1" };
    let cutk = match c.cuts.len() { 0 => "uncut", 1 => "1-cut", _ => "n-cut" };
    let mk = |sig: String, what: String| Violation::new(sig, format!("{what}; case {c:?}; observed status {:?} interim {:?} body {} bytes ended {} error {:?}", o.status, o.interim, o.body.len(), o.ended, o.error), case.clone());
    // the request as the origin saw it
    let req = String::from_utf8_lossy(&o.origin_request).to_string();
    let method = match c.req.as_str() { "get" => "GET", "head" => "HEAD", _ => "POST" };
    let first = req.lines().next().unwrap_or("");
    if first != format!("{method} /p/{tag}?q=1 HTTP/1.1") {
        return Err(mk(format!("C17:request:line:{}:{proto}", c.req), format!("origin saw request line {first:?}")));
    }
    let head = req.split("\r\n\r\n").next().unwrap_or("").to_ascii_lowercase();
    if !head.contains("\r\nx-req: v") || !head.contains("\r\nhost: 127.0.0.1:") {
        return Err(mk(format!("C17:request:headers-lost:{proto}"), format!("forwarded request lacks the end-to-end headers: {head:?}")));
    }
    if head.contains("proxy-authorization") || head.contains("proxy-connection") {
        return Err(mk(format!("C17:request:hop-by-hop-forwarded:{proto}"), format!("proxy hop-by-hop headers were forwarded: {head:?}")));
    }
    let body_part = o.origin_request.split(|_| false).next().map(|_| {
        let h = o.origin_request.windows(4).position(|w| w == b"\r\n\r\n").map(|p| p + 4).unwrap_or(o.origin_request.len());
        o.origin_request[h..].to_vec()
    }).unwrap_or_default();
    match c.req.as_str() {
        "post-cl" => {
            if !head.contains("content-length: 4") || body_part != b"data" {
                return Err(mk(format!("C17:request:body-framing:post-cl:{proto}"), format!("POST body not forwarded with its Content-Length: body {:?}", String::from_utf8_lossy(&body_part))));
            }
        }
        "post-chunked" => {
            if !head.contains("transfer-encoding: chunked") || dechunk(&body_part).map(|x| x.0) != Some(b"data".to_vec()) {
                return Err(mk(format!("C17:request:body-framing:post-chunked:{proto}"), format!("chunked POST body not forwarded consistently: {:?}", String::from_utf8_lossy(&body_part))));
            }
        }
        "post-h2-no-length" => {
            let ok_cl = head.contains("content-length: 4") && body_part == b"data";
            let ok_te = head.contains("transfer-encoding: chunked") && dechunk(&body_part).map(|x| x.0) == Some(b"data".to_vec());
            if !ok_cl && !ok_te {
                return Err(mk(format!("C17:request:body-framing:no-length:{proto}"), format!("a body without declared length was forwarded without consistent framing (head {head:?}, body {:?})", String::from_utf8_lossy(&body_part))));
            }
        }
        _ => {
            if !body_part.is_empty() {
                return Err(mk(format!("C17:request:unexpected-body:{proto}"), "body bytes forwarded for a bodiless request".into()));
            }
        }
    }
    // the response as the client saw it
    let (_, want_body) = origin_response(c);
    let class = format!("{}:{}:{}", c.framing, c.prefix, if c.trailing > 0 { "trailing" } else { "exact" });
    if let Some(e) = &o.error {
        if o.status.is_none() || o.body != want_body {
            return Err(mk(format!("C17:response:exchange-failed:{class}:{}:{cutk}:{proto}", c.pacing), format!("the exchange failed: {e}")));
        }
    }
    if o.status != Some(c.status) {
        return Err(mk(format!("C17:response:status:{class}:{}:{cutk}:{proto}", c.pacing), format!("client got status {:?}, origin sent {}", o.status, c.status)));
    }
    if !o.headers.iter().any(|(n, v)| n == "x-end" && v == "e2e") {
        return Err(mk(format!("C17:response:end-to-end-header-lost:{proto}"), "X-End header missing".into()));
    }
    if o.headers.iter().any(|(n, _)| n == "keep-alive" || n == "x-hop") {
        return Err(mk(format!("C17:response:hop-by-hop-delivered:{proto}"), format!("hop-by-hop headers delivered: {:?}", o.headers)));
    }
    if c.h2 && o.headers.iter().any(|(n, _)| n == "transfer-encoding" || n == "connection") {
        return Err(mk("C17:response:h2-connection-specific-header".into(), format!("connection-specific header sent to an HTTP/2 client: {:?}", o.headers)));
    }
    if o.body != want_body {
        let how = if o.body.len() < want_body.len() { "truncated" } else if o.body.len() > want_body.len() { "extra-bytes" } else { "corrupted" };
        return Err(mk(format!("C17:response:body-{how}:{class}:{}:{cutk}:{proto}", c.pacing), format!("client body {:?} != origin body {:?}", String::from_utf8_lossy(&o.body), String::from_utf8_lossy(&want_body))));
    }
    if c.framing != "close" || c.h2 {
        if !o.ended {
            return Err(mk(format!("C17:response:not-ended:{class}:{}:{cutk}:{proto}", c.pacing), "the body is complete but the exchange did not end".into()));
        }
    }
    if o.second_final {
        return Err(mk(format!("C17:response:second-final:{proto}"), "a second final response followed".into()));
    }
    if !c.h2 && c.prefix != "none" {
        let want: Vec<u16> = if c.prefix == "100" { vec![100] } else { vec![103, 100] };
        if o.interim != want {
            return Err(mk(format!("C17:response:interim-not-delivered:{}:{proto}", c.prefix), format!("HTTP/1.1 client received interim responses {:?}, origin sent {want:?}", o.interim)));
        }
    }
    Ok("faithful")
}

fn cases(tier: Tier) -> Vec<Case> {
    let mut v = vec![];
    let base = |h2: bool, req: &str, status: u16, framing: &str, chunks: Vec<usize>, prefix: &str, trailing: usize, pacing: &str| Case { h2, req: req.into(), status, framing: framing.into(), chunks, prefix: prefix.into(), trailing, cuts: vec![], pacing: pacing.into() };
    let mut shapes: Vec<Case> = vec![];
    for h2 in [false, true] {
        for pacing in ["prompt", "slow"] {
            // request kinds against a simple origin
            for req in ["get", "head", "post-cl", "post-chunked", "post-h2-no-length"] {
                if (req == "post-chunked" && h2) || (req == "post-h2-no-length" && !h2) {
                    continue;
                }
                shapes.push(base(h2, req, 200, "cl", vec![5], "none", 0, pacing));
            }
            // origin framings
            for (framing, chunks) in [("cl", vec![0]), ("cl", vec![5]), ("cl", vec![40]), ("chunked", vec![1]), ("chunked", vec![2, 5]), ("chunked", vec![16, 1, 2]), ("chunked", vec![5, 0]), ("close", vec![9]), ("none", vec![0])] {
                shapes.push(base(h2, "get", 200, framing, chunks.clone(), "none", 0, pacing));
                if framing != "none" {
                    shapes.push(base(h2, "get", 200, framing, chunks.clone(), "100", 0, pacing));
                }
                if framing == "cl" || framing == "chunked" {
                    shapes.push(base(h2, "get", 200, framing, chunks.clone(), "none", 3, pacing));
                }
            }
            shapes.push(base(h2, "get", 200, "chunked", vec![2, 5], "103+100", 0, pacing));
            // a bodiless response may still announce the framing its body would have had (RFC 9112 6.1)
            shapes.push(base(h2, "head", 200, "chunked", vec![5], "none", 0, pacing));
            shapes.push(base(h2, "get", 304, "chunked", vec![5], "none", 0, pacing));
            shapes.push(base(h2, "head", 200, "cl", vec![40], "100", 0, pacing));
            for status in [204u16, 304, 404] {
                shapes.push(base(h2, "get", status, "cl", vec![if status == 404 { 5 } else { 0 }], "none", 0, pacing));
            }
        }
    }
    for s in shapes {
        let (wire, _) = origin_response(&s);
        v.push(s.clone());
        let n = wire.len();
        let step = if tier == Tier::Quick { 3 } else { 1 };
        for a in (1..n).step_by(step) {
            v.push(Case { cuts: vec![a], ..s.clone() });
        }
        if tier == Tier::Thorough && n < 230 {
            let pts: Vec<usize> = (1..n).step_by(4).collect();
            for (i, a) in pts.iter().enumerate() {
                for b in pts[i + 1..].iter().step_by(3) {
                    v.push(Case { cuts: vec![*a, *b], ..s.clone() });
                }
            }
        }
        v.push(Case { cuts: (1..n).collect(), ..s.clone() });
    }
    v
}

pub fn run(tier: Tier) -> i32 {
    crate::engine::watch::start("C17", tier.name(), Duration::from_secs(120), crate::engine::watch::OnExpiry::Violation);
    let mut rep = Report::new("C17", tier, "exploration");
    let cs = cases(tier);
    let r = sweep_dyn(cs.len() as u64, 2, Duration::from_secs(tier.pick(55, 1500)), rt::workers(), |i| {
        let c = &cs[i as usize];
        let _g = crate::engine::watch::enter(format!("C17:wedged:{}:{}", c.framing, c.prefix), json!({"case": c}).to_string());
        let tag = format!("t{i}");
        let o = rt::run_real(run_case(c, &tag)).map_err(|e| Violation::new("C17:machinery", e, json!({"case": c})))?;
        judge(c, &o, &tag).map(|k| Cow::Owned(format!("{k}:{}:{}:{}:{}", c.h2, c.req, c.framing, c.prefix)))
    });
    rep.add("evaluations", r.evaluations);
    rep.add("distinct_nontrivial", r.classes.len() as u64);
    rep.violations(r.violations);
    rep.cov("exhaustive", r.completed);
    rep.cov("rule", format!("{} exchanges: {{HTTP/1.1, HTTP/2 client}} x {{prompt, slow (back-pressured) client}} x request kinds (GET, HEAD, POST with Content-Length / chunked / no declared length) x origin responses (statuses 200/204/304/404; Content-Length 0/5/40, chunked with sizes and extensions, close-delimited, bodiless; 100 and 103+100 prefixes; 3 trailing bytes) x every {} 1-cut of the origin stream (+ 2-cuts in thorough) and byte-at-a-time; distinct = (protocol, request, framing, prefix) classes", cs.len(), tier.pick("third", "")));
    rep.sample(json!({"case": cs[7]}));
    rep.assume("the origin is played by the harness on a loopback socket; the client's slow mode is a 16-byte transport buffer with 3-byte reads (HTTP/1.1) or a 7-byte stream window (HTTP/2)");
    super::cq::c17_into(&mut rep, tier);
    rep.finish()
}

pub fn replay(case: &serde_json::Value) -> Result<(), Violation> {
    let c: Case = serde_json::from_value(case["case"].clone()).map_err(|_| Violation::new("C17:machinery", "bad replay file", json!({})))?;
    let o = rt::run_real(run_case(&c, "replay")).map_err(|e| Violation::new("C17:machinery", e, json!({})))?;
    judge(&c, &o, "replay").map(|_| ())
}
