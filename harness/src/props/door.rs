//! The accept path below the socket: real `Core::on_tunnel_request` (HttpDownstream + Tunnel +
//! real HTTP/1.1 / HTTP/2 codec + real forwarder) over an in-memory duplex transport, with a
//! scripted client on the other end.

use bytes::Bytes;
use std::future::Future;
use std::net::SocketAddr;
use std::pin::Pin;
use std::task::Poll;
use std::time::{Duration, Instant};
use tokio::io::{AsyncReadExt, AsyncWriteExt, DuplexStream};
use trusttunnel::verif_hooks::{self as vh, VContext, VProtocol};

pub async fn poll_once<F: Future + Unpin>(f: &mut F) -> Option<F::Output> {
    std::future::poll_fn(|cx| {
        Poll::Ready(match Pin::new(&mut *f).poll(cx) {
            Poll::Ready(x) => Some(x),
            Poll::Pending => None,
        })
    })
    .await
}

/// Busy-yield until `f` completes or `wall` of real time passed (the virtual clock never moves here).
pub async fn until<F: Future + Unpin>(f: &mut F, wall: Duration) -> Option<F::Output> {
    let t0 = Instant::now();
    let mut n = 0u32;
    loop {
        if let Some(x) = poll_once(f).await {
            return Some(x);
        }
        tokio::task::yield_now().await;
        n += 1;
        if n % 64 == 0 {
            if t0.elapsed() > wall {
                return None;
            }
            if n > 2048 {
                // give the blocking pool / kernel a moment
                std::thread::sleep(Duration::from_micros(200));
            }
        }
    }
}

/// Yield `rounds` times (lets spawned tasks and the I/O driver run); returns early never.
pub async fn spin(rounds: u32) {
    for _ in 0..rounds {
        tokio::task::yield_now().await;
    }
}

#[derive(Clone, Debug, Default, PartialEq, Eq, Hash, serde::Serialize)]
pub struct Resp {
    pub status: u16,
    pub headers: Vec<(String, String)>,
}

impl Resp {
    pub fn header(&self, name: &str) -> Option<&str> {
        self.headers
            .iter()
            .find(|(n, _)| n.eq_ignore_ascii_case(name))
            .map(|(_, v)| v.as_str())
    }
    pub fn headers_all(&self, name: &str) -> Vec<&str> {
        self.headers
            .iter()
            .filter(|(n, _)| n.eq_ignore_ascii_case(name))
            .map(|(_, v)| v.as_str())
            .collect()
    }
}

pub struct Door {
    pub task: tokio::task::JoinHandle<std::io::Result<()>>,
}

pub fn open(
    ctx: &VContext,
    protocol: VProtocol,
    sni: &str,
    sni_creds: Option<String>,
    peer: SocketAddr,
    buf: usize,
) -> (DuplexStream, Door) {
    let (client, server) = tokio::io::duplex(buf);
    (client, open_on(ctx, protocol, sni, sni_creds, peer, server))
}

/// the same over any transport the harness supplies
pub fn open_on<T>(
    ctx: &VContext,
    protocol: VProtocol,
    sni: &str,
    sni_creds: Option<String>,
    peer: SocketAddr,
    server: T,
) -> Door
where
    T: tokio::io::AsyncRead + tokio::io::AsyncWrite + Unpin + Send + 'static,
{
    let ctx = ctx.clone();
    let sni = sni.to_string();
    let task = tokio::spawn(async move {
        vh::on_tunnel_request(&ctx, protocol, vh::wrap_io(server, peer), sni, sni_creds).await
    });
    Door { task }
}

// ------------------------------------------------------------------------------------------------
// HTTP/1.1 scripted client
// ------------------------------------------------------------------------------------------------

pub struct H1Client {
    pub io: DuplexStream,
    pub inbuf: Vec<u8>,
    pub eof: bool,
    pub io_error: Option<String>,
}

impl H1Client {
    pub fn new(io: DuplexStream) -> Self {
        Self { io, inbuf: vec![], eof: false, io_error: None }
    }

    pub async fn send(&mut self, bytes: &[u8]) -> bool {
        let mut f = Box::pin(self.io.write_all(bytes));
        matches!(until(&mut f, Duration::from_secs(5)).await, Some(Ok(())))
    }

    /// pull whatever is readable right now (after letting the other side run `rounds` yields)
    pub async fn pump(&mut self, rounds: u32) {
        let mut idle = 0;
        while idle < rounds && !self.eof {
            let mut tmp = [0u8; 16384];
            let r = {
                let mut f = Box::pin(self.io.read(&mut tmp));
                poll_once(&mut f).await
            };
            match r {
                Some(Ok(0)) => self.eof = true,
                Some(Ok(n)) => {
                    self.inbuf.extend_from_slice(&tmp[..n]);
                    idle = 0;
                }
                Some(Err(e)) => {
                    self.io_error = Some(e.to_string());
                    self.eof = true;
                }
                None => {
                    idle += 1;
                    tokio::task::yield_now().await;
                }
            }
        }
    }

    /// try to parse one response head off the front of the buffer
    pub fn take_response(&mut self) -> Option<Resp> {
        let mut headers = [httparse::EMPTY_HEADER; 64];
        let mut r = httparse::Response::new(&mut headers);
        match r.parse(&self.inbuf) {
            Ok(httparse::Status::Complete(n)) => {
                let resp = Resp {
                    status: r.code.unwrap_or(0),
                    headers: r
                        .headers
                        .iter()
                        .map(|h| (h.name.to_ascii_lowercase(), String::from_utf8_lossy(h.value).into_owned()))
                        .collect(),
                };
                self.inbuf.drain(..n);
                Some(resp)
            }
            _ => None,
        }
    }

    /// wait (real time bounded) for a complete response head
    pub async fn response(&mut self, wall: Duration) -> Option<Resp> {
        let t0 = Instant::now();
        loop {
            if let Some(r) = self.take_response() {
                return Some(r);
            }
            if self.eof || t0.elapsed() > wall {
                return None;
            }
            self.pump(8).await;
            if self.inbuf.is_empty() && t0.elapsed() > Duration::from_millis(20) {
                std::thread::sleep(Duration::from_micros(100));
            }
        }
    }
}

// ------------------------------------------------------------------------------------------------
// HTTP/2 client (the `h2` crate's client, driven on the same single-threaded runtime)
// ------------------------------------------------------------------------------------------------

pub struct H2Client {
    pub send: h2::client::SendRequest<Bytes>,
    pub conn: tokio::task::JoinHandle<Result<(), String>>,
}

pub struct H2Stream {
    pub resp: Option<h2::client::ResponseFuture>,
    pub tx: h2::SendStream<Bytes>,
    pub rx: Option<h2::RecvStream>,
}

impl H2Client {
    pub async fn connect(io: DuplexStream) -> Result<Self, String> {
        Self::connect_with(io, None).await
    }

    /// `window`: the client's initial stream window (a small one makes the endpoint's sink back-pressured)
    pub async fn connect_with(io: DuplexStream, window: Option<u32>) -> Result<Self, String> {
        let mut b = h2::client::Builder::new();
        if let Some(w) = window {
            b.initial_window_size(w);
        }
        let mut hs = Box::pin(b.handshake::<_, Bytes>(io));
        match until(&mut hs, Duration::from_secs(5)).await {
            Some(Ok((send, conn))) => {
                let conn = tokio::spawn(async move { conn.await.map_err(|e| e.to_string()) });
                Ok(Self { send, conn })
            }
            Some(Err(e)) => Err(format!("h2 handshake: {e}")),
            None => Err("h2 handshake did not complete".into()),
        }
    }

    pub async fn request(&mut self, req: http::Request<()>, end: bool) -> Result<H2Stream, String> {
        let mut ready = Box::pin(std::future::poll_fn(|cx| self.send.poll_ready(cx)));
        match until(&mut ready, Duration::from_secs(5)).await {
            Some(Ok(())) => {}
            Some(Err(e)) => return Err(format!("h2 not ready: {e}")),
            None => return Err("h2 never ready".into()),
        }
        drop(ready);
        let (resp, tx) = self.send.send_request(req, end).map_err(|e| format!("send_request: {e}"))?;
        Ok(H2Stream { resp: Some(resp), tx, rx: None })
    }
}

#[derive(Debug)]
pub enum H2Outcome {
    Response(Resp),
    Reset(String),
    Nothing,
}

impl H2Stream {
    pub async fn response(&mut self, wall: Duration) -> H2Outcome {
        let Some(mut f) = self.resp.take() else {
            return H2Outcome::Nothing;
        };
        match until(&mut f, wall).await {
            Some(Ok(r)) => {
                let (parts, body) = r.into_parts();
                self.rx = Some(body);
                H2Outcome::Response(Resp {
                    status: parts.status.as_u16(),
                    headers: parts
                        .headers
                        .iter()
                        .map(|(n, v)| (n.as_str().to_string(), String::from_utf8_lossy(v.as_bytes()).into_owned()))
                        .collect(),
                })
            }
            Some(Err(e)) => H2Outcome::Reset(e.to_string()),
            None => {
                self.resp = Some(f);
                H2Outcome::Nothing
            }
        }
    }

    /// read body data available within `rounds` idle yields; returns (bytes, ended)
    pub async fn body(&mut self, rounds: u32) -> (Vec<u8>, bool, Option<String>) {
        let mut out = vec![];
        let Some(rx) = self.rx.as_mut() else {
            return (out, false, None);
        };
        let mut idle = 0;
        loop {
            let r = {
                let mut f = Box::pin(rx.data());
                poll_once(&mut f).await
            };
            match r {
                Some(Some(Ok(b))) => {
                    let _ = rx.flow_control().release_capacity(b.len());
                    out.extend_from_slice(&b);
                    idle = 0;
                }
                Some(Some(Err(e))) => return (out, true, Some(e.to_string())),
                Some(None) => return (out, true, None),
                None => {
                    idle += 1;
                    if idle > rounds {
                        return (out, false, None);
                    }
                    tokio::task::yield_now().await;
                }
            }
        }
    }
}

// ------------------------------------------------------------------------------------------------
// Request specifications shared by the door-based checks
// ------------------------------------------------------------------------------------------------

#[derive(Clone, Debug, PartialEq, Eq, Hash, serde::Serialize, serde::Deserialize)]
pub struct ReqSpec {
    pub method: String,
    /// CONNECT: the authority; other methods: an absolute URI (or origin-form path for HTTP/1.1 + Host)
    pub target: String,
    /// raw Proxy-Authorization value (may be non-UTF-8)
    pub proxy_auth: Option<Vec<u8>>,
    pub headers: Vec<(String, String)>,
}

impl ReqSpec {
    pub fn connect(authority: &str) -> Self {
        Self { method: "CONNECT".into(), target: authority.into(), proxy_auth: None, headers: vec![] }
    }
    pub fn with_auth(mut self, v: Option<Vec<u8>>) -> Self {
        self.proxy_auth = v;
        self
    }

    pub fn h1_bytes(&self) -> Vec<u8> {
        let mut v = Vec::new();
        v.extend_from_slice(self.method.as_bytes());
        v.push(b' ');
        v.extend_from_slice(self.target.as_bytes());
        v.extend_from_slice(b" HTTP/1.1\r\n");
        if self.method == "CONNECT" {
            v.extend_from_slice(b"Host: ");
            v.extend_from_slice(self.target.as_bytes());
            v.extend_from_slice(b"\r\n");
        }
        if let Some(a) = &self.proxy_auth {
            v.extend_from_slice(b"Proxy-Authorization: ");
            v.extend_from_slice(a);
            v.extend_from_slice(b"\r\n");
        }
        for (n, val) in &self.headers {
            v.extend_from_slice(n.as_bytes());
            v.extend_from_slice(b": ");
            v.extend_from_slice(val.as_bytes());
            v.extend_from_slice(b"\r\n");
        }
        v.extend_from_slice(b"\r\n");
        v
    }

    pub fn h2_request(&self) -> Result<http::Request<()>, String> {
        let mut b = http::Request::builder()
            .method(self.method.as_str())
            .uri(self.target.as_str())
            .version(http::Version::HTTP_2);
        if let Some(a) = &self.proxy_auth {
            b = b.header(
                "proxy-authorization",
                http::HeaderValue::from_bytes(a).map_err(|e| format!("header value: {e}"))?,
            );
        }
        for (n, v) in &self.headers {
            b = b.header(n.as_str(), v.as_str());
        }
        b.body(()).map_err(|e| format!("request: {e}"))
    }
}

/// A loopback TCP destination that accepts, answers plain HTTP requests and echoes anything else.
pub struct Canary {
    pub addr: SocketAddr,
    pub accepted: std::sync::Arc<std::sync::atomic::AtomicU32>,
    pub received: std::sync::Arc<std::sync::Mutex<Vec<u8>>>,
    pub task: tokio::task::JoinHandle<()>,
}

impl Drop for Canary {
    fn drop(&mut self) {
        self.task.abort();
    }
}

pub async fn start_canary() -> Canary {
    // one port number served on 127.0.0.1 and on ::1
    let (l, l6, addr) = loop {
        let l = tokio::net::TcpListener::bind("127.0.0.1:0").await.expect("canary bind");
        let addr = l.local_addr().unwrap();
        if let Ok(l6) = tokio::net::TcpListener::bind(("::1", addr.port())).await {
            break (l, l6, addr);
        }
    };
    let accepted = std::sync::Arc::new(std::sync::atomic::AtomicU32::new(0));
    let received = std::sync::Arc::new(std::sync::Mutex::new(Vec::new()));
    let a2 = accepted.clone();
    let r2 = received.clone();
    let task = tokio::spawn(async move {
        loop {
            let acc = tokio::select! {
                biased;
                a = l.accept() => a,
                a = l6.accept() => a,
            };
            let Ok((mut s, _)) = acc else { break };
            // no TIME_WAIT litter: thousands of short connections must not exhaust the ephemeral ports
            let _ = s.set_linger(Some(Duration::ZERO));
            a2.fetch_add(1, std::sync::atomic::Ordering::SeqCst);
            let r3 = r2.clone();
            tokio::spawn(async move {
                let mut buf = [0u8; 4096];
                let mut first = true;
                loop {
                    match s.read(&mut buf).await {
                        Ok(0) | Err(_) => break,
                        Ok(n) => {
                            r3.lock().unwrap().extend_from_slice(&buf[..n]);
                            if first && (buf.starts_with(b"GET ") || buf.starts_with(b"POST ") || buf.starts_with(b"HEAD ") || buf.starts_with(b"OPTIONS ")) {
                                let _ = s.write_all(b"HTTP/1.1 200 OK\r\nContent-Length: 2\r\n\r\nok").await;
                            } else if s.write_all(&buf[..n]).await.is_err() {
                                break;
                            }
                            first = false;
                        }
                    }
                }
            });
        }
    });
    Canary { addr, accepted, received, task }
}

/// A loopback port on which `connect` never completes: a listener with backlog 0 whose accept
/// queue is already full (further SYNs are dropped by the kernel).
pub struct BlackHole {
    pub port: u16,
    fd: i32,
    _filler: Vec<std::net::TcpStream>,
}

impl Drop for BlackHole {
    fn drop(&mut self) {
        unsafe {
            libc::close(self.fd);
        }
    }
}

pub fn black_hole() -> Result<BlackHole, String> {
    unsafe {
        let fd = libc::socket(libc::AF_INET, libc::SOCK_STREAM, 0);
        if fd < 0 {
            return Err("socket".into());
        }
        let mut a: libc::sockaddr_in = std::mem::zeroed();
        a.sin_family = libc::AF_INET as libc::sa_family_t;
        a.sin_addr.s_addr = u32::from_ne_bytes([127, 0, 0, 1]);
        if libc::bind(fd, &a as *const _ as *const libc::sockaddr, std::mem::size_of::<libc::sockaddr_in>() as u32) != 0 {
            return Err("bind".into());
        }
        if libc::listen(fd, 0) != 0 {
            return Err("listen".into());
        }
        let mut len = std::mem::size_of::<libc::sockaddr_in>() as libc::socklen_t;
        libc::getsockname(fd, &mut a as *mut _ as *mut libc::sockaddr, &mut len);
        let port = u16::from_be(a.sin_port);
        // fill the accept queue (backlog 0 admits one established connection; a second one may
        // sit in the SYN queue): two fillers make every later connect hang
        let mut filler = vec![];
        for _ in 0..2 {
            let s = std::net::TcpStream::connect_timeout(&SocketAddr::from(([127, 0, 0, 1], port)), Duration::from_millis(200));
            if let Ok(s) = s {
                filler.push(s);
            }
        }
        Ok(BlackHole { port, fd, _filler: filler })
    }
}
