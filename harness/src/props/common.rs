//! Shared construction of a real `Core` / `Context` through the crate's public API.

use crate::engine::rt::{cert_path, key_path};
use std::net::SocketAddr;
use std::sync::{Arc, Mutex};
use std::time::Duration;
use trusttunnel::authentication::registry_based::{Client, RegistryBasedAuthenticator};
use trusttunnel::authentication::Authenticator;
use trusttunnel::core::Core;
use trusttunnel::settings::{
    ForwardProtocolSettings, Http1Settings, Http2Settings, ListenProtocolSettings, QuicSettings,
    ReverseProxySettings, Settings, Socks5ForwarderSettings, TlsHostInfo, TlsHostsSettings,
};
use trusttunnel::shutdown::Shutdown;
use trusttunnel::verif_hooks::{self as vh, VContext};

#[derive(Clone)]
pub struct Cfg {
    pub listen: SocketAddr,
    pub allow_private: bool,
    pub ipv6_available: bool,
    pub clients: Vec<(String, String)>,
    pub http1: bool,
    pub http2: bool,
    pub quic: bool,
    pub tcp_timeout: Duration,
    pub udp_timeout: Duration,
    pub connect_timeout: Duration,
    pub tls_timeout: Duration,
    pub listener_timeout: Duration,
    pub socks5: Option<(SocketAddr, bool)>,
    pub reverse_proxy: Option<(SocketAddr, String)>,
    pub rules: Option<trusttunnel::rules::RulesConfig>,
    pub speedtest: bool,
    /// configure a metrics section (the listener itself is only started by Core::listen)
    pub metrics: bool,
    pub main_hosts: Vec<(String, Vec<String>)>,
    pub ping_hosts: Vec<String>,
    pub speedtest_hosts: Vec<String>,
    pub reverse_proxy_hosts: Vec<String>,
}

impl Default for Cfg {
    fn default() -> Self {
        Self {
            listen: "127.0.0.1:1".parse().unwrap(),
            allow_private: true,
            ipv6_available: true,
            clients: vec![],
            http1: true,
            http2: true,
            quic: false,
            tcp_timeout: Duration::from_secs(1000),
            udp_timeout: Duration::from_secs(1000),
            connect_timeout: Duration::from_secs(30),
            tls_timeout: Duration::from_secs(10),
            listener_timeout: Duration::from_secs(100_000),
            socks5: None,
            reverse_proxy: None,
            rules: None,
            speedtest: false,
            metrics: false,
            main_hosts: vec![("m.t".to_string(), vec![])],
            ping_hosts: vec![],
            speedtest_hosts: vec![],
            reverse_proxy_hosts: vec![],
        }
    }
}

pub fn host_info(name: &str, fixture: &str, allowed_sni: &[String]) -> TlsHostInfo {
    TlsHostInfo {
        hostname: name.to_string(),
        cert_chain_path: cert_path(fixture),
        private_key_path: key_path(fixture),
        allowed_sni: allowed_sni.to_vec(),
    }
}

pub fn build_settings(cfg: &Cfg) -> Result<Settings, String> {
    let mut b = Settings::builder()
        .listen_address(cfg.listen)
        .map_err(|e| e.to_string())?
        .allow_private_network_connections(cfg.allow_private)
        .ipv6_available(cfg.ipv6_available)
        .tcp_connections_timeout(cfg.tcp_timeout)
        .udp_connections_timeout(cfg.udp_timeout)
        .connection_establishment_timeout(cfg.connect_timeout)
        .tls_handshake_timeout(cfg.tls_timeout)
        .client_listener_timeout(cfg.listener_timeout)
        .speedtest_enable(cfg.speedtest)
        .listen_protocols(ListenProtocolSettings {
            http1: cfg.http1.then(|| Http1Settings::builder().build()),
            http2: cfg.http2.then(|| Http2Settings::builder().build()),
            quic: cfg.quic.then(|| QuicSettings::builder().build()),
        })
        .clients(
            cfg.clients
                .iter()
                .map(|(u, p)| Client {
                    username: u.clone(),
                    password: p.clone(),
                })
                .collect(),
        );
    if let Some((addr, ext)) = cfg.socks5 {
        b = b.forwarder_settings(ForwardProtocolSettings::Socks5(
            Socks5ForwarderSettings::builder()
                .server_address(addr)
                .map_err(|e| e.to_string())?
                .extended_auth(ext)
                .build()
                .map_err(|e| format!("{e:?}"))?,
        ));
    }
    if let Some((addr, mask)) = &cfg.reverse_proxy {
        b = b.reverse_proxy(
            ReverseProxySettings::builder()
                .server_address(*addr)
                .map_err(|e| e.to_string())?
                .path_mask(mask.clone())
                .build()
                .map_err(|e| format!("{e:?}"))?,
        );
    }
    if cfg.metrics {
        b = b.metrics(
            trusttunnel::settings::MetricsSettings::builder()
                .listen_address("127.0.0.1:1")
                .map_err(|e| e.to_string())?
                .build()
                .map_err(|e| format!("{e:?}"))?,
        );
    }
    if let Some(r) = &cfg.rules {
        b = b.rules_engine(trusttunnel::rules::RulesEngine::from_config(r.clone()));
    }
    b.build().map_err(|e| format!("{e:?}"))
}

pub fn build_hosts(cfg: &Cfg) -> Result<TlsHostsSettings, String> {
    TlsHostsSettings::builder()
        .main_hosts(
            cfg.main_hosts
                .iter()
                .map(|(h, alt)| host_info(h, fixture_for(h), alt))
                .collect(),
        )
        .ping_hosts(
            cfg.ping_hosts
                .iter()
                .map(|h| host_info(h, fixture_for(h), &[]))
                .collect(),
        )
        .speedtest_hosts(
            cfg.speedtest_hosts
                .iter()
                .map(|h| host_info(h, fixture_for(h), &[]))
                .collect(),
        )
        .reverse_proxy_hosts(
            cfg.reverse_proxy_hosts
                .iter()
                .map(|h| host_info(h, fixture_for(h), &[]))
                .collect(),
        )
        .build()
        .map_err(|e| format!("{e:?}"))
}

/// every host name used by the checks has a certificate fixture; unknown names share q.t's
pub fn fixture_for(host: &str) -> &str {
    match host {
        "m.t" | "n.t" | "x.m.t" | "p.t" | "s.t" | "r.t" | "q.t" => host,
        _ => "q.t",
    }
}

pub struct World {
    pub core: Core,
    pub ctx: VContext,
    pub shutdown: Arc<Mutex<Shutdown>>,
}

pub fn make_world_with_auth(
    cfg: &Cfg,
    authenticator: Option<Arc<dyn Authenticator>>,
) -> Result<World, String> {
    let settings = build_settings(cfg)?;
    let hosts = build_hosts(cfg)?;
    let shutdown = Shutdown::new();
    let core = Core::new(settings, authenticator, hosts, shutdown.clone())
        .map_err(|e| format!("{e:?}"))?;
    let ctx = vh::context(&core);
    Ok(World {
        core,
        ctx,
        shutdown,
    })
}

/// the authenticator the endpoint binary installs: registry-based iff clients are configured
pub fn make_world(cfg: &Cfg) -> Result<World, String> {
    let auth: Option<Arc<dyn Authenticator>> = if cfg.clients.is_empty() {
        None
    } else {
        let clients: Vec<Client> = cfg
            .clients
            .iter()
            .map(|(u, p)| Client {
                username: u.clone(),
                password: p.clone(),
            })
            .collect();
        Some(Arc::new(RegistryBasedAuthenticator::new(&clients)))
    };
    make_world_with_auth(cfg, auth)
}
