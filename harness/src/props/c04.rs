//! C04 — connection filtering rules: first match wins, fail closed, enforced early.
//!
//! Bounded-exhaustive enumeration of rule lists x peers x client randoms through (a) the public
//! `RulesEngine::evaluate`, (b) what `core.rs` really calls with the peer address as a listener
//! reports it, (c) the TOML path of `rules_file`; plus wiring scenarios on the real accept path.

use super::common::{make_world, Cfg};
use crate::engine::explore::sweep_dyn;
use crate::engine::report::{Report, Tier, Violation};
use crate::engine::rt;
use serde_json::json;
use std::borrow::Cow;
use std::net::IpAddr;
use std::time::Duration;
use trusttunnel::rules::{Rule, RuleAction, RuleEvaluation, RulesConfig, RulesEngine};
use trusttunnel::verif_hooks as vh;

const CIDRS: [Option<&str>; 8] = [
    None,
    Some("10.0.0.0/8"),
    Some("10.1.0.0/16"),
    Some("0.0.0.0/0"),
    Some("2001:db8::/32"),
    Some("::1/128"),
    Some("garbage"),
    Some("10.0.0.0/33"),
];

const PREFIXES: [Option<&str>; 10] = [
    None,
    Some("aa"),
    Some("aabb"),
    Some("a0/f0"),
    Some("aabb/ff00"),
    Some("a5b5/0ff0"),
    Some("zz"),
    Some("aab"),
    Some("aa/"),
    Some("aa/zz"),
];

const PEERS: [&str; 7] = [
    "10.1.2.3",
    "10.2.0.1",
    "11.0.0.1",
    "::ffff:10.1.2.3",
    "::ffff:11.0.0.1",
    "2001:db8::1",
    "::1",
];

fn randoms() -> Vec<Option<Vec<u8>>> {
    let fill = |a: u8, b: u8| -> Vec<u8> {
        let mut v = vec![a, b];
        v.extend((2..32).map(|i| i as u8));
        v
    };
    vec![
        None,
        Some(vec![]),
        Some(vec![0xaa]),
        Some(fill(0xaa, 0xbb)),
        Some(fill(0xa5, 0xb5)),
        Some(fill(0xab, 0x00)),
    ]
}

#[derive(Clone, Copy, PartialEq, Eq, Debug)]
enum Tri {
    Match,
    NoMatch,
    Undefined,
}

#[derive(Clone, Copy, PartialEq, Eq, Debug)]
enum Want {
    Allow,
    Deny,
    DontCare,
}

fn parse_hex(s: &str) -> Option<Vec<u8>> {
    if s.len() % 2 != 0 {
        return None;
    }
    let mut out = Vec::new();
    let b = s.as_bytes();
    for i in (0..b.len()).step_by(2) {
        let h = (b[i] as char).to_digit(16)?;
        let l = (b[i + 1] as char).to_digit(16)?;
        out.push((h * 16 + l) as u8);
    }
    Some(out)
}

/// independent CIDR parser: `addr/len`, len within the family's width
fn parse_cidr(s: &str) -> Option<(IpAddr, u32)> {
    let (a, l) = s.split_once('/')?;
    let ip: IpAddr = a.parse().ok()?;
    let len: u32 = l.parse().ok()?;
    let max = if ip.is_ipv4() { 32 } else { 128 };
    if len > max {
        return None;
    }
    Some((ip, len))
}

fn canonical(ip: IpAddr) -> IpAddr {
    match ip {
        IpAddr::V6(v6) => match v6.to_ipv4_mapped() {
            Some(v4) => IpAddr::V4(v4),
            None => IpAddr::V6(v6),
        },
        x => x,
    }
}

fn cidr_contains(net: (IpAddr, u32), ip: IpAddr) -> bool {
    match (net.0, ip) {
        (IpAddr::V4(n), IpAddr::V4(i)) => {
            let m = if net.1 == 0 { 0 } else { u32::MAX << (32 - net.1) };
            (u32::from(n) & m) == (u32::from(i) & m)
        }
        (IpAddr::V6(n), IpAddr::V6(i)) => {
            let m = if net.1 == 0 { 0 } else { u128::MAX << (128 - net.1) };
            (u128::from(n) & m) == (u128::from(i) & m)
        }
        _ => false,
    }
}

/// Reference evaluation of one rule, written from CONFIGURATION.md "Rules Reference".
/// `peer_is_mapped`: the listener reported an IPv4-mapped IPv6 address (IPv6 CIDRs vs such a peer
/// are not defined by the documentation).
fn ref_rule(cidr: Option<&str>, prefix: Option<&str>, peer: IpAddr, random: Option<&[u8]>) -> Tri {
    let mut result = Tri::Match;
    if let Some(c) = cidr {
        match parse_cidr(c) {
            None => return Tri::NoMatch, // malformed field: the rule never matches
            Some(net) => {
                let canon = canonical(peer);
                if canon != peer && net.0.is_ipv6() {
                    result = Tri::Undefined;
                } else if !cidr_contains(net, canon) {
                    return Tri::NoMatch;
                }
            }
        }
    }
    if let Some(p) = prefix {
        let Some(random) = random else {
            return Tri::NoMatch;
        };
        if let Some((pre, mask)) = p.split_once('/') {
            let (Some(pre), Some(mask)) = (parse_hex(pre), parse_hex(mask)) else {
                return Tri::NoMatch;
            };
            if pre.len() != mask.len() || pre.is_empty() || random.len() < mask.len() {
                // mask longer/shorter than the prefix, empty pattern, random shorter than the
                // pattern: not defined by the documentation
                return Tri::Undefined;
            }
            for i in 0..mask.len() {
                if (random[i] & mask[i]) != (pre[i] & mask[i]) {
                    return Tri::NoMatch;
                }
            }
        } else {
            let Some(pre) = parse_hex(p) else {
                return Tri::NoMatch;
            };
            if pre.is_empty() {
                return Tri::Undefined;
            }
            if !random.starts_with(&pre) {
                return Tri::NoMatch;
            }
        }
    }
    result
}

#[derive(Clone, Copy, Debug, PartialEq, Eq)]
struct RuleSpec {
    cidr: usize,
    prefix: usize,
    deny: bool,
}

fn ref_eval(rules: &[RuleSpec], peer: IpAddr, random: Option<&[u8]>) -> Want {
    if random.is_none() && rules.iter().any(|r| PREFIXES[r.prefix].is_some()) {
        return Want::Deny; // fail closed
    }
    for r in rules {
        match ref_rule(CIDRS[r.cidr], PREFIXES[r.prefix], peer, random) {
            Tri::Match => return if r.deny { Want::Deny } else { Want::Allow },
            Tri::Undefined => return Want::DontCare,
            Tri::NoMatch => {}
        }
    }
    Want::Allow
}

fn n_rule_specs() -> u64 {
    (CIDRS.len() * PREFIXES.len() * 2) as u64
}

fn rule_spec(i: u64) -> RuleSpec {
    let deny = i % 2 == 1;
    let i = i / 2;
    let prefix = (i % PREFIXES.len() as u64) as usize;
    let cidr = (i / PREFIXES.len() as u64) as usize;
    RuleSpec { cidr, prefix, deny }
}

fn to_rule(s: &RuleSpec) -> Rule {
    Rule {
        cidr: CIDRS[s.cidr].map(String::from),
        client_random_prefix: PREFIXES[s.prefix].map(String::from),
        action: if s.deny {
            RuleAction::Deny
        } else {
            RuleAction::Allow
        },
    }
}

fn describe(rules: &[RuleSpec]) -> serde_json::Value {
    json!(rules
        .iter()
        .map(|r| json!({"cidr": CIDRS[r.cidr], "client_random_prefix": PREFIXES[r.prefix], "action": if r.deny {"deny"} else {"allow"}}))
        .collect::<Vec<_>>())
}

fn decode_list(mut idx: u64, len: usize) -> Vec<RuleSpec> {
    let n = n_rule_specs();
    let mut v = Vec::with_capacity(len);
    for _ in 0..len {
        v.push(rule_spec(idx % n));
        idx /= n;
    }
    v
}

fn signature(entry: &str, rules: &[RuleSpec], peer: IpAddr, random: &Option<Vec<u8>>, want: Want) -> String {
    // the rule that decides in the reference model names the class
    let decisive = rules
        .iter()
        .find(|r| ref_rule(CIDRS[r.cidr], PREFIXES[r.prefix], peer, random.as_deref()) == Tri::Match);
    let peer_kind = match peer {
        IpAddr::V4(_) => "v4-peer",
        IpAddr::V6(v6) if v6.to_ipv4_mapped().is_some() => "v4-mapped-peer",
        _ => "v6-peer",
    };
    let rule_kind = match decisive {
        None if random.is_none() => "no-random".to_string(),
        None => "no-match".to_string(),
        Some(r) => format!(
            "{}{}",
            match CIDRS[r.cidr] {
                None => "any",
                Some(c) if c.contains(':') => "v6-cidr",
                Some(_) => "v4-cidr",
            },
            match PREFIXES[r.prefix] {
                None => "",
                Some(p) if p.contains('/') => "+masked-random",
                Some(_) => "+random-prefix",
            }
        ),
    };
    format!("C04:{entry}:want-{want:?}:{peer_kind}:{rule_kind}")
}

fn check_case(
    entry: &'static str,
    rules: &[RuleSpec],
    peer: IpAddr,
    random: &Option<Vec<u8>>,
    got_allow: bool,
) -> Result<Cow<'static, str>, Violation> {
    let want = ref_eval(rules, peer, random.as_deref());
    let ok = match want {
        Want::Allow => got_allow,
        Want::Deny => !got_allow,
        Want::DontCare => true,
    };
    if ok {
        return Ok(Cow::Borrowed(match (want, got_allow) {
            (Want::Allow, _) => "allow",
            (Want::Deny, _) => "deny",
            (Want::DontCare, true) => "undefined->allow",
            (Want::DontCare, false) => "undefined->deny",
        }));
    }
    Err(Violation::new(
        signature(entry, rules, peer, random, want),
        format!(
            "rules {} peer {peer} random {:?}: documented verdict {want:?}, endpoint {}",
            describe(rules),
            random.as_ref().map(hex::encode),
            if got_allow { "allows" } else { "denies" }
        ),
        json!({"entry": entry, "rules": describe(rules), "peer": peer.to_string(),
               "random": random.as_ref().map(hex::encode)}),
    ))
}

fn eval_public(rules: &[RuleSpec], peer: IpAddr, random: Option<&[u8]>) -> bool {
    let eng = RulesEngine::from_config(RulesConfig {
        rule: rules.iter().map(to_rule).collect(),
    });
    eng.evaluate(&peer, random) == RuleEvaluation::Allow
}

fn eval_core(rules: &[RuleSpec], peer: IpAddr, random: Option<&[u8]>) -> Result<bool, String> {
    let cfg = Cfg {
        rules: Some(RulesConfig {
            rule: rules.iter().map(to_rule).collect(),
        }),
        ..Cfg::default()
    };
    let w = make_world(&cfg)?;
    Ok(vh::evaluate_connection_rules(&w.ctx, Some(peer), random).is_ok())
}

pub fn toml_quote(s: &str) -> String {
    format!("\"{}\"", s.replace('\\', "\\\\").replace('"', "\\\""))
}

/// (c) the rules as a file, read through the production `Settings` deserialiser
fn eval_toml(
    dir: &std::path::Path,
    tag: u64,
    rules: &[RuleSpec],
    extra: &str,
    peer: IpAddr,
    random: Option<&[u8]>,
) -> Result<bool, String> {
    let mut text = String::from("# generated by tt-verif\n");
    for r in rules {
        text.push_str("[[rule]]\n");
        if let Some(c) = CIDRS[r.cidr] {
            text.push_str(&format!("cidr = {}\n", toml_quote(c)));
        }
        if let Some(p) = PREFIXES[r.prefix] {
            text.push_str(&format!("client_random_prefix = {}\n", toml_quote(p)));
        }
        text.push_str(&format!("action = \"{}\"\n\n", if r.deny { "deny" } else { "allow" }));
    }
    text.push_str(extra);
    let path = dir.join(format!("rules-{tag}.toml"));
    std::fs::write(&path, text).map_err(|e| e.to_string())?;
    let settings_text = format!(
        "listen_address = \"127.0.0.1:1\"\nrules_file = {}\n[listen_protocols.http1]\n",
        toml_quote(&path.to_string_lossy())
    );
    let settings: trusttunnel::settings::Settings =
        toml::from_str(&settings_text).map_err(|e| format!("settings: {e}"))?;
    let _ = std::fs::remove_file(&path);
    let eng = settings
        .get_rules_engine()
        .as_ref()
        .ok_or_else(|| "no rules engine".to_string())?;
    Ok(eng.evaluate(&peer, random) == RuleEvaluation::Allow)
}


/// Patterns of the single-rule sweep: every prefix of 1..=3 bytes and every mask of 0..=3 bytes over
/// small byte alphabets, all length combinations (mask shorter than, as long as, longer than the
/// prefix; empty mask; zero bytes at any position of the mask).
fn patterns() -> Vec<String> {
    const PB: [&str; 3] = ["00", "aa", "03"];
    const MB: [&str; 3] = ["00", "ff", "f0"];
    fn words(alpha: &[&str; 3], max: usize) -> Vec<String> {
        let mut all = vec![String::new()];
        let mut last = vec![String::new()];
        for _ in 0..max {
            let mut next = Vec::new();
            for w in &last {
                for a in alpha {
                    next.push(format!("{w}{a}"));
                }
            }
            all.extend(next.iter().cloned());
            last = next;
        }
        all
    }
    let mut v = Vec::new();
    for pre in words(&PB, 3) {
        if pre.is_empty() {
            continue;
        }
        v.push(pre.clone());
        for mask in words(&MB, 4) {
            v.push(format!("{pre}/{mask}"));
        }
    }
    v
}

fn pattern_randoms() -> Vec<Option<Vec<u8>>> {
    let mut v: Vec<Option<Vec<u8>>> = vec![None, Some(vec![]), Some(vec![0xaa]), Some(vec![0xaa, 0x00])];
    for head in [[0xaa, 0xaa, 0xaa], [0xaa, 0x00, 0x03], [0xaa, 0x55, 0x03], [0xa5, 0xaa, 0x0f], [0x00, 0xaa, 0x00], [0x0f, 0x0a, 0xaa], [0xab, 0x00, 0x00]] {
        let mut r = head.to_vec();
        r.extend((3..32).map(|i| i as u8));
        v.push(Some(r));
    }
    v
}

/// One pattern in a two-rule list (`pattern -> first`, `anything -> the opposite`), through the
/// three entry points. A panic is a violation whatever the documentation leaves open.
fn pattern_case(dir: &std::path::Path, i: u64, pattern: &str, deny_first: bool, entry: usize, random: &Option<Vec<u8>>) -> Result<Cow<'static, str>, Violation> {
    let peer: IpAddr = "10.1.2.3".parse().unwrap();
    let rules = vec![
        Rule { cidr: None, client_random_prefix: Some(pattern.to_string()), action: if deny_first { RuleAction::Deny } else { RuleAction::Allow } },
        Rule { cidr: None, client_random_prefix: None, action: if deny_first { RuleAction::Allow } else { RuleAction::Deny } },
    ];
    let entry_name = ["engine", "core", "toml"][entry];
    let case = json!({"kind": "pattern", "pattern": pattern, "deny_first": deny_first, "entry": entry, "random": random.as_ref().map(hex::encode)});
    let r = random.as_deref();
    let got = super::guarded(|| -> Result<bool, String> {
        match entry {
            0 => Ok(RulesEngine::from_config(RulesConfig { rule: rules.clone() }).evaluate(&peer, r) == RuleEvaluation::Allow),
            1 => {
                let cfg = Cfg { rules: Some(RulesConfig { rule: rules.clone() }), ..Cfg::default() };
                let w = make_world(&cfg)?;
                Ok(vh::evaluate_connection_rules(&w.ctx, Some(peer), r).is_ok())
            }
            _ => {
                let text = format!(
                    "[[rule]]\nclient_random_prefix = {}\naction = \"{}\"\n\n[[rule]]\naction = \"{}\"\n",
                    toml_quote(pattern),
                    if deny_first { "deny" } else { "allow" },
                    if deny_first { "allow" } else { "deny" }
                );
                let path = dir.join(format!("pattern-{i}.toml"));
                std::fs::write(&path, text).map_err(|e| e.to_string())?;
                let settings_text = format!("listen_address = \"127.0.0.1:1\"\nrules_file = {}\n[listen_protocols.http1]\n", toml_quote(&path.to_string_lossy()));
                let settings: Result<trusttunnel::settings::Settings, _> = toml::from_str(&settings_text);
                let _ = std::fs::remove_file(&path);
                let settings = settings.map_err(|e| format!("settings: {e}"))?;
                let eng = settings.get_rules_engine().as_ref().ok_or_else(|| "no rules engine".to_string())?;
                Ok(eng.evaluate(&peer, r) == RuleEvaluation::Allow)
            }
        }
    });
    let got = match got {
        Err(panic) => {
            return Err(Violation::new(
                format!("C04:pattern:panic:{entry_name}:{}", pattern_kind(pattern)),
                format!("evaluating client_random_prefix {pattern:?} against random {:?} panicked: {panic}", random.as_ref().map(hex::encode)),
                case,
            ))
        }
        Ok(Err(e)) => return Err(Violation::new("C04:machinery:pattern", e, case)),
        Ok(Ok(g)) => g,
    };
    let want = if random.is_none() {
        Want::Deny // fail closed
    } else {
        match ref_rule(None, Some(pattern), peer, r) {
            Tri::Match => if deny_first { Want::Deny } else { Want::Allow },
            Tri::NoMatch => if deny_first { Want::Allow } else { Want::Deny },
            Tri::Undefined => Want::DontCare,
        }
    };
    let ok = match want {
        Want::Allow => got,
        Want::Deny => !got,
        Want::DontCare => true,
    };
    if ok {
        return Ok(Cow::Owned(format!("{}:{want:?}:{}", pattern_kind(pattern), if got { "allow" } else { "deny" })));
    }
    Err(Violation::new(
        format!("C04:pattern:want-{want:?}:{entry_name}:{}", pattern_kind(pattern)),
        format!("rule list [{pattern:?} -> {}, anything -> the opposite], random {:?}: documented verdict {want:?}, endpoint {}", if deny_first { "deny" } else { "allow" }, random.as_ref().map(hex::encode), if got { "allows" } else { "denies" }),
        case,
    ))
}

fn pattern_kind(pattern: &str) -> String {
    match pattern.split_once('/') {
        None => "prefix".to_string(),
        Some((pre, mask)) => {
            let (p, m) = (pre.len() / 2, mask.len() / 2);
            let len = match m.cmp(&p) {
                _ if m == 0 => "empty-mask",
                std::cmp::Ordering::Less => "mask-shorter",
                std::cmp::Ordering::Equal => "mask-same-length",
                std::cmp::Ordering::Greater => "mask-longer",
            };
            let bytes: Vec<&str> = (0..m).map(|i| &mask[2 * i..2 * i + 2]).collect();
            let zeros = if m == 0 || !bytes.contains(&"00") {
                "no-zero-byte"
            } else if bytes.iter().all(|b| *b == "00") {
                "all-zero"
            } else if bytes[0] == "00" {
                "leading-zero-byte"
            } else if bytes.iter().skip_while(|b| **b != "00").any(|b| *b != "00") {
                "inner-zero-byte"
            } else {
                "trailing-zero-byte"
            };
            format!("{len}:{zeros}")
        }
    }
}

pub fn run(tier: Tier) -> i32 {
    let mut rep = Report::new("C04", tier, "exploration");
    let workers = rt::workers();
    let n = n_rule_specs();
    let peers: Vec<IpAddr> = PEERS.iter().map(|s| s.parse().unwrap()).collect();
    let rnds = randoms();
    let per_list = (peers.len() * rnds.len()) as u64;
    let max_len = tier.pick(2usize, 3usize);
    let mut classes = std::collections::BTreeSet::new();
    let mut complete = true;

    // (a) public engine: all lists up to max_len
    for len in 0..=max_len {
        let lists = n.pow(len as u32);
        let r = sweep_dyn(lists * per_list, 4096, Duration::from_secs(1200), workers, |i| {
            let rules = decode_list(i / per_list, len);
            let k = (i % per_list) as usize;
            let peer = peers[k / rnds.len()];
            let random = &rnds[k % rnds.len()];
            let got = eval_public(&rules, peer, random.as_deref());
            check_case("engine", &rules, peer, random, got)
        });
        rep.add("evaluations", r.evaluations);
        complete &= r.completed;
        classes.extend(r.classes.keys().map(|k| format!("engine:{k}")));
        rep.violations(r.violations);
        rep.sub.push(json!({"sub": format!("engine-lists-len-{len}"), "lists": lists, "evaluations": r.evaluations, "completed": r.completed}));
    }

    // (b) what core.rs calls: all lists of length <= 1 (quick) / <= 2 (thorough) with the listener's view of the peer
    let core_len = tier.pick(1usize, 3usize);
    for len in 0..=core_len {
        let lists = n.pow(len as u32);
        let r = sweep_dyn(lists * per_list, 256, Duration::from_secs(1200), workers, |i| {
            let rules = decode_list(i / per_list, len);
            let k = (i % per_list) as usize;
            let peer = peers[k / rnds.len()];
            let random = &rnds[k % rnds.len()];
            match eval_core(&rules, peer, random.as_deref()) {
                Ok(got) => check_case("core", &rules, peer, random, got),
                Err(e) => Err(Violation::new("C04:machinery", e, json!({}))),
            }
        });
        rep.add("evaluations", r.evaluations);
        complete &= r.completed;
        classes.extend(r.classes.keys().map(|k| format!("core:{k}")));
        rep.violations(r.violations);
        rep.sub.push(json!({"sub": format!("core-lists-len-{len}"), "lists": lists, "evaluations": r.evaluations, "completed": r.completed}));
    }

    // (c) TOML path: all lists of length <= 1 (quick) / <= 2 (thorough), plus file-level oddities
    let dir = std::env::temp_dir().join(format!("ttv-c04-{}", std::process::id()));
    let _ = std::fs::create_dir_all(&dir);
    let toml_len = tier.pick(1usize, 2usize);
    for len in 0..=toml_len {
        let lists = n.pow(len as u32);
        let r = sweep_dyn(lists * per_list, 256, Duration::from_secs(1200), workers, |i| {
            let rules = decode_list(i / per_list, len);
            let k = (i % per_list) as usize;
            let peer = peers[k / rnds.len()];
            let random = &rnds[k % rnds.len()];
            match eval_toml(&dir, i, &rules, "", peer, random.as_deref()) {
                Ok(got) => check_case("toml", &rules, peer, random, got),
                Err(e) => Err(Violation::new("C04:machinery:toml", e, json!({}))),
            }
        });
        rep.add("evaluations", r.evaluations);
        complete &= r.completed;
        classes.extend(r.classes.keys().map(|k| format!("toml:{k}")));
        rep.violations(r.violations);
        rep.sub.push(json!({"sub": format!("toml-lists-len-{len}"), "lists": lists, "evaluations": r.evaluations, "completed": r.completed}));
    }
    // a rule with an undocumented action must not change the verdict of the documented rules around it
    for (j, extra) in ["[[rule]]\ncidr = \"11.0.0.0/8\"\naction = \"drop\"\n", "[[rule]]\ncidr = \"11.0.0.0/8\"\n"].iter().enumerate() {
        for li in 0..n {
            let rules = decode_list(li, 1);
            for peer in &peers {
                if canonical(*peer).to_string().starts_with("11.") {
                    continue; // the odd rule itself is not defined by the documentation
                }
                for random in &rnds {
                    match eval_toml(&dir, 1_000_000 + j as u64, &rules, extra, *peer, random.as_deref()) {
                        Ok(got) => match check_case("toml-odd-action", &rules, *peer, random, got) {
                            Ok(c) => {
                                classes.insert(format!("toml-odd:{c}"));
                            }
                            Err(v) => rep.violation(v),
                        },
                        Err(e) => rep.violation(Violation::new("C04:machinery:toml", e, json!({}))),
                    }
                    rep.add("evaluations", 1);
                }
            }
        }
    }

    // (d) single-rule pattern sweep: every prefix/mask shape, through all three entry points
    {
        let pats = patterns();
        let prnds = pattern_randoms();
        let entries: u64 = 3;
        let total = pats.len() as u64 * prnds.len() as u64 * 2 * entries;
        let r = sweep_dyn(total, 512, Duration::from_secs(1200), workers, |i| {
            let entry = (i % entries) as usize;
            let j = i / entries;
            let deny_first = j % 2 == 1;
            let j = j / 2;
            let random = &prnds[(j % prnds.len() as u64) as usize];
            let pattern = &pats[(j / prnds.len() as u64) as usize];
            pattern_case(&dir, i, pattern, deny_first, entry, random)
        });
        rep.add("evaluations", r.evaluations);
        complete &= r.completed;
        classes.extend(r.classes.keys().map(|k| format!("pattern:{k}")));
        rep.violations(r.violations);
        rep.sub.push(json!({"sub": "single-rule-patterns", "patterns": pats.len(), "randoms": prnds.len(), "evaluations": r.evaluations, "completed": r.completed,
            "rule": "prefix of 1..=3 bytes over {00,aa,03} x (no mask | mask of 0..=4 bytes over {00,ff,f0}), as the first of two rules (allow-then-deny-all and deny-then-allow-all), x 11 randoms (absent, empty, 1 byte, 2 bytes, 7 full ones), through RulesEngine::evaluate, Core::evaluate_connection_rules and the rules_file path; a panic is a violation for every pattern, the verdict is compared where the documentation defines it (mask as long as the prefix, random at least as long)"}));
    }
    let _ = std::fs::remove_dir_all(&dir);

    rep.cov("distinct_nontrivial", classes.len() as u64);
    rep.cov("exhaustive", complete);
    rep.cov(
        "rule",
        format!("all rule lists of length <= {max_len} over {} cidr x {} client_random_prefix x 2 actions, x {} peers x {} randoms through RulesEngine::evaluate; lists <= {core_len} through Core::evaluate_connection_rules; lists <= {toml_len} through the rules_file TOML path; distinct = (entry point, documented verdict, observed verdict) classes", CIDRS.len(), PREFIXES.len(), PEERS.len(), rnds.len()),
    );
    rep.sample(json!({"rules": describe(&decode_list(37, 2)), "peer": PEERS[3], "random": "aabb0203.."}));
    rep.sample(json!({"rules": describe(&decode_list(101, 1)), "peer": PEERS[0], "random": null}));
    rep.assume("reference evaluator written from CONFIGURATION.md 'Rules Reference'; combinations it does not define (mask length != prefix length, empty pattern, random shorter than a masked pattern, IPv6 CIDR vs IPv4-mapped peer, undocumented action) are unconstrained");
    super::cq::c04_into(&mut rep);
    rep.finish()
}

pub fn replay(case: &serde_json::Value) -> Result<(), Violation> {
    let bad = || Violation::new("C04:machinery", "bad replay file", json!({}));
    if case["kind"] == "pattern" {
        let dir = std::env::temp_dir();
        let random: Option<Vec<u8>> = case["random"].as_str().map(|s| hex::decode(s).unwrap_or_default());
        return pattern_case(&dir, std::process::id() as u64, case["pattern"].as_str().ok_or_else(bad)?, case["deny_first"].as_bool().unwrap_or(false), case["entry"].as_u64().unwrap_or(0) as usize, &random).map(|_| ());
    }
    let rules: Vec<RuleSpec> = case["rules"]
        .as_array()
        .ok_or_else(bad)?
        .iter()
        .map(|r| {
            let cidr = CIDRS.iter().position(|c| c.map(|s| json!(s)).unwrap_or(json!(null)) == r["cidr"]);
            let prefix = PREFIXES
                .iter()
                .position(|c| c.map(|s| json!(s)).unwrap_or(json!(null)) == r["client_random_prefix"]);
            match (cidr, prefix) {
                (Some(c), Some(p)) => Ok(RuleSpec { cidr: c, prefix: p, deny: r["action"] == "deny" }),
                _ => Err(bad()),
            }
        })
        .collect::<Result<_, _>>()?;
    let peer: IpAddr = case["peer"].as_str().ok_or_else(bad)?.parse().map_err(|_| bad())?;
    let random: Option<Vec<u8>> = case["random"].as_str().map(|s| hex::decode(s).unwrap_or_default());
    let entry = case["entry"].as_str().unwrap_or("engine");
    let got = match entry {
        "core" => eval_core(&rules, peer, random.as_deref()).map_err(|e| Violation::new("C04:machinery", e, json!({})))?,
        "toml" | "toml-odd-action" => {
            let dir = std::env::temp_dir();
            eval_toml(&dir, std::process::id() as u64, &rules, "", peer, random.as_deref())
                .map_err(|e| Violation::new("C04:machinery", e, json!({})))?
        }
        _ => eval_public(&rules, peer, random.as_deref()),
    };
    let entry_static: &'static str = match entry {
        "core" => "core",
        "toml" => "toml",
        "toml-odd-action" => "toml-odd-action",
        _ => "engine",
    };
    check_case(entry_static, &rules, peer, &random, got).map(|_| ())
}
