use crate::engine::report::{Tier, Violation};
use std::cell::Cell;

pub mod common;
pub mod door;
pub mod c01;
pub mod c02;
pub mod c03;
pub mod c04;
pub mod c05;
pub mod c06;
pub mod c07;
pub mod c08;
pub mod c09;
pub mod c10;
pub mod c11;
pub mod c12;
pub mod c13;
pub mod c14;
pub mod c15;
pub mod c16;
pub mod c17;
pub mod c18;
pub mod c19;
pub mod c20;
pub mod c14b;
pub mod c11d;
pub mod c02d;
pub mod quic;
pub mod cq;

thread_local! {
    static EXPECT_PANIC: Cell<bool> = const { Cell::new(false) };
}

pub fn panics_are_expected() -> bool {
    EXPECT_PANIC.with(|c| c.get())
}

/// Run `f` with panics caught and silenced; `Err(message)` if it panicked.
pub fn guarded<T>(f: impl FnOnce() -> T) -> Result<T, String> {
    EXPECT_PANIC.with(|c| c.set(true));
    let r = std::panic::catch_unwind(std::panic::AssertUnwindSafe(f));
    EXPECT_PANIC.with(|c| c.set(false));
    r.map_err(|e| {
        if let Some(s) = e.downcast_ref::<&str>() {
            s.to_string()
        } else if let Some(s) = e.downcast_ref::<String>() {
            s.clone()
        } else {
            "panic".to_string()
        }
    })
}

pub fn run(id: &str, tier: Tier) -> i32 {
    match id {
        "C01" => c01::run(tier),
        "C02" => c02::run(tier),
        "C03" => c03::run(tier),
        "C04" => c04::run(tier),
        "C05" => c05::run(tier),
        "C06" => c06::run(tier),
        "C07" => c07::run(tier),
        "C08" => c08::run(tier),
        "C09" => c09::run(tier),
        "C10" => c10::run(tier),
        "C11" => c11::run(tier),
        "C12" => c12::run(tier),
        "C13" => c13::run(tier),
        "C14" => c14::run(tier),
        "C15" => c15::run(tier),
        "C16" => c16::run(tier),
        "C17" => c17::run(tier),
        "C18" => c18::run(tier),
        "C19" => c19::run(tier),
        "C20" => c20::run(tier),
        _ => {
            eprintln!("MACHINERY: no check for {id}");
            2
        }
    }
}

/// Re-execute one recorded case twice (determinism self-test), print the verdict.
pub fn replay(id: &str, file: &serde_json::Value) -> i32 {
    let case = &file["case"];
    let f: fn(&serde_json::Value) -> Result<(), Violation> = match id {
        "C01" => c01::replay,
        "C02" => c02::replay,
        "C03" => c03::replay,
        "C04" => c04::replay,
        "C05" => c05::replay,
        "C06" => c06::replay,
        "C07" => c07::replay,
        "C08" => c08::replay,
        "C09" => c09::replay,
        "C10" => c10::replay,
        "C11" => c11::replay,
        "C12" => c12::replay,
        "C13" => c13::replay,
        "C14" => c14::replay,
        "C15" => c15::replay,
        "C16" => c16::replay,
        "C17" => c17::replay,
        "C18" => c18::replay,
        "C19" => c19::replay,
        "C20" => c20::replay,
        _ => {
            eprintln!("MACHINERY: no replay for {id}");
            return 2;
        }
    };
    // the QUIC scenarios are shared by several properties
    let g = |c: &serde_json::Value| cq::replay(c).unwrap_or_else(|| f(c));
    let a = g(case);
    let b = g(case);
    let sa = a.as_ref().err().map(|v| v.signature.clone());
    let sb = b.as_ref().err().map(|v| v.signature.clone());
    if sa != sb {
        eprintln!("MACHINERY: replay is not deterministic: {sa:?} vs {sb:?}");
        return 2;
    }
    match a {
        Ok(()) => {
            println!("replay: property {id} holds on this case");
            0
        }
        Err(v) => {
            println!("VIOLATION property={id} replay=<given file>");
            println!("  signature: {}", v.signature);
            println!("  what: {}", v.what);
            1
        }
    }
}
