//! A QUIC / HTTP/3 client (quiche) for driving the real `Core::listen` UDP listener on loopback.
//! Everything is non-blocking and stepped by the harness; the TLS key log gives the client random.

use std::net::{SocketAddr, UdpSocket};
use std::sync::{Arc, Mutex};
use std::time::{Duration, Instant};

pub struct KeyLog(pub Arc<Mutex<Vec<u8>>>);
impl std::io::Write for KeyLog {
    fn write(&mut self, b: &[u8]) -> std::io::Result<usize> {
        self.0.lock().unwrap().extend_from_slice(b);
        Ok(b.len())
    }
    fn flush(&mut self) -> std::io::Result<()> {
        Ok(())
    }
}

#[derive(Clone, Debug)]
pub struct ClientOpts {
    pub sni: String,
    /// extra ALPN entries before h3 (a long list makes the ClientHello span several Initial packets)
    pub extra_alpn: usize,
    /// the client's per-stream receive window
    pub stream_window: u64,
    pub version: u32,
}

impl Default for ClientOpts {
    fn default() -> Self {
        Self { sni: "m.t".into(), extra_alpn: 0, stream_window: 1_000_000, version: quiche::PROTOCOL_VERSION }
    }
}

pub struct QuicClient {
    pub sock: UdpSocket,
    pub conn: quiche::Connection,
    pub h3: Option<quiche::h3::Connection>,
    pub peer: SocketAddr,
    pub keylog: Arc<Mutex<Vec<u8>>>,
    /// datagrams sent / received
    pub sent: usize,
    pub received: usize,
}

#[derive(Debug, Default, Clone)]
pub struct H3Response {
    pub status: Option<u16>,
    pub headers: Vec<(String, String)>,
    pub body: Vec<u8>,
    pub finished: bool,
    pub reset: Option<u64>,
}

static SCID_COUNTER: std::sync::atomic::AtomicU64 = std::sync::atomic::AtomicU64::new(1);

impl QuicClient {
    pub fn new(peer: SocketAddr, o: &ClientOpts) -> Result<Self, String> {
        let sock = UdpSocket::bind("127.0.0.1:0").map_err(|e| e.to_string())?;
        sock.set_nonblocking(true).map_err(|e| e.to_string())?;
        let mut scid = [0u8; quiche::MAX_CONN_ID_LEN];
        let n = SCID_COUNTER.fetch_add(1, std::sync::atomic::Ordering::Relaxed);
        scid[..8].copy_from_slice(&n.to_be_bytes());
        scid[8..12].copy_from_slice(&std::process::id().to_be_bytes());
        let mut config = quiche::Config::new(o.version).map_err(|e| e.to_string())?;
        config.verify_peer(false);
        config.set_max_idle_timeout(5000);
        config.set_max_recv_udp_payload_size(1350);
        config.set_max_send_udp_payload_size(1350);
        config.set_initial_max_data(10_000_000);
        config.set_initial_max_stream_data_bidi_local(o.stream_window);
        config.set_initial_max_stream_data_bidi_remote(1_000_000);
        config.set_initial_max_stream_data_uni(1_000_000);
        config.set_initial_max_streams_bidi(100);
        config.set_initial_max_streams_uni(100);
        config.log_keys();
        let filler: Vec<Vec<u8>> = (0..o.extra_alpn).map(|i| format!("x-verif-filler-protocol-{i:04}-{}", "p".repeat(200)).into_bytes()).collect();
        let mut protos: Vec<&[u8]> = filler.iter().map(|v| v.as_slice()).collect();
        for p in quiche::h3::APPLICATION_PROTOCOL {
            protos.push(p);
        }
        config.set_application_protos(&protos).map_err(|e| e.to_string())?;
        let local = sock.local_addr().map_err(|e| e.to_string())?;
        let mut conn = quiche::connect(Some(&o.sni), &quiche::ConnectionId::from_ref(&scid), local, peer, &mut config).map_err(|e| e.to_string())?;
        let keylog = Arc::new(Mutex::new(Vec::new()));
        conn.set_keylog(Box::new(KeyLog(keylog.clone())));
        Ok(Self { sock, conn, h3: None, peer, keylog, sent: 0, received: 0 })
    }

    /// one round of: flush what quiche wants to send, read what arrived, handle timeouts
    pub fn pump(&mut self) {
        let mut out = [0u8; 1500];
        loop {
            match self.conn.send(&mut out) {
                Ok((n, info)) => {
                    let _ = self.sock.send_to(&out[..n], info.to);
                    self.sent += 1;
                }
                Err(_) => break,
            }
        }
        let mut buf = [0u8; 65535];
        loop {
            match self.sock.recv_from(&mut buf) {
                Ok((n, from)) => {
                    self.received += 1;
                    let info = quiche::RecvInfo { from, to: self.sock.local_addr().unwrap() };
                    let _ = self.conn.recv(&mut buf[..n], info);
                }
                Err(_) => break,
            }
        }
        if let Some(t) = self.conn.timeout() {
            if t.is_zero() {
                self.conn.on_timeout();
            }
        }
        loop {
            match self.conn.send(&mut out) {
                Ok((n, info)) => {
                    let _ = self.sock.send_to(&out[..n], info.to);
                    self.sent += 1;
                }
                Err(_) => break,
            }
        }
    }

    /// pump (yielding to the runtime in between) until `done` or the wall expires
    pub async fn drive(&mut self, wall: Duration, mut done: impl FnMut(&mut Self) -> bool) -> bool {
        let t0 = Instant::now();
        loop {
            self.pump();
            if done(self) {
                return true;
            }
            if t0.elapsed() > wall {
                return false;
            }
            for _ in 0..5 {
                tokio::task::yield_now().await;
            }
            tokio::time::sleep(Duration::from_millis(1)).await;
        }
    }

    pub async fn handshake(&mut self, wall: Duration) -> bool {
        let ok = self.drive(wall, |c| c.conn.is_established() || c.conn.is_closed()).await;
        if ok && self.conn.is_established() && self.h3.is_none() {
            if let Ok(cfg) = quiche::h3::Config::new() {
                self.h3 = quiche::h3::Connection::with_transport(&mut self.conn, &cfg).ok();
            }
            self.pump();
        }
        ok && self.conn.is_established()
    }

    /// the client random of this connection, from the TLS key log
    pub fn client_random(&self) -> Option<Vec<u8>> {
        let log = self.keylog.lock().unwrap();
        let text = String::from_utf8_lossy(&log);
        for line in text.lines() {
            let mut it = line.split_whitespace();
            let (Some(label), Some(random)) = (it.next(), it.next()) else { continue };
            if label.starts_with("CLIENT_") || label.starts_with("SERVER_") || label == "EXPORTER_SECRET" {
                if let Ok(r) = hex::decode(random) {
                    if r.len() == 32 {
                        return Some(r);
                    }
                }
            }
        }
        None
    }

    pub fn peer_cert(&self) -> Option<Vec<u8>> {
        self.conn.peer_cert().map(|c| c.to_vec())
    }

    pub fn request(&mut self, method: &str, authority: &str, path: Option<&str>, headers: &[(String, String)], fin: bool) -> Result<u64, String> {
        let h3 = self.h3.as_mut().ok_or("no HTTP/3 connection")?;
        let mut req = vec![quiche::h3::Header::new(b":method", method.as_bytes()), quiche::h3::Header::new(b":authority", authority.as_bytes())];
        if let Some(p) = path {
            req.push(quiche::h3::Header::new(b":scheme", b"https"));
            req.push(quiche::h3::Header::new(b":path", p.as_bytes()));
        }
        for (n, v) in headers {
            req.push(quiche::h3::Header::new(n.to_ascii_lowercase().as_bytes(), v.as_bytes()));
        }
        let id = h3.send_request(&mut self.conn, &req, fin).map_err(|e| e.to_string())?;
        self.pump();
        Ok(id)
    }

    pub fn send_body(&mut self, stream: u64, data: &[u8], fin: bool) -> Result<usize, String> {
        let h3 = self.h3.as_mut().ok_or("no HTTP/3 connection")?;
        let r = h3.send_body(&mut self.conn, stream, data, fin).map_err(|e| e.to_string());
        self.pump();
        r
    }

    /// collect the response of `stream` until it finishes, is reset, or the wall expires;
    /// `read_limit`: read at most this many body bytes per round (a slow reader)
    pub async fn response(&mut self, stream: u64, wall: Duration, read_limit: usize, want_body: Option<usize>) -> H3Response {
        use quiche::h3::NameValue;
        let mut r = H3Response::default();
        let t0 = Instant::now();
        loop {
            self.pump();
            let mut progressed = false;
            loop {
                let Some(h3) = self.h3.as_mut() else { break };
                match h3.poll(&mut self.conn) {
                    Ok((id, quiche::h3::Event::Headers { list, .. })) if id == stream => {
                        for h in &list {
                            let n = String::from_utf8_lossy(h.name()).into_owned();
                            let v = String::from_utf8_lossy(h.value()).into_owned();
                            if n == ":status" {
                                r.status = v.parse().ok();
                            } else {
                                r.headers.push((n, v));
                            }
                        }
                        progressed = true;
                    }
                    Ok((id, quiche::h3::Event::Data)) if id == stream => {
                        let mut buf = vec![0u8; read_limit.max(1)];
                        if let Ok(n) = h3.recv_body(&mut self.conn, stream, &mut buf) {
                            r.body.extend_from_slice(&buf[..n]);
                            progressed = true;
                        }
                        break; // a slow reader takes one piece per round
                    }
                    Ok((id, quiche::h3::Event::Finished)) if id == stream => {
                        r.finished = true;
                        progressed = true;
                    }
                    Ok((id, quiche::h3::Event::Reset(code))) if id == stream => {
                        r.reset = Some(code);
                        progressed = true;
                    }
                    Ok(_) => progressed = true,
                    Err(quiche::h3::Error::Done) => break,
                    Err(_) => {
                        r.reset.get_or_insert(u64::MAX);
                        break;
                    }
                }
            }
            // data may be readable without a new event
            if let Some(h3) = self.h3.as_mut() {
                let mut buf = vec![0u8; read_limit.max(1)];
                if let Ok(n) = h3.recv_body(&mut self.conn, stream, &mut buf) {
                    if n > 0 {
                        r.body.extend_from_slice(&buf[..n]);
                        progressed = true;
                    }
                }
            }
            self.pump();
            let enough = want_body.map(|w| r.body.len() >= w).unwrap_or(false);
            if r.finished || r.reset.is_some() || self.conn.is_closed() || (enough && r.status.is_some()) {
                if std::env::var_os("VERIF_DEBUG").is_some() {
                    eprintln!("h3 response ends: status {:?} body {} finished {} reset {:?} closed {} peer_error {:?} local_error {:?}", r.status, r.body.len(), r.finished, r.reset, self.conn.is_closed(), self.conn.peer_error(), self.conn.local_error());
                }
                return r;
            }
            if t0.elapsed() > wall {
                return r;
            }
            if !progressed {
                for _ in 0..5 {
                    tokio::task::yield_now().await;
                }
                tokio::time::sleep(Duration::from_millis(1)).await;
            }
        }
    }

    pub fn close(&mut self) {
        let _ = self.conn.close(true, 0x100, b"done");
        self.pump();
    }
}

/// a free loopback port number for both TCP and UDP
pub fn free_port() -> Result<u16, String> {
    for _ in 0..20 {
        let t = std::net::TcpListener::bind("127.0.0.1:0").map_err(|e| e.to_string())?;
        let port = t.local_addr().unwrap().port();
        if UdpSocket::bind(("127.0.0.1", port)).is_ok() {
            return Ok(port);
        }
    }
    Err("no port free for both TCP and UDP".into())
}
