//! C10 — every tunnel request gets exactly one, correctly coded, final response.
//!
//! method x authority x outcome of the outbound connection attempt x protocol x client behaviour
//! through the real accept path (real DirectForwarder, `connect(2)`/`getaddrinfo` interposed, a
//! black-hole listener for "never completes" with the virtual clock advanced past the
//! establishment timeout). Oracle: status / X-Warning table from the statement.

use super::c01::{self, b64, USERS};
use super::common::{make_world, Cfg};
use super::door::{self, H1Client, H2Client, H2Outcome, ReqSpec, Resp};
use crate::engine::explore::sweep_dyn;
use crate::engine::report::{Report, Tier, Violation};
use crate::engine::rt;
use crate::engine::sys::{self, ConnectAnswer, HostAnswer, SysEvent};
use serde_json::json;
use std::borrow::Cow;
use std::cell::Cell;
use std::net::SocketAddr;
use std::time::Duration;
use trusttunnel::verif_hooks::VProtocol;

pub const OUTCOMES: [&str; 12] = [
    "connected", "econnrefused", "enetunreach", "ehostunreach", "etimedout", "never-completes",
    "policy-loopback", "policy-nonroutable", "resolver-noname", "resolver-only-v6-unavailable", "emfile", "bad-credentials",
];

pub const AUTHORITIES: [&str; 16] = [
    "host:port", "ip:port", "_check", "_udp2", "_icmp", "_CHECK", "_check:0", "_check.", "x_check", "_udp", "_udp2:7", "_icmp:7",
    "host-no-port", "[v6]:port", "[v6]-no-port", "v6-unbracketed",
];

#[derive(Clone, Debug, serde::Serialize, serde::Deserialize, PartialEq, Eq, Hash)]
pub struct Case {
    pub h2: bool,
    pub method: String,
    pub authority: String,
    pub outcome: String,
    /// "waits" | "closes"
    pub client: String,
}

thread_local! {
    static ERRNO: Cell<i32> = const { Cell::new(0) };
    static REDIRECT: Cell<u16> = const { Cell::new(0) };
}

fn rule(_a: &SocketAddr, t: i32) -> ConnectAnswer {
    if t != libc::SOCK_STREAM {
        return ConnectAnswer::Errno(libc::ENETUNREACH);
    }
    let e = ERRNO.with(|c| c.get());
    if e != 0 {
        ConnectAnswer::Errno(e)
    } else {
        ConnectAnswer::RedirectLoopback(REDIRECT.with(|c| c.get()))
    }
}

#[derive(Debug, Clone, PartialEq, Eq)]
pub enum Expect {
    /// exact status and, if Some, the X-Warning code prefix; bool: X-Adguard-Vpn-Error must echo the authority
    Status(u16, Option<&'static str>, bool),
    /// any single final response that is not a success
    Refused,
    /// exactly one final response, any status
    AnyOne,
    /// a request line the protocol library may refuse outright: at most one final response
    AnyOrNone,
}

/// the destination host used in this case and how the resolver/connector will answer
struct Plan {
    target: String,
    expect: Expect,
    reserved: bool,
}

fn plan(c: &Case, tag: &str, canary: SocketAddr, hole: u16) -> Plan {
    let host = format!("h.{tag}.c10.test");
    let global_v4 = "93.184.216.34";
    // which address does the destination have?
    let (ip4, ip6): (&str, &str) = match c.outcome.as_str() {
        "policy-loopback" => ("127.0.0.1", "::1"),
        "policy-nonroutable" => ("10.0.0.1", "fd00::1"),
        _ => (global_v4, "2606:2800:220:1::1"),
    };
    let port = canary.port();
    let target = match c.authority.as_str() {
        "host:port" => format!("{host}:{port}"),
        "ip:port" => format!("{ip4}:{port}"),
        "host-no-port" => host.clone(),
        "[v6]:port" => format!("[{ip6}]:{port}"),
        "[v6]-no-port" => format!("[{ip6}]"),
        "v6-unbracketed" => format!("{ip6}:{port}"),
        x => x.to_string(),
    };
    ERRNO.with(|e| {
        e.set(match c.outcome.as_str() {
            "econnrefused" => libc::ECONNREFUSED,
            "enetunreach" => libc::ENETUNREACH,
            "ehostunreach" => libc::EHOSTUNREACH,
            "etimedout" => libc::ETIMEDOUT,
            "emfile" => libc::EMFILE,
            _ => 0,
        })
    });
    REDIRECT.with(|r| r.set(if c.outcome == "never-completes" { hole } else { port }));
    match c.outcome.as_str() {
        "resolver-noname" => sys::script_host(&host, HostAnswer::Fail(libc::EAI_NONAME)),
        "resolver-only-v6-unavailable" => sys::script_host(&host, HostAnswer::Addrs(vec![ip6.parse().unwrap()])),
        _ => sys::script_host(&host, HostAnswer::Addrs(vec![ip4.parse().unwrap()])),
    }
    for n in ["_CHECK", "_check", "_check.", "x_check", "_udp"] {
        // names that merely resemble the reserved ones resolve nowhere
        let _ = n;
    }
    let reserved = matches!(c.authority.as_str(), "_check" | "_udp2" | "_icmp");
    let connect = c.method == "CONNECT";
    let expect = if c.authority == "v6-unbracketed" {
        Expect::AnyOrNone
    } else if c.outcome == "bad-credentials" {
        Expect::Status(407, None, false)
    } else if reserved {
        if connect { Expect::Status(200, None, false) } else { Expect::Status(502, None, false) }
    } else if matches!(c.authority.as_str(), "host-no-port" | "[v6]-no-port") && connect {
        Expect::Refused
    } else if matches!(c.authority.as_str(), "host:port" | "ip:port" | "[v6]:port") && connect {
        let uses_resolver = c.authority == "host:port";
        let v6 = c.authority == "[v6]:port";
        match c.outcome.as_str() {
            "connected" => Expect::Status(200, None, false),
            "econnrefused" | "emfile" => Expect::Status(502, Some("300"), false),
            "enetunreach" | "ehostunreach" => Expect::Status(502, Some("301"), false),
            "etimedout" | "never-completes" => Expect::Status(502, Some("302"), false),
            "policy-loopback" => Expect::Status(502, Some("311"), true),
            "policy-nonroutable" => Expect::Status(502, Some("310"), true),
            "resolver-noname" if uses_resolver => Expect::Status(502, Some("300"), false),
            "resolver-only-v6-unavailable" if uses_resolver => Expect::Status(502, Some("300"), false),
            // literals do not use the resolver: the destination is reachable
            "resolver-noname" | "resolver-only-v6-unavailable" => {
                let _ = v6;
                Expect::Status(200, None, false)
            }
            _ => Expect::AnyOne,
        }
    } else if c.authority == "v6-unbracketed" {
        Expect::AnyOrNone
    } else {
        // look-alikes of the reserved names, other methods on ordinary hosts:
        // the statement only requires exactly one final response
        Expect::AnyOne
    };
    Plan { target, expect, reserved }
}

#[derive(Debug, Clone, serde::Serialize)]
pub struct Obs {
    pub responses: Vec<Resp>,
    pub trailing_bytes: usize,
    pub reset: Option<String>,
    pub connects: Vec<String>,
    pub resolves: Vec<String>,
    pub session_task_finished: bool,
}

async fn run_case(c: &Case, tag: &str) -> Result<(Obs, Expect, bool, String), String> {
    let allow_private = !c.outcome.starts_with("policy-");
    let cfg = Cfg {
        allow_private,
        ipv6_available: c.outcome != "resolver-only-v6-unavailable",
        clients: USERS.iter().map(|(u, p)| (u.to_string(), p.to_string())).collect(),
        connect_timeout: Duration::from_secs(30),
        ..Cfg::default()
    };
    let world = make_world(&cfg)?;
    let canary = door::start_canary().await;
    let hole = if c.outcome == "never-completes" { Some(door::black_hole()?) } else { None };
    let p = plan(c, tag, canary.addr, hole.as_ref().map(|h| h.port).unwrap_or(0));
    sys::script_connect(Some(rule));
    sys::take_connect_log();
    let auth = if c.outcome == "bad-credentials" {
        format!("Basic {}", b64(USERS[0].0, "wrong"))
    } else {
        format!("Basic {}", b64(USERS[0].0, USERS[0].1))
    };
    let spec = if c.method == "CONNECT" {
        ReqSpec::connect(&p.target).with_auth(Some(auth.into_bytes()))
    } else {
        ReqSpec { method: c.method.clone(), target: format!("http://{}/", p.target), proxy_auth: Some(auth.into_bytes()), headers: vec![] }
    };
    let proto = if c.h2 { VProtocol::Http2 } else { VProtocol::Http1 };
    let peer: SocketAddr = "198.51.100.7:40000".parse().unwrap();
    let (io, d) = door::open(&world.ctx, proto, "m.t", None, peer, 1 << 16);
    let wall = Duration::from_secs(5);
    let mut responses = vec![];
    let mut trailing = 0usize;
    let mut reset = None;
    let closes = c.client == "closes";
    if !c.h2 {
        let mut cl = H1Client::new(io);
        let sent = cl.send(&spec.h1_bytes()).await;
        if !sent {
            reset = Some("send failed".into());
        }
        if closes {
            drop(cl);
        } else {
            if c.outcome == "never-completes" {
                door::spin(200).await;
                tokio::time::advance(Duration::from_secs(30) + Duration::from_millis(1)).await;
            }
            if let Some(r) = cl.response(wall).await {
                responses.push(r);
            }
            // anything else the endpoint writes on this connection (the canary echoes nothing unasked)
            cl.pump(200).await;
            while let Some(r) = cl.take_response() {
                responses.push(r);
            }
            trailing = cl.inbuf.len();
            if responses.is_empty() {
                reset = cl.io_error.clone().or(Some(if cl.eof { "eof".into() } else { "silence".into() }));
            }
            drop(cl);
        }
    } else {
        match H2Client::connect(io).await {
            Err(e) => reset = Some(e),
            Ok(mut cl) => match spec.h2_request() {
                Err(e) => return Err(format!("client cannot express the request: {e}")),
                Ok(req) => match cl.request(req, false).await {
                    Err(e) => reset = Some(e),
                    Ok(mut st) => {
                        if closes {
                            drop(st);
                            drop(cl);
                        } else {
                            if c.outcome == "never-completes" {
                                door::spin(200).await;
                                tokio::time::advance(Duration::from_secs(30) + Duration::from_millis(1)).await;
                            }
                            match st.response(wall).await {
                                H2Outcome::Response(r) => responses.push(r),
                                H2Outcome::Reset(e) => reset = Some(e),
                                H2Outcome::Nothing => reset = Some("silence".into()),
                            }
                            let (b, _, _) = st.body(100).await;
                            trailing = b.len();
                            drop(st);
                            drop(cl);
                        }
                    }
                },
            },
        }
    }
    // after the client is gone the session must wind down
    let mut task = d.task;
    let finished = {
        let mut f = Box::pin(&mut task);
        let mut done = false;
        for _ in 0..3000 {
            if door::poll_once(&mut f).await.is_some() {
                done = true;
                break;
            }
            tokio::task::yield_now().await;
        }
        done
    };
    if !finished {
        task.abort();
    }
    let connects: Vec<String> = sys::take_connect_log().into_iter().filter_map(|e| match e {
        SysEvent::Connect { addr, sock_type } if sock_type == libc::SOCK_STREAM => Some(addr.to_string()),
        _ => None,
    }).collect();
    let resolves = sys::take_resolve_log(|n| n.contains(tag) || n.starts_with('_') || n.starts_with("x_"));
    sys::unscript_host(&format!("h.{tag}.c10.test"));
    Ok((Obs { responses, trailing_bytes: trailing, reset, connects, resolves, session_task_finished: finished }, p.expect, p.reserved, p.target))
}

fn judge(c: &Case, o: &Obs, exp: &Expect, reserved: bool, target: &str) -> Result<&'static str, Violation> {
    let proto = if c.h2 { "h2" } else { "h1" };
    let case = json!({"case": c});
    let mk = |sig: String, what: String| Violation::new(sig, format!("{what}; case={c:?} target={target} expected={exp:?} observed={o:?}"), case.clone());
    if reserved && (!o.connects.is_empty() || !o.resolves.is_empty()) {
        return Err(mk(format!("C10:reserved-authority-treated-as-host:{}:{proto}", c.authority), "a reserved authority reached the resolver/connector".into()));
    }
    if c.client == "closes" {
        if !o.session_task_finished {
            return Err(mk(format!("C10:session-not-released-after-client-close:{}:{proto}", c.outcome), "the client went away and the session task is still alive".into()));
        }
        return Ok("client-closed");
    }
    let finals: Vec<&Resp> = o.responses.iter().filter(|r| r.status >= 200).collect();
    if finals.len() > 1 {
        return Err(mk(format!("C10:more-than-one-final-response:{proto}"), format!("{} final responses", finals.len())));
    }
    if finals.is_empty() && *exp == Expect::AnyOrNone {
        return Ok("unparseable-request-dropped");
    }
    if finals.is_empty() {
        return Err(mk(format!("C10:no-final-response:{}:{}:{}:{proto}", c.method, c.authority, c.outcome), "the request got no final response".into()));
    }
    let r = finals[0];
    match exp {
        Expect::AnyOne | Expect::AnyOrNone => Ok("one-response"),
        Expect::Refused => {
            if (200..300).contains(&r.status) {
                return Err(mk(format!("C10:accepted-must-refuse:{}:{proto}", c.authority), format!("answered {}", r.status)));
            }
            Ok("refused")
        }
        Expect::Status(s, warn, echo) => {
            if r.status != *s {
                return Err(mk(format!("C10:wrong-status:{}:{}:{}:want{}:{proto}", c.method, c.authority, c.outcome, s), format!("answered {} instead of {s}", r.status)));
            }
            if let Some(w) = warn {
                let got = r.header("x-warning").unwrap_or("");
                if !got.starts_with(w) {
                    return Err(mk(format!("C10:wrong-warning:{}:want{}:{proto}", c.outcome, w), format!("X-Warning {got:?} does not carry code {w}")));
                }
            }
            if *echo && r.header("x-adguard-vpn-error") != Some(target) {
                return Err(mk(format!("C10:host-not-echoed:{}:{proto}", c.outcome), format!("X-Adguard-Vpn-Error {:?} != {target}", r.header("x-adguard-vpn-error"))));
            }
            if *s == 407 && !r.header("proxy-authenticate").unwrap_or("").starts_with("Basic") {
                return Err(mk(format!("C10:407-without-challenge:{proto}"), "no Basic challenge".into()));
            }
            if *s == 200 && c.authority != "_check" && (c.authority == "host:port" || c.authority == "ip:port" || c.authority == "[v6]:port") && o.connects.len() != 1 {
                return Err(mk(format!("C10:200-before-connected:{proto}"), format!("200 with connect log {:?}", o.connects)));
            }
            Ok(match *s { 200 => "200", 407 => "407", _ => "502" })
        }
    }
}

fn cases(tier: Tier) -> Vec<Case> {
    let mut v = vec![];
    for h2 in [false, true] {
        for a in AUTHORITIES {
            for o in OUTCOMES {
                let real_dest = matches!(a, "host:port" | "ip:port" | "[v6]:port");
                if !real_dest && !matches!(o, "connected" | "bad-credentials") {
                    continue;
                }
                if a != "host:port" && o.starts_with("resolver") {
                    continue;
                }
                if a == "[v6]:port" && o == "never-completes" {
                    continue; // the black hole is IPv4 only
                }
                for client in ["waits", "closes"] {
                    if client == "closes" && tier == Tier::Quick && !matches!(o, "connected" | "never-completes" | "econnrefused") {
                        continue;
                    }
                    v.push(Case { h2, method: "CONNECT".into(), authority: a.into(), outcome: o.into(), client: client.into() });
                }
            }
        }
        for m in ["GET", "POST", "OPTIONS", "HEAD"] {
            for a in ["_check", "_udp2", "_icmp", "host:port"] {
                for o in ["connected", "econnrefused", "bad-credentials"] {
                    if a != "host:port" && o == "econnrefused" {
                        continue;
                    }
                    v.push(Case { h2, method: m.into(), authority: a.into(), outcome: o.into(), client: "waits".into() });
                }
            }
        }
    }
    v
}

pub fn run_case_sync(c: &Case, tag: &str) -> Result<&'static str, Violation> {
    match rt::run_paused(run_case(c, tag)) {
        Err(e) if e.starts_with("client cannot express") => Ok("inexpressible"),
        Err(e) => Err(Violation::new("C10:machinery", e, json!({"case": c}))),
        Ok((o, exp, reserved, target)) => judge(c, &o, &exp, reserved, &target),
    }
}

pub fn run(tier: Tier) -> i32 {
    crate::engine::watch::start("C10", tier.name(), Duration::from_secs(90), crate::engine::watch::OnExpiry::Machinery);
    let mut rep = Report::new("C10", tier, "exploration");
    let all = cases(tier);
    // getaddrinfo runs on the blocking pool, so the resolver log is process-wide: cases whose
    // authority merely resembles a reserved name (and therefore resolves "_check", "x_check", ...)
    // run in a phase of their own, never concurrently with the reserved-authority cases
    let lookalike = |c: &Case| matches!(c.authority.as_str(), "_CHECK" | "_check:0" | "_check." | "x_check" | "_udp" | "_udp2:7" | "_icmp:7");
    let (phase2, phase1): (Vec<Case>, Vec<Case>) = all.into_iter().partition(|c| lookalike(c));
    let mut cs: Vec<Case> = vec![];
    let mut completed = true;
    let mut classes = std::collections::BTreeSet::new();
    for (pi, phase) in [phase1, phase2].into_iter().enumerate() {
        let r = sweep_dyn(phase.len() as u64, 1, Duration::from_secs(1500), rt::workers(), |i| {
            let c = &phase[i as usize];
            let _g = crate::engine::watch::enter("C10:wedged".into(), json!({"case": c}).to_string());
            run_case_sync(c, &format!("k{pi}x{i}")).map(|k| Cow::Owned(format!("{}:{}:{k}", if c.h2 { "h2" } else { "h1" }, c.outcome)))
        });
        rep.add("evaluations", r.evaluations);
        classes.extend(r.classes.keys().cloned());
        rep.violations(r.violations);
        completed &= r.completed;
        cs.extend(phase);
    }
    rep.add("distinct_nontrivial", classes.len() as u64);
    rep.cov("exhaustive", completed);
    rep.cov("rule", format!("CONNECT x {} authorities x {} connection outcomes x {{h1,h2}} x {{client waits, client closes}} plus GET/POST/OPTIONS/HEAD on reserved authorities and an ordinary host; {} scenarios; distinct = (protocol, outcome, verdict class)", AUTHORITIES.len(), OUTCOMES.len(), cs.len()));
    rep.sample(json!({"case": cs[5], "expected": "see table in c10.rs::plan"}));
    rep.assume("connect(2) outcomes are produced by the interposer (errno) or a black-hole listener + virtual clock (never completes); HTTP/3 not driven");
    let _ = c01::HEADERS;
    super::cq::c10_into(&mut rep);
    rep.finish()
}

pub fn replay(case: &serde_json::Value) -> Result<(), Violation> {
    let c: Case = serde_json::from_value(case["case"].clone()).map_err(|_| Violation::new("C10:machinery", "bad replay file", json!({})))?;
    run_case_sync(&c, "replay").map(|_| ())
}
