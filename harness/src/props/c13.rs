//! C13 — configured credentials and settings mean exactly what the files say.
//!
//! (A) every user name / password of length 1..=3 (quick) / 1..=4 (thorough) over a quoting
//! alphabet, written in each TOML string form that can express it, read through the production
//! `Settings` deserialiser; the accepted set, the authenticator's verdicts and the exported client
//! configuration must carry exactly the written strings. (B) setup wizard -> endpoint round trip
//! through the two real binaries. (C) start-up truth table through builder and TOML paths.

use crate::engine::explore::sweep_dyn;
use crate::engine::report::{verif_root, Report, Tier, Violation};
use crate::engine::rt;
use base64::Engine;
use serde_json::json;
use std::borrow::Cow;
use std::path::{Path, PathBuf};
use std::time::Duration;
use trusttunnel::authentication::registry_based::RegistryBasedAuthenticator;
use trusttunnel::authentication::{Authenticator, Source, Status};
use trusttunnel::log_utils::IdChain;
use trusttunnel::settings::{Settings, TlsHostsSettings};

const ALPHA: [char; 10] = ['a', ' ', '"', '\'', '\\', '#', '=', 'é', '😀', '\t'];
const FORMS: [&str; 4] = ["basic", "literal", "multiline-basic", "multiline-literal"];

fn nth_string(mut i: u64) -> String {
    // all strings of length 1, then 2, ... over ALPHA
    let k = ALPHA.len() as u64;
    let mut len = 1u32;
    loop {
        let n = k.pow(len);
        if i < n {
            break;
        }
        i -= n;
        len += 1;
    }
    let mut s = String::new();
    for _ in 0..len {
        s.push(ALPHA[(i % k) as usize]);
        i /= k;
    }
    s
}

fn count_strings(max_len: u32) -> u64 {
    (1..=max_len).map(|l| (ALPHA.len() as u64).pow(l)).sum()
}

/// an independent TOML string writer (TOML v1.0 section "String")
fn toml_string(s: &str, form: &str) -> Option<String> {
    let esc = |s: &str| -> String {
        let mut o = String::new();
        for c in s.chars() {
            match c {
                '\\' => o.push_str("\\\\"),
                '"' => o.push_str("\\\""),
                '\t' => o.push_str("\\t"),
                c if (c as u32) < 0x20 || c as u32 == 0x7f => o.push_str(&format!("\\u{:04X}", c as u32)),
                c => o.push(c),
            }
        }
        o
    };
    match form {
        "basic" => Some(format!("\"{}\"", esc(s))),
        "literal" => (!s.contains('\'')).then(|| format!("'{s}'")),
        "multiline-basic" => Some(format!("\"\"\"{}\"\"\"", esc(s))),
        "multiline-literal" => (!s.contains('\'')).then(|| format!("'''{s}'''")),
        _ => None,
    }
}

fn fixtures_hosts_toml() -> String {
    format!(
        "[[main_hosts]]\nhostname = \"m.t\"\ncert_chain_path = \"{}\"\nprivate_key_path = \"{}\"\n",
        rt::cert_path("m.t"),
        rt::key_path("m.t")
    )
}

fn b64(u: &str, p: &str) -> String {
    base64::engine::general_purpose::STANDARD.encode(format!("{u}:{p}"))
}

fn classify(s: &str) -> &'static str {
    if s.starts_with(' ') || s.ends_with(' ') || s.starts_with('\t') || s.ends_with('\t') {
        "surrounding-whitespace"
    } else if s.contains('"') {
        "double-quote"
    } else if s.contains('\\') {
        "backslash"
    } else if s.contains('\'') {
        "single-quote"
    } else if s.contains('\t') {
        "tab"
    } else if s.contains('#') || s.contains('=') {
        "comment-or-equals-char"
    } else if !s.is_ascii() {
        "unicode"
    } else {
        "plain"
    }
}

fn check_pair(dir: &Path, tag: u64, user: &str, pass: &str, form: &str, two_clients: bool) -> Result<Cow<'static, str>, Violation> {
    let (Some(u_t), Some(p_t)) = (toml_string(user, form), toml_string(pass, form)) else {
        return Ok(Cow::Borrowed("inexpressible-in-this-form"));
    };
    let case = json!({"kind":"credentials","user":user,"password":pass,"form":form,"two_clients":two_clients});
    let mut text = String::from("# credentials written by tt-verif\n");
    if two_clients {
        text.push_str("[[client]]\npassword = \"first-pw\" # a comment\nusername = \"first\"\n\n");
    }
    text.push_str(&format!("[[client]]\nusername = {u_t}\npassword = {p_t}   # trailing comment\n"));
    // the writer is validated against an independent reading of the file as TOML
    match toml::from_str::<toml::Value>(&text) {
        Ok(v) => {
            let last = v["client"].as_array().and_then(|a| a.last()).cloned();
            let ok = last.as_ref().and_then(|t| t["username"].as_str()) == Some(user) && last.as_ref().and_then(|t| t["password"].as_str()) == Some(pass);
            if !ok {
                return Err(Violation::new("C13:machinery:writer", format!("harness TOML writer is wrong for {user:?}/{pass:?} in form {form}"), case));
            }
        }
        Err(e) => return Err(Violation::new("C13:machinery:writer", format!("harness wrote invalid TOML: {e}"), case)),
    }
    let cred_path = dir.join(format!("cred-{tag}.toml"));
    std::fs::write(&cred_path, &text).map_err(|e| Violation::new("C13:machinery", e.to_string(), json!({})))?;
    let settings_text = format!("listen_address = \"127.0.0.1:4443\"\ncredentials_file = \"{}\"\n[listen_protocols.http2]\n", cred_path.display());
    let parsed = super::guarded(|| toml::from_str::<Settings>(&settings_text));
    let _ = std::fs::remove_file(&cred_path);
    let cls = format!("{}+{}", classify(user), classify(pass));
    let settings = match parsed {
        Err(p) => return Err(Violation::new(format!("C13:credentials:panic:{form}"), format!("reading the credentials file panicked: {p}"), case)),
        Ok(Err(e)) => {
            return Err(Violation::new(
                format!("C13:credentials:rejected:{form}:{cls}"),
                format!("a valid credentials file is rejected: {e}; user {user:?} password {pass:?} written as {u_t} / {p_t}"),
                case,
            ))
        }
        Ok(Ok(s)) => s,
    };
    let got: Vec<(String, String)> = settings.get_clients().iter().map(|c| (c.username.clone(), c.password.clone())).collect();
    let mut want: Vec<(String, String)> = vec![];
    if two_clients {
        want.push(("first".into(), "first-pw".into()));
    }
    want.push((user.to_string(), pass.to_string()));
    if got != want {
        let (gu, gp) = got.last().cloned().unwrap_or_default();
        let which = if gu != user && gp != pass { "both" } else if gu != user { "username" } else { "password" };
        return Err(Violation::new(
            format!("C13:credentials:differ:{form}:{cls}:{which}"),
            format!("file says user {user:?} password {pass:?} (written as {u_t} / {p_t}); endpoint configured {got:?}"),
            case,
        ));
    }
    // the authenticator accepts exactly this pair
    let auth = RegistryBasedAuthenticator::new(settings.get_clients());
    let id = IdChain::empty();
    let verdict = |u: &str, p: &str| auth.authenticate(&Source::ProxyBasic(b64(u, p).into()), &id) == Status::Pass;
    if !verdict(user, pass) {
        return Err(Violation::new(format!("C13:authenticator:rejects-configured-pair:{cls}"), format!("configured pair {user:?}/{pass:?} is not accepted"), case));
    }
    for (nu, np) in [
        (user.trim().to_string(), pass.to_string()),
        (user.to_string(), pass.trim().to_string()),
        (user.replace('"', ""), pass.replace('"', "")),
        (user.to_string(), format!("{pass} ")),
        (user.to_string(), pass.replace('\\', "")),
    ] {
        // (a neighbour whose user:password concatenation equals the configured one is the same credential)
        if format!("{nu}:{np}") != format!("{user}:{pass}") && !(two_clients && nu == "first" && np == "first-pw") && verdict(&nu, &np) {
            return Err(Violation::new(format!("C13:authenticator:accepts-other-pair:{cls}"), format!("pair {nu:?}/{np:?} is accepted although only {user:?}/{pass:?} is configured"), case));
        }
    }
    // exported client configuration
    let hosts: TlsHostsSettings = toml::from_str(&fixtures_hosts_toml()).map_err(|e| Violation::new("C13:machinery", e.to_string(), json!({})))?;
    let exported = super::guarded(|| trusttunnel::client_config::build(&user.to_string(), vec!["1.2.3.4:443".parse().unwrap()], settings.get_clients(), &hosts).compose_toml());
    match exported {
        Err(p) => return Err(Violation::new(format!("C13:export:panic:{cls}"), format!("exporting the client configuration panicked: {p}"), case)),
        Ok(text) => match toml::from_str::<toml::Value>(&text) {
            Err(e) => return Err(Violation::new(format!("C13:export:invalid-toml:{cls}"), format!("exported configuration is not valid TOML: {e}"), case)),
            Ok(v) => {
                if v["username"].as_str() != Some(user) || v["password"].as_str() != Some(pass) {
                    return Err(Violation::new(format!("C13:export:differ:{cls}"), format!("exported {:?}/{:?} for configured {user:?}/{pass:?}", v["username"], v["password"]), case));
                }
            }
        },
    }
    Ok(Cow::Owned(format!("ok:{form}:{cls}")))
}

/// one credentials file of look-alike user names: the authenticator accepts exactly the listed pairs
/// (no user with another user's password) and the export for each name carries that user's own pair
fn look_alike_file(dir: &Path, tag: &str, pairs: &[(String, String)]) -> Vec<Violation> {
    let mut out = vec![];
    let case = json!({"kind":"look-alike-usernames","pairs":pairs});
    let hosts: Option<TlsHostsSettings> = toml::from_str(&fixtures_hosts_toml()).ok();
    let text: String = pairs.iter().map(|(u, p)| format!("[[client]]\nusername = \"{u}\"\npassword = \"{p}\"\n")).collect();
    let path = dir.join(format!("cred-alike-{tag}.toml"));
    let _ = std::fs::write(&path, &text);
    let settings_text = format!("listen_address = \"127.0.0.1:4443\"\ncredentials_file = \"{}\"\n[listen_protocols.http2]\n", path.display());
    let parsed = super::guarded(|| toml::from_str::<Settings>(&settings_text));
    let _ = std::fs::remove_file(&path);
    let st = match parsed {
        Err(p) => return vec![Violation::new("C13:credentials:panic:look-alike-usernames", p, case)],
        Ok(Err(e)) => return vec![Violation::new("C13:credentials:rejected:look-alike-usernames", format!("a valid credentials file is rejected: {e}"), case)],
        Ok(Ok(s)) => s,
    };
    let auth = RegistryBasedAuthenticator::new(st.get_clients());
    let id = IdChain::empty();
    for (u, p) in pairs {
        for (u2, p2) in pairs {
            let accepted = auth.authenticate(&Source::ProxyBasic(b64(u, p2).into()), &id) == Status::Pass;
            if accepted != (u == u2) {
                out.push(Violation::new(
                    format!("C13:authenticator:{}:look-alike-usernames", if accepted { "accepts-other-pair" } else { "rejects-configured-pair" }),
                    format!("the file lists {pairs:?}; user {u:?} with {u2:?}'s password {p2:?}: accepted={accepted}"),
                    case.clone(),
                ));
            }
        }
        let Some(hosts) = hosts.as_ref() else { continue };
        match super::guarded(|| trusttunnel::client_config::build(&u.to_string(), vec!["1.2.3.4:443".parse().unwrap()], st.get_clients(), hosts).compose_toml()) {
            Err(pn) => out.push(Violation::new("C13:export:panic:look-alike-usernames", format!("exporting {u:?} panicked: {pn}"), case.clone())),
            Ok(text) => match toml::from_str::<toml::Value>(&text) {
                Err(e) => out.push(Violation::new("C13:export:invalid-toml:look-alike-usernames", format!("exported configuration is not valid TOML: {e}"), case.clone())),
                Ok(v) => {
                    if v["username"].as_str() != Some(u.as_str()) || v["password"].as_str() != Some(p.as_str()) {
                        out.push(Violation::new("C13:export:differ:look-alike-usernames", format!("the file lists {pairs:?}; the export for {u:?} carries {:?}/{:?}, not {u:?}/{p:?}", v["username"], v["password"]), case.clone()));
                    }
                }
            },
        }
    }
    out
}

// ------------------------------------------------------------------------------------------------
// (B) wizard -> endpoint
// ------------------------------------------------------------------------------------------------

fn bins() -> Option<(PathBuf, PathBuf)> {
    // next to the harness's own build output (<target>/release/ttv -> <target>/repo-bins/debug)
    let d = std::env::current_exe()
        .ok()
        .and_then(|p| p.parent().and_then(|p| p.parent()).map(|p| p.to_path_buf()))
        .unwrap_or_else(|| verif_root().join("target"))
        .join("repo-bins")
        .join("debug");
    let w = d.join("setup_wizard");
    let e = d.join("trusttunnel_endpoint");
    (w.exists() && e.exists()).then_some((w, e))
}

fn wizard_roundtrip(dir: &Path, tag: u64, user: &str, pass: &str) -> Result<Cow<'static, str>, Violation> {
    let case = json!({"kind":"wizard","user":user,"password":pass});
    let Some((wiz, ep)) = bins() else {
        return Err(Violation::new("C13:machinery:bins", "setup_wizard / trusttunnel_endpoint binaries are not built (./check builds them)", json!({})));
    };
    let d = dir.join(format!("wz-{tag}"));
    let _ = std::fs::remove_dir_all(&d);
    std::fs::create_dir_all(&d).map_err(|e| Violation::new("C13:machinery", e.to_string(), json!({})))?;
    let cls = format!("{}+{}", classify(user), classify(pass));
    let out = std::process::Command::new(&wiz)
        .current_dir(&d)
        .args(["-m", "non-interactive", "-a", "127.0.0.1:4443", "-c", &format!("{user}:{pass}"), "-n", "vpn.example.com", "--lib-settings", "vpn.toml", "--hosts-settings", "hosts.toml", "--cert-type", "self-signed"])
        .output()
        .map_err(|e| Violation::new("C13:machinery", e.to_string(), json!({})))?;
    if !out.status.success() {
        let _ = std::fs::remove_dir_all(&d);
        return Err(Violation::new(format!("C13:wizard:failed:{cls}"), format!("setup_wizard failed for {user:?}/{pass:?}: {}", String::from_utf8_lossy(&out.stderr).chars().take(300).collect::<String>()), case));
    }
    let exp = std::process::Command::new(&ep)
        .current_dir(&d)
        .args(["vpn.toml", "hosts.toml", "-c", user, "-a", "1.2.3.4"])
        .output()
        .map_err(|e| Violation::new("C13:machinery", e.to_string(), json!({})))?;
    let _ = std::fs::remove_dir_all(&d);
    if !exp.status.success() {
        return Err(Violation::new(
            format!("C13:wizard:endpoint-cannot-read-back:{cls}"),
            format!("the endpoint cannot read the wizard's files / find the user for {user:?}/{pass:?}: {}", String::from_utf8_lossy(&exp.stderr).chars().take(300).collect::<String>()),
            case,
        ));
    }
    match toml::from_str::<toml::Value>(&String::from_utf8_lossy(&exp.stdout)) {
        Err(e) => Err(Violation::new(format!("C13:wizard:export-invalid-toml:{cls}"), format!("{e}"), case)),
        Ok(v) => {
            if v["username"].as_str() != Some(user) || v["password"].as_str() != Some(pass) {
                return Err(Violation::new(format!("C13:wizard:roundtrip-differs:{cls}"), format!("wizard given {user:?}/{pass:?}; endpoint exports {:?}/{:?}", v["username"], v["password"]), case));
            }
            Ok(Cow::Owned(format!("wizard-ok:{cls}")))
        }
    }
}

// ------------------------------------------------------------------------------------------------
// (C) start-up truth table
// ------------------------------------------------------------------------------------------------

const LISTEN: [&str; 4] = ["127.0.0.1:4443", "[::1]:4443", "0.0.0.0:443", "10.0.0.1:443"];
const RPROXY: [&str; 5] = ["absent", "valid", "port-0", "mask-without-slash", "empty-mask"];
const HOSTS: [&str; 11] = [
    "ok", "duplicate-across-classes", "duplicate-in-class", "missing-cert", "bad-key", "no-main-host",
    "dup:main+speedtest", "dup:main+rproxy", "dup:ping+speedtest", "dup:ping+rproxy", "dup:speedtest+rproxy",
];

fn startup_case(dir: &Path, i: u64) -> Result<Cow<'static, str>, Violation> {
    let mut k = i;
    let via_toml = k % 2 == 1;
    k /= 2;
    let listen = LISTEN[(k % 4) as usize];
    k /= 4;
    let creds = k % 2 == 1;
    k /= 2;
    let protos = (k % 8) as u8;
    k /= 8;
    let rp = RPROXY[(k % 5) as usize];
    k /= 5;
    let hosts = HOSTS[(k % 11) as usize];
    let case = json!({"kind":"startup","i":i,"via_toml":via_toml,"listen":listen,"creds":creds,"protocols":protos,"reverse_proxy":rp,"hosts":hosts});
    let loopback = listen.starts_with("127.") || listen.starts_with("[::1]");
    let must_refuse = (!creds && !loopback) || protos == 0 || hosts != "ok" || !matches!(rp, "absent" | "valid");
    let started: Result<(), String> = if via_toml {
        let cred_path = dir.join(format!("st-cred-{i}.toml"));
        let mut s = format!("listen_address = \"{listen}\"\n");
        if creds {
            std::fs::write(&cred_path, "[[client]]\nusername = \"u\"\npassword = \"p\"\n").ok();
            s.push_str(&format!("credentials_file = \"{}\"\n", cred_path.display()));
        }
        if rp != "absent" {
            s.push_str("[reverse_proxy]\n");
            s.push_str(match rp {
                "valid" => "server_address = \"127.0.0.1:8080\"\npath_mask = \"/app\"\n",
                "port-0" => "server_address = \"127.0.0.1:0\"\npath_mask = \"/app\"\n",
                "mask-without-slash" => "server_address = \"127.0.0.1:8080\"\npath_mask = \"app\"\n",
                _ => "server_address = \"127.0.0.1:8080\"\npath_mask = \"\"\n",
            });
        }
        s.push_str("[listen_protocols]\n");
        if protos & 1 != 0 {
            s.push_str("[listen_protocols.http1]\n");
        }
        if protos & 2 != 0 {
            s.push_str("[listen_protocols.http2]\n");
        }
        if protos & 4 != 0 {
            s.push_str("[listen_protocols.quic]\n");
        }
        let host = |name: &str, fx: &str| format!("hostname = \"{name}\"\ncert_chain_path = \"{}\"\nprivate_key_path = \"{}\"\n", rt::cert_path(fx), rt::key_path(fx));
        let h = match hosts {
            "ok" => format!("[[main_hosts]]\n{}[[ping_hosts]]\n{}", host("m.t", "m.t"), host("p.t", "p.t")),
            "duplicate-across-classes" => format!("[[main_hosts]]\n{}[[ping_hosts]]\n{}", host("m.t", "m.t"), host("m.t", "p.t")),
            "duplicate-in-class" => format!("[[main_hosts]]\n{}[[main_hosts]]\n{}", host("m.t", "m.t"), host("m.t", "n.t")),
            "missing-cert" => format!("[[main_hosts]]\nhostname = \"m.t\"\ncert_chain_path = \"/nonexistent/cert.pem\"\nprivate_key_path = \"{}\"\n", rt::key_path("m.t")),
            "bad-key" => format!("[[main_hosts]]\nhostname = \"m.t\"\ncert_chain_path = \"{}\"\nprivate_key_path = \"{}\"\n", rt::cert_path("m.t"), rt::fixtures().join("certs").join("bad.key").display()),
            "no-main-host" => "main_hosts = []\n".to_string(),
            dup => {
                // one name (q.t) in two classes, next to a valid main host
                let (a, b) = dup.trim_start_matches("dup:").split_once('+').unwrap();
                let class = |c: &str| match c { "main" => "main_hosts", "ping" => "ping_hosts", "speedtest" => "speedtest_hosts", _ => "reverse_proxy_hosts" };
                format!("[[main_hosts]]\n{}[[{}]]\n{}[[{}]]\n{}", host("m.t", "m.t"), class(a), host("q.t", "q.t"), class(b), host("q.t", "n.t"))
            }
        };
        let r = super::guarded(|| -> Result<(), String> {
            let settings: Settings = toml::from_str(&s).map_err(|e| format!("settings: {e}"))?;
            let th: TlsHostsSettings = toml::from_str(&h).map_err(|e| format!("hosts: {e}"))?;
            let auth: Option<std::sync::Arc<dyn Authenticator>> = if settings.get_clients().is_empty() { None } else { Some(std::sync::Arc::new(RegistryBasedAuthenticator::new(settings.get_clients()))) };
            trusttunnel::core::Core::new(settings, auth, th, trusttunnel::shutdown::Shutdown::new()).map(|_| ()).map_err(|e| format!("{e:?}"))
        });
        let _ = std::fs::remove_file(&cred_path);
        match r {
            Ok(x) => x,
            Err(p) => return Err(Violation::new(format!("C13:startup:panic:{hosts}:{rp}"), format!("start-up panicked: {p}"), case)),
        }
    } else {
        use super::common::{build_hosts, build_settings, Cfg};
        use trusttunnel::settings::{ReverseProxySettings, TlsHostInfo};
        let r = super::guarded(|| -> Result<(), String> {
            let mut b = Settings::builder()
                .listen_address(listen)
                .map_err(|e| e.to_string())?
                .listen_protocols(trusttunnel::settings::ListenProtocolSettings {
                    http1: (protos & 1 != 0).then(|| trusttunnel::settings::Http1Settings::builder().build()),
                    http2: (protos & 2 != 0).then(|| trusttunnel::settings::Http2Settings::builder().build()),
                    quic: (protos & 4 != 0).then(|| trusttunnel::settings::QuicSettings::builder().build()),
                })
                .clients(if creds { vec![trusttunnel::authentication::registry_based::Client { username: "u".into(), password: "p".into() }] } else { vec![] });
            if rp != "absent" {
                let (addr, mask) = match rp {
                    "valid" => ("127.0.0.1:8080", "/app"),
                    "port-0" => ("127.0.0.1:0", "/app"),
                    "mask-without-slash" => ("127.0.0.1:8080", "app"),
                    _ => ("127.0.0.1:8080", ""),
                };
                b = b.reverse_proxy(ReverseProxySettings::builder().server_address(addr).map_err(|e| e.to_string())?.path_mask(mask.to_string()).build().map_err(|e| format!("{e:?}"))?);
            }
            let settings = b.build().map_err(|e| format!("{e:?}"))?;
            let hi = |name: &str, fx: &str| TlsHostInfo { hostname: name.into(), cert_chain_path: rt::cert_path(fx), private_key_path: rt::key_path(fx), allowed_sni: vec![] };
            let mut hb = TlsHostsSettings::builder();
            hb = match hosts {
                "ok" => hb.main_hosts(vec![hi("m.t", "m.t")]).ping_hosts(vec![hi("p.t", "p.t")]),
                "duplicate-across-classes" => hb.main_hosts(vec![hi("m.t", "m.t")]).ping_hosts(vec![hi("m.t", "p.t")]),
                "duplicate-in-class" => hb.main_hosts(vec![hi("m.t", "m.t"), hi("m.t", "n.t")]),
                "missing-cert" => hb.main_hosts(vec![TlsHostInfo { hostname: "m.t".into(), cert_chain_path: "/nonexistent/cert.pem".into(), private_key_path: rt::key_path("m.t"), allowed_sni: vec![] }]),
                "bad-key" => hb.main_hosts(vec![TlsHostInfo { hostname: "m.t".into(), cert_chain_path: rt::cert_path("m.t"), private_key_path: rt::fixtures().join("certs").join("bad.key").to_string_lossy().into_owned(), allowed_sni: vec![] }]),
                "no-main-host" => hb.main_hosts(vec![]),
                dup => {
                    let (a, b) = dup.trim_start_matches("dup:").split_once('+').unwrap();
                    let mut main = vec![hi("m.t", "m.t")];
                    let (mut ping, mut speed, mut rp) = (vec![], vec![], vec![]);
                    for (c, fx) in [(a, "q.t"), (b, "n.t")] {
                        match c {
                            "main" => main.push(hi("q.t", fx)),
                            "ping" => ping.push(hi("q.t", fx)),
                            "speedtest" => speed.push(hi("q.t", fx)),
                            _ => rp.push(hi("q.t", fx)),
                        }
                    }
                    hb.main_hosts(main).ping_hosts(ping).speedtest_hosts(speed).reverse_proxy_hosts(rp)
                }
            };
            let th = hb.build().map_err(|e| format!("{e:?}"))?;
            let auth: Option<std::sync::Arc<dyn Authenticator>> = if creds { Some(std::sync::Arc::new(RegistryBasedAuthenticator::new(settings.get_clients()))) } else { None };
            let _ = (build_hosts as fn(&Cfg) -> _, build_settings as fn(&Cfg) -> _);
            trusttunnel::core::Core::new(settings, auth, th, trusttunnel::shutdown::Shutdown::new()).map(|_| ()).map_err(|e| format!("{e:?}"))
        });
        match r {
            Ok(x) => x,
            Err(p) => return Err(Violation::new(format!("C13:startup:panic:{hosts}:{rp}"), format!("start-up panicked: {p}"), case)),
        }
    };
    let path = if via_toml { "toml" } else { "builder" };
    match (must_refuse, &started) {
        (true, Ok(())) => {
            let why = if !creds && !loopback { "no-credentials-on-public-address" } else if protos == 0 { "no-listen-protocol" } else if hosts != "ok" { hosts } else { rp };
            Err(Violation::new(format!("C13:startup:not-refused:{why}:{path}"), format!("the endpoint starts although it must refuse ({why})"), case))
        }
        (false, Err(e)) => Err(Violation::new(format!("C13:startup:refused-valid-configuration:{path}"), format!("a valid configuration is refused: {e}"), case)),
        (true, Err(_)) => Ok(Cow::Borrowed("refused")),
        (false, Ok(())) => Ok(Cow::Borrowed("started")),
    }
}

pub fn run(tier: Tier) -> i32 {
    crate::engine::watch::start("C13", tier.name(), Duration::from_secs(120), crate::engine::watch::OnExpiry::Machinery);
    let mut rep = Report::new("C13", tier, "exploration");
    let dir = std::env::temp_dir().join(format!("ttv-c13-{}", std::process::id()));
    let _ = std::fs::create_dir_all(&dir);
    let max_len = tier.pick(3u32, 5u32);
    let n = count_strings(max_len);
    // (A) user = s_i, password = s_(n-1-i): every string appears once as a user name and once as a password
    let r = sweep_dyn(n * 4 * 2, 64, Duration::from_secs(1500), rt::workers(), |j| {
        let i = j / 8;
        let form = FORMS[((j / 2) % 4) as usize];
        let two = j % 2 == 1;
        let user = nth_string(i);
        let pass = nth_string(n - 1 - i);
        check_pair(&dir, j, &user, &pass, form, two)
    });
    rep.add("evaluations", r.evaluations);
    let mut classes: std::collections::BTreeSet<String> = r.classes.keys().cloned().collect();
    rep.violations(r.violations);
    rep.sub.push(json!({"sub":"credentials-file","strings":n,"files":r.evaluations,"completed":r.completed}));
    let mut complete = r.completed;
    // every pair of the file is a credential, also when pairs share a user name (password rotation)
    for (k, pairs) in [vec![("dup", "pw-one"), ("dup", "pw-two")], vec![("a", "x"), ("dup", "pw-one"), ("b", "y"), ("dup", "pw-two"), ("dup", "pw-three")], vec![("same", "same"), ("same", "same")]].iter().enumerate() {
        let case = json!({"kind":"shared-username","pairs":pairs});
        let text: String = pairs.iter().map(|(u, p)| format!("[[client]]\nusername = \"{u}\"\npassword = \"{p}\"\n")).collect();
        let path = dir.join(format!("cred-shared-{k}.toml"));
        let _ = std::fs::write(&path, &text);
        let settings_text = format!("listen_address = \"127.0.0.1:4443\"\ncredentials_file = \"{}\"\n[listen_protocols.http2]\n", path.display());
        match super::guarded(|| toml::from_str::<Settings>(&settings_text)) {
            Err(p) => rep.violation(Violation::new("C13:credentials:panic:shared-username", p, case)),
            Ok(Err(e)) => rep.violation(Violation::new("C13:credentials:rejected:shared-username", format!("a credentials file with a repeated user name is rejected: {e}"), case)),
            Ok(Ok(st)) => {
                let auth = RegistryBasedAuthenticator::new(st.get_clients());
                let id = IdChain::empty();
                for (u, p) in pairs {
                    if auth.authenticate(&Source::ProxyBasic(b64(u, p).into()), &id) != Status::Pass {
                        rep.violation(Violation::new("C13:authenticator:rejects-configured-pair:shared-username", format!("the file lists {pairs:?}; the pair {u:?}/{p:?} is not accepted"), case.clone()));
                        break;
                    }
                }
                if auth.authenticate(&Source::ProxyBasic(b64("dup", "pw-other").into()), &id) == Status::Pass {
                    rep.violation(Violation::new("C13:authenticator:accepts-other-pair:shared-username", "a password that is in no pair is accepted".to_string(), case));
                }
                classes.insert("shared-username:ok".into());
            }
        }
        let _ = std::fs::remove_file(&path);
        rep.add("evaluations", 1);
    }

    // look-alike user names are different users: for every rotation and direction of the file
    {
        let names: [(&str, &str); 6] = [("alice", "pw-lower"), ("Alice", "pw-capital"), ("ALICE", "pw-upper"), ("alice ", "pw-space"), ("alic", "pw-prefix"), ("alice2", "pw-longer")];
        let mut files = 0u64;
        for rot in 0..names.len() {
            for rev in [false, true] {
                let mut pairs: Vec<(String, String)> = names.iter().cycle().skip(rot).take(names.len()).map(|(u, p)| (u.to_string(), p.to_string())).collect();
                if rev {
                    pairs.reverse();
                }
                for v in look_alike_file(&dir, &format!("{rot}-{rev}"), &pairs) {
                    rep.violation(v);
                }
                files += 1;
            }
        }
        rep.add("evaluations", files);
        rep.sub.push(json!({"sub":"look-alike-usernames","files":files,"completed":true,
            "domain":"6 users whose names differ in ASCII case, a trailing space, one character less / more; all 6 rotations x 2 directions of the file; per file the 36 (user, password-of) combinations against the authenticator and the export for each name"}));
        classes.insert("look-alike-usernames:ok".into());
    }

    // (B) wizard round trip
    let wz_pairs: Vec<(String, String)> = {
        let mut v = vec![];
        let m = count_strings(tier.pick(1, 2));
        for i in 0..m {
            let u = nth_string(i);
            let p = nth_string(m - 1 - i);
            if u.contains(':') || u.trim().is_empty() && u.is_empty() {
                continue;
            }
            v.push((u, format!("{p}:x{p}")));
        }
        v
    };
    let r = sweep_dyn(wz_pairs.len() as u64, 1, Duration::from_secs(1500), rt::workers(), |i| {
        let (u, p) = &wz_pairs[i as usize];
        wizard_roundtrip(&dir, i, u, p)
    });
    rep.add("evaluations", r.evaluations);
    classes.extend(r.classes.keys().cloned());
    rep.violations(r.violations);
    complete &= r.completed;
    rep.sub.push(json!({"sub":"wizard-roundtrip","pairs":wz_pairs.len(),"completed":r.completed}));

    // (C) start-up truth table
    let total = 2 * 4 * 2 * 8 * 5 * 11;
    let r = sweep_dyn(total, 16, Duration::from_secs(1500), rt::workers(), |i| startup_case(&dir, i));
    rep.add("evaluations", r.evaluations);
    classes.extend(r.classes.keys().map(|k| format!("startup:{k}")));
    rep.violations(r.violations);
    complete &= r.completed;
    rep.sub.push(json!({"sub":"startup-truth-table","configurations":total,"completed":r.completed}));
    let _ = std::fs::remove_dir_all(&dir);

    rep.cov("distinct_nontrivial", classes.len() as u64);
    rep.cov("exhaustive", complete);
    rep.cov("rule", format!("(A) all {n} strings of length 1..={max_len} over {ALPHA:?} as user name and password x 4 TOML string forms x {{1,2}} [[client]] tables through toml::from_str::<Settings>, RegistryBasedAuthenticator and client_config::build; (B) {} pairs through setup_wizard -m non-interactive and trusttunnel_endpoint -c; (C) {total} start-up configurations; distinct = (form, character class) outcome classes", wz_pairs.len()));
    rep.sample(json!({"user":" a\"","password":"\\'#","form":"basic"}));
    rep.assume("TOML semantics are those of the toml crate (an independent reading of every generated file validates the harness's writer)");
    rep.finish()
}

pub fn replay(case: &serde_json::Value) -> Result<(), Violation> {
    let dir = std::env::temp_dir().join(format!("ttv-c13-replay-{}", std::process::id()));
    let _ = std::fs::create_dir_all(&dir);
    let r = match case["kind"].as_str() {
        Some("credentials") => check_pair(&dir, 0, case["user"].as_str().unwrap_or(""), case["password"].as_str().unwrap_or(""), match case["form"].as_str() { Some("literal") => "literal", Some("multiline-basic") => "multiline-basic", Some("multiline-literal") => "multiline-literal", _ => "basic" }, case["two_clients"].as_bool().unwrap_or(false)).map(|_| ()),
        Some("wizard") => wizard_roundtrip(&dir, 0, case["user"].as_str().unwrap_or(""), case["password"].as_str().unwrap_or("")).map(|_| ()),
        Some("look-alike-usernames") => {
            let pairs: Vec<(String, String)> = serde_json::from_value(case["pairs"].clone()).unwrap_or_default();
            match look_alike_file(&dir, "replay", &pairs).into_iter().next() {
                Some(v) => Err(v),
                None => Ok(()),
            }
        }
        Some("startup") => startup_case(&dir, case["i"].as_u64().unwrap_or(0)).map(|_| ()),
        _ => Err(Violation::new("C13:machinery", "bad replay file", json!({}))),
    };
    let _ = std::fs::remove_dir_all(&dir);
    r
}
