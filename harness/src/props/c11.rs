//! C11 — ICMP echo tunnelling: faithful requests, valid checksums, matched replies.
//!
//! (a) 7.3 stream decoder: record sequences x every 1-/2-/3-cut; (b) emitted echo requests for
//! every data word sequence of a carry-rich alphabet: fields at their offsets and a correct
//! Internet checksum; (c) replies / errors built around matching, non-matching and truncated
//! requests: extraction of the answered request and the 7.4 encoding.

use crate::engine::explore::sweep_dyn;
use crate::engine::report::{Report, Tier, Violation};
use crate::engine::rt;
use bytes::Bytes;
use serde_json::json;
use std::borrow::Cow;
use std::collections::VecDeque;
use std::net::{IpAddr, Ipv4Addr, Ipv6Addr};
use std::time::Duration;
use trusttunnel::verif_hooks::{self as vh, VIcmpIn};

// ------------------------------------------------------------------------------------------------
// (a) 7.3 decoder
// ------------------------------------------------------------------------------------------------

const REC: usize = 23;

fn rec(id: u16, dst: IpAddr, seq: u16, ttl: u8, size: u16) -> Vec<u8> {
    let mut v = Vec::with_capacity(REC);
    v.extend_from_slice(&id.to_be_bytes());
    match dst {
        IpAddr::V4(a) => {
            v.extend_from_slice(&[0; 12]);
            v.extend_from_slice(&a.octets());
        }
        IpAddr::V6(a) => v.extend_from_slice(&a.octets()),
    }
    v.extend_from_slice(&seq.to_be_bytes());
    v.push(ttl);
    v.extend_from_slice(&size.to_be_bytes());
    v
}

fn rec_kinds() -> Vec<Vec<u8>> {
    vec![
        rec(0xabcd, "8.8.8.8".parse().unwrap(), 1, 64, 56),
        rec(0, "2001:4860:4860::8888".parse().unwrap(), 0xffff, 255, 0),
        rec(0x0102, "::1".parse().unwrap(), 0x0304, 1, 1),
        rec(0xffff, "127.0.0.1".parse().unwrap(), 0, 0, 1400),
        rec(1, "0.0.0.0".parse().unwrap(), 2, 3, 4),
        rec(0x8000, "fe80::1".parse().unwrap(), 0x7fff, 128, 65535),
        rec(7, "::ffff:8.8.8.8".parse().unwrap(), 9, 64, 8),
    ]
}

pub fn ref_decode_icmp(s: &[u8]) -> Vec<VIcmpIn> {
    s.chunks_exact(REC)
        .map(|r| {
            let a: [u8; 16] = r[2..18].try_into().unwrap();
            let peer = if a[..12].iter().all(|x| *x == 0) && a != Ipv6Addr::LOCALHOST.octets() {
                IpAddr::V4(Ipv4Addr::new(a[12], a[13], a[14], a[15]))
            } else {
                IpAddr::V6(Ipv6Addr::from(a))
            };
            VIcmpIn {
                peer,
                is_v6_message: peer.is_ipv6(),
                identifier: u16::from_be_bytes([r[0], r[1]]),
                sequence_number: u16::from_be_bytes([r[18], r[19]]),
                ttl: r[20],
                data_len: u16::from_be_bytes([r[21], r[22]]) as usize,
                code: 0,
            }
        })
        .collect()
}

pub fn impl_decode_icmp(stream: &Bytes, cuts: &[usize]) -> Result<Vec<VIcmpIn>, String> {
    super::guarded(|| {
        let mut dec = vh::VIcmpDecoder::new();
        let mut out = vec![];
        let mut pending: VecDeque<Bytes> = VecDeque::new();
        let mut prev = 0usize;
        let mut bounds = cuts.to_vec();
        bounds.push(stream.len());
        for b in bounds {
            if b == prev {
                continue;
            }
            pending.push_back(stream.slice(prev..b));
            prev = b;
            while let Some(chunk) = pending.pop_front() {
                if let Some((d, tail)) = dec.decode_chunk(chunk) {
                    if !tail.is_empty() {
                        pending.push_front(tail);
                    }
                    out.push(d);
                }
            }
        }
        out
    })
}

fn judge_stream(seq: &[usize], stream: &Bytes, expected: &[VIcmpIn], cuts: &[usize]) -> Result<(), Violation> {
    let case = json!({"kind":"decode","seq":seq,"cuts":cuts});
    match impl_decode_icmp(stream, cuts) {
        Err(p) => Err(Violation::new(
            "C11:decode:panic",
            format!("ICMP stream decoder panicked: {p}; {case}"),
            case,
        )),
        Ok(got) if got == expected => Ok(()),
        Ok(got) => {
            let j = (0..expected.len().max(got.len()))
                .find(|j| got.get(*j) != expected.get(*j))
                .unwrap_or(0);
            let field = match (got.get(j), expected.get(j)) {
                (None, _) => "missing",
                (_, None) => "extra",
                (Some(g), Some(e)) => {
                    if g.peer != e.peer || g.is_v6_message != e.is_v6_message {
                        "address"
                    } else if g.identifier != e.identifier || g.sequence_number != e.sequence_number {
                        "id-seq"
                    } else if g.ttl != e.ttl {
                        "ttl"
                    } else if g.data_len != e.data_len {
                        "data-size"
                    } else {
                        "code"
                    }
                }
            };
            let kind = expected.get(j).map(|e| seq.get(j).copied().unwrap_or(99)).unwrap_or(99);
            Err(Violation::new(
                format!("C11:decode:{field}:record-kind-{kind}:{}", if cuts.is_empty() {"uncut"} else {"cut"}),
                format!("request #{j}: expected {:?}, decoded {:?}", expected.get(j), got.get(j)),
                case,
            ))
        }
    }
}

fn check_decoder(rep: &mut Report, tier: Tier) {
    let kinds = rec_kinds();
    let k = kinds.len();
    let max_len = tier.pick(2usize, 3usize);
    let mut seqs: Vec<Vec<usize>> = vec![];
    for len in 1..=max_len {
        for mut i in 0..k.pow(len as u32) {
            let mut s = vec![];
            for _ in 0..len {
                s.push(i % k);
                i /= k;
            }
            seqs.push(s);
        }
    }
    static RUNS: std::sync::atomic::AtomicU64 = std::sync::atomic::AtomicU64::new(0);
    let r = sweep_dyn(seqs.len() as u64, 1, Duration::from_secs(900), rt::workers(), |i| {
        let seq = &seqs[i as usize];
        let _g = crate::engine::watch::enter("C11:decode:wedged".into(), json!({"kind":"decode","seq":seq,"cuts":[]}).to_string());
        let bytes: Vec<u8> = seq.iter().flat_map(|k| kinds[*k].clone()).collect();
        let stream = Bytes::from(bytes);
        let expected = ref_decode_icmp(&stream);
        let n = stream.len();
        let mut runs = 0u64;
        let mut go = |cuts: &[usize]| -> Result<(), Violation> {
            runs += 1;
            judge_stream(seq, &stream, &expected, cuts)
        };
        go(&[])?;
        for a in 1..n {
            go(&[a])?;
            for b in a + 1..n {
                go(&[a, b])?;
                if tier == Tier::Thorough || n <= 2 * REC {
                    for c in b + 1..n {
                        go(&[a, b, c])?;
                    }
                }
            }
        }
        let all: Vec<usize> = (1..n).collect();
        go(&all)?;
        RUNS.fetch_add(runs, std::sync::atomic::Ordering::Relaxed);
        Ok(Cow::Owned(format!("seq{i}")))
    });
    let runs = RUNS.load(std::sync::atomic::Ordering::Relaxed);
    rep.add("evaluations", runs);
    rep.add("distinct_nontrivial", r.classes.len() as u64);
    rep.violations(r.violations);
    rep.sub.push(json!({"sub":"7.3-decoder","streams":seqs.len(),"decoder_runs":runs,"completed":r.completed}));
}

// ------------------------------------------------------------------------------------------------
// (b) emitted echo requests
// ------------------------------------------------------------------------------------------------

/// RFC 1071 with a 64-bit accumulator and complete folding
fn ones_complement_sum(b: &[u8]) -> u16 {
    let mut sum: u64 = 0;
    let mut i = 0;
    while i + 1 < b.len() {
        sum += u16::from_be_bytes([b[i], b[i + 1]]) as u64;
        i += 2;
    }
    if i < b.len() {
        sum += (b[i] as u64) << 8;
    }
    while sum >> 16 != 0 {
        sum = (sum & 0xffff) + (sum >> 16);
    }
    sum as u16
}

const WORDS: [u16; 8] = [0x0000, 0x0001, 0xf7ff, 0x7fff, 0x8000, 0xff00, 0xfffe, 0xffff];
const IDS: [u16; 6] = [0, 1, 0x7fff, 0x8000, 0xfffe, 0xffff];
const TRAIL: [Option<u8>; 4] = [None, Some(0x00), Some(0x01), Some(0xff)];

fn check_echo(v6: bool, id: u16, seq: u16, data: &[u8]) -> Result<Cow<'static, str>, Violation> {
    let case = json!({"kind":"echo","v6":v6,"id":id,"seq":seq,"data":hex::encode(data)});
    let pkt = match super::guarded(|| vh::echo_serialize(v6, id, seq, Bytes::copy_from_slice(data))) {
        Ok(p) => p,
        Err(p) => return Err(Violation::new("C11:echo:panic", format!("serialize panicked: {p}"), case)),
    };
    let want_type = if v6 { 128 } else { 8 };
    if pkt.len() != 8 + data.len()
        || pkt[0] != want_type
        || pkt[1] != 0
        || pkt[4..6] != id.to_be_bytes()
        || pkt[6..8] != seq.to_be_bytes()
        || &pkt[8..] != data
    {
        return Err(Violation::new(
            format!("C11:echo:layout:{}", if v6 { "v6" } else { "v4" }),
            format!("echo request fields are not at their RFC 792/4443 offsets: {}", hex::encode(&pkt)),
            case,
        ));
    }
    if !v6 {
        // (for ICMPv6 raw sockets the kernel computes the checksum over the pseudo-header)
        let s = ones_complement_sum(&pkt);
        if s != 0xffff {
            let carries = {
                let mut z = pkt.to_vec();
                z[2] = 0;
                z[3] = 0;
                let mut sum: u64 = 0;
                for c in z.chunks(2) {
                    sum += ((c[0] as u64) << 8) | (*c.get(1).unwrap_or(&0) as u64);
                }
                let once = (sum & 0xffff) + (sum >> 16);
                if once >> 16 != 0 { "double-carry" } else { "single-carry" }
            };
            return Err(Violation::new(
                format!("C11:echo:checksum:{carries}:{}", if data.len() % 2 == 1 { "odd-length" } else { "even-length" }),
                format!("Internet checksum of the emitted echo request does not verify (sum {s:04x}): {}", hex::encode(&pkt)),
                case,
            ));
        }
    }
    Ok(Cow::Borrowed(if v6 { "v6-ok" } else { "v4-ok" }))
}

fn check_echo_requests(rep: &mut Report, tier: Tier) {
    let max_words = tier.pick(4u32, 5u32);
    let mut total_seqs = 0u64;
    for k in 0..=max_words {
        total_seqs += 8u64.pow(k);
    }
    let per = (TRAIL.len() * IDS.len() * IDS.len() * 2) as u64;
    let r = sweep_dyn(total_seqs * per, 8192, Duration::from_secs(1200), rt::workers(), |i| {
        let mut si = i / per;
        let mut j = i % per;
        let v6 = j % 2 == 1;
        j /= 2;
        let id = IDS[(j % 6) as usize];
        j /= 6;
        let seq = IDS[(j % 6) as usize];
        j /= 6;
        let trail = TRAIL[j as usize];
        // decode si into a word sequence
        let mut len = 0u32;
        loop {
            let n = 8u64.pow(len);
            if si < n {
                break;
            }
            si -= n;
            len += 1;
        }
        let mut data = Vec::with_capacity(12);
        for _ in 0..len {
            data.extend_from_slice(&WORDS[(si % 8) as usize].to_be_bytes());
            si /= 8;
        }
        if let Some(t) = trail {
            data.push(t);
        }
        check_echo(v6, id, seq, &data)
    });
    rep.add("evaluations", r.evaluations);
    rep.add("distinct_nontrivial", r.classes.len() as u64);
    rep.violations(r.violations);
    rep.sub.push(json!({"sub":"echo-requests","packets":r.evaluations,"completed":r.completed,
        "alphabet":"data = every sequence of <= N 16-bit words over {0000,0001,f7ff,7fff,8000,ff00,fffe,ffff} + optional trailing byte {00,01,ff}; id, seq over {0,1,7fff,8000,fffe,ffff}; v4 and v6"}));
    // long payloads (sizes near the bounds), one pattern each
    for size in [56usize, 1399, 1400, 1472, 65_499, 65_500] {
        for fill in [0x00u8, 0xff, 0xa5] {
            let data = vec![fill; size];
            rep.add("evaluations", 1);
            if let Err(v) = check_echo(false, 0xffff, 0xffff, &data) {
                rep.violation(v);
            }
        }
    }
}

// ------------------------------------------------------------------------------------------------
// (c) replies and errors
// ------------------------------------------------------------------------------------------------

fn ipv4_header(proto: u8, options: usize, total_len: u16) -> Vec<u8> {
    let ihl = 5 + options / 4;
    let mut h = vec![0x40 | ihl as u8, 0];
    h.extend_from_slice(&total_len.to_be_bytes());
    h.extend_from_slice(&[0x12, 0x34, 0x40, 0x00, 64, proto, 0, 0]);
    h.extend_from_slice(&[10, 0, 0, 1]);
    h.extend_from_slice(&[8, 8, 8, 8]);
    h.extend(std::iter::repeat(0x01).take(options));
    h
}

fn ipv6_header(next: u8, payload_len: u16) -> Vec<u8> {
    let mut h = vec![0x60, 0, 0, 0];
    h.extend_from_slice(&payload_len.to_be_bytes());
    h.push(next);
    h.push(64);
    h.extend_from_slice(&"fd00::1".parse::<Ipv6Addr>().unwrap().octets());
    h.extend_from_slice(&"2001:db8::2".parse::<Ipv6Addr>().unwrap().octets());
    h
}

fn echo_msg(t: u8, id: u16, seq: u16, data: &[u8]) -> Vec<u8> {
    let mut m = vec![t, 0, 0, 0];
    m.extend_from_slice(&id.to_be_bytes());
    m.extend_from_slice(&seq.to_be_bytes());
    m.extend_from_slice(data);
    let c = !ones_complement_sum(&m);
    m[2..4].copy_from_slice(&c.to_be_bytes());
    m
}

#[derive(Clone, Debug)]
struct ReplyCase {
    v6: bool,
    name: String,
    packet: Vec<u8>,
    /// Some(Some(..)) = must be reported for this (id, seq); Some(None) = must not be reported;
    /// None = unconstrained (only totality is checked)
    want: Option<Option<(u16, u16)>>,
    want_type_code: Option<(u8, u8)>,
}

fn reply_cases() -> Vec<ReplyCase> {
    let mut v = vec![];
    let id = 0xbeef;
    let seq = 0x0102;
    let data = b"abcdefgh01234567";
    // IPv4
    for dl in [0usize, 1, 8, 16] {
        v.push(ReplyCase { v6: false, name: format!("v4-echo-reply-data{dl}"), packet: echo_msg(0, id, seq, &data[..dl]), want: Some(Some((id, seq))), want_type_code: Some((0, 0)) });
    }
    v.push(ReplyCase { v6: false, name: "v4-echo-request-not-a-reply".into(), packet: echo_msg(8, id, seq, data), want: Some(None), want_type_code: None });
    let err_types: [(u8, Vec<u8>); 5] = [(3, vec![0, 1, 2, 3, 4, 5]), (11, vec![0, 1]), (12, vec![0]), (4, vec![0]), (5, vec![0, 1])];
    for (t, codes) in &err_types {
        for code in codes {
            for opts in [0usize, 4] {
                for quoted in [0usize, 8] {
                    let inner = echo_msg(8, id, seq, &data[..quoted]);
                    let mut p = vec![*t, *code, 0, 0, 0, 0, 0, 0];
                    p.extend(ipv4_header(1, opts, (20 + opts + inner.len()) as u16));
                    p.extend(&inner);
                    v.push(ReplyCase { v6: false, name: format!("v4-error{t}-code{code}-opts{opts}-quote{quoted}"), packet: p, want: Some(Some((id, seq))), want_type_code: Some((*t, *code)) });
                }
            }
            // quoting something that is not our echo request
            let mut p = vec![*t, *code, 0, 0, 0, 0, 0, 0];
            p.extend(ipv4_header(17, 0, 28));
            p.extend(&[0x12, 0x34, 0x00, 0x35, 0, 8, 0, 0]);
            v.push(ReplyCase { v6: false, name: format!("v4-error{t}-code{code}-quotes-udp"), packet: p, want: Some(None), want_type_code: None });
            let mut p = vec![*t, *code, 0, 0, 0, 0, 0, 0];
            p.extend(ipv4_header(1, 0, 28));
            p.extend(echo_msg(0, id, seq, b""));
            v.push(ReplyCase { v6: false, name: format!("v4-error{t}-code{code}-quotes-echo-reply"), packet: p, want: Some(None), want_type_code: None });
        }
    }
    // unknown type / undefined codes: unconstrained, must not panic
    for (t, c) in [(3u8, 6u8), (3, 0xff), (11, 2), (1, 0), (9, 0), (0xff, 0), (13, 0), (14, 0), (15, 0), (16, 0)] {
        let mut p = vec![t, c, 0, 0, 0, 0, 0, 0];
        p.extend(ipv4_header(1, 0, 28));
        p.extend(echo_msg(8, id, seq, b""));
        v.push(ReplyCase { v6: false, name: format!("v4-type{t}-code{c}"), packet: p, want: None, want_type_code: None });
    }
    // IPv6
    for dl in [0usize, 1, 16] {
        v.push(ReplyCase { v6: true, name: format!("v6-echo-reply-data{dl}"), packet: echo_msg(129, id, seq, &data[..dl]), want: Some(Some((id, seq))), want_type_code: Some((129, 0)) });
    }
    v.push(ReplyCase { v6: true, name: "v6-echo-request-not-a-reply".into(), packet: echo_msg(128, id, seq, data), want: Some(None), want_type_code: None });
    let err6: [(u8, Vec<u8>); 4] = [(1, vec![0, 1, 2, 3, 4, 5, 6]), (2, vec![0]), (3, vec![0, 1]), (4, vec![0, 1, 2])];
    for (t, codes) in &err6 {
        for code in codes {
            for quoted in [0usize, 8] {
                let inner = echo_msg(128, id, seq, &data[..quoted]);
                let mut p = vec![*t, *code, 0, 0, 0, 0, 0, 0];
                p.extend(ipv6_header(58, inner.len() as u16));
                p.extend(&inner);
                v.push(ReplyCase { v6: true, name: format!("v6-error{t}-code{code}-quote{quoted}"), packet: p, want: Some(Some((id, seq))), want_type_code: Some((*t, *code)) });
            }
            let mut p = vec![*t, *code, 0, 0, 0, 0, 0, 0];
            p.extend(ipv6_header(17, 8));
            p.extend(&[0x12, 0x34, 0x00, 0x35, 0, 8, 0, 0]);
            v.push(ReplyCase { v6: true, name: format!("v6-error{t}-code{code}-quotes-udp"), packet: p, want: Some(None), want_type_code: None });
            // quoted packet with extension headers: matching is unconstrained, totality is not
            for (ext_next, ext_len_byte, ext_bytes) in [(0u8, 0u8, 8usize), (60, 1, 16), (43, 0xff, 8), (0, 200, 4), (44, 0, 8), (44, 0, 3)] {
                let inner = echo_msg(128, id, seq, b"");
                let mut p = vec![*t, *code, 0, 0, 0, 0, 0, 0];
                p.extend(ipv6_header(ext_next, (ext_bytes + inner.len()) as u16));
                let mut ext = vec![58u8, ext_len_byte];
                ext.resize(ext_bytes.max(2), 0);
                ext.truncate(ext_bytes);
                p.extend(&ext);
                if ext_bytes >= 8 {
                    p.extend(&inner);
                }
                v.push(ReplyCase { v6: true, name: format!("v6-error{t}-code{code}-ext{ext_next}-len{ext_len_byte}-{ext_bytes}B"), packet: p, want: None, want_type_code: None });
            }
        }
    }
    // every truncation of every case above: unconstrained, must not panic
    let base = v.clone();
    for c in base {
        for cut in 0..c.packet.len() {
            v.push(ReplyCase { v6: c.v6, name: format!("{}-trunc", c.name), packet: c.packet[..cut].to_vec(), want: None, want_type_code: None });
        }
    }
    v
}

fn check_reply(c: &ReplyCase) -> Result<Cow<'static, str>, Violation> {
    let peer: IpAddr = if c.v6 { "2001:db8::99".parse().unwrap() } else { "192.0.2.99".parse().unwrap() };
    let case = json!({"kind":"reply","v6":c.v6,"name":c.name,"packet":hex::encode(&c.packet)});
    let class: String = c.name.split("-code").next().unwrap_or(&c.name).to_string();
    let r = match super::guarded(|| vh::icmp_parse(c.v6, peer, Bytes::from(c.packet.clone()))) {
        Ok(r) => r,
        Err(p) => {
            return Err(Violation::new(
                format!("C11:reply:panic:{}", class),
                format!("parsing the packet panicked ({p}): {}", c.name),
                case,
            ))
        }
    };
    let Some(want) = &c.want else {
        return Ok(Cow::Borrowed("unconstrained-no-panic"));
    };
    let reported = r.as_ref().ok().and_then(|p| p.encoded.clone().map(|e| (p.clone(), e)));
    match (want, reported) {
        (None, None) => Ok(Cow::Borrowed("not-reported")),
        (None, Some(_)) => Err(Violation::new(
            format!("C11:reply:spurious-report:{class}"),
            format!("{}: a packet that does not answer an echo request is reported to the client", c.name),
            case,
        )),
        (Some(_), None) => Err(Violation::new(
            format!("C11:reply:not-reported:{class}"),
            format!("{}: reply/error for a pending request is not reported (parse result {:?})", c.name, r.as_ref().map(|p| (p.type_id, p.code))),
            case,
        )),
        (Some((id, seq)), Some((p, enc))) => {
            // 7.4: id(2) source(16, IPv4 zero padded) type code seq(2)
            let mut want_enc = id.to_be_bytes().to_vec();
            match peer {
                IpAddr::V4(a) => {
                    want_enc.extend_from_slice(&[0; 12]);
                    want_enc.extend_from_slice(&a.octets());
                }
                IpAddr::V6(a) => want_enc.extend_from_slice(&a.octets()),
            }
            let (t, code) = c.want_type_code.unwrap();
            want_enc.push(t);
            want_enc.push(code);
            want_enc.extend_from_slice(&seq.to_be_bytes());
            if enc != want_enc || p.responded_echo.as_ref().map(|e| (e.0, e.1)) != Some((*id, *seq)) {
                return Err(Violation::new(
                    format!("C11:reply:wrong-report:{class}"),
                    format!("{}: reported {} instead of {}", c.name, hex::encode(&enc), hex::encode(&want_enc)),
                    case,
                ));
            }
            Ok(Cow::Borrowed("reported"))
        }
    }
}

fn check_replies(rep: &mut Report) {
    let cases = reply_cases();
    let mut classes = std::collections::BTreeSet::new();
    for c in &cases {
        match check_reply(c) {
            Ok(k) => {
                classes.insert(format!("{}:{k}", c.name.split("-code").next().unwrap_or("")));
            }
            Err(v) => rep.violation(v),
        }
    }
    rep.add("evaluations", cases.len() as u64);
    rep.add("distinct_nontrivial", classes.len() as u64);
    rep.sub.push(json!({"sub":"replies-and-errors","packets":cases.len(),"classes":classes.len()}));
}

pub fn run(tier: Tier) -> i32 {
    crate::engine::watch::start("C11", tier.name(), Duration::from_secs(30), crate::engine::watch::OnExpiry::Violation);
    let mut rep = Report::new("C11", tier, "exploration");
    check_decoder(&mut rep, tier);
    check_echo_requests(&mut rep, tier);
    check_replies(&mut rep);
    super::c11d::run_into(&mut rep, tier);
    rep.cov("rule", "(a) every sequence of <=2/3 request records over 6 kinds x every 1-,2-,3-cut + byte-at-a-time vs a one-shot 7.3 decoder; (b) every emitted echo request over the stated data/id/seq alphabet: field offsets and 64-bit-folded Internet checksum; (c) every reply/error type x code x quoted-request shape (matching, non-matching, with IP options, with extension headers, every truncation): extraction + 7.4 encoding; (d) see sub_checks. distinct = outcome classes per sub-check");
    rep.sample(json!({"echo":{"v6":false,"id":65535,"seq":65535,"data":"ffffffff0001"}}));
    rep.sample(json!({"reply":"v4-error3-code1-opts4-quote8"}));
    rep.assume("ICMPv6 checksums are computed by the kernel for raw ICMPv6 sockets (RFC 3542), so only layout is checked for v6 requests");
    rep.assume("duplicate network replies and errors quoting a request behind IPv6 extension headers are unconstrained");
    rep.cov("exhaustive", true);
    rep.finish()
}

pub fn replay(case: &serde_json::Value) -> Result<(), Violation> {
    let bad = || Violation::new("C11:machinery", "bad replay file", json!({}));
    match case["kind"].as_str() {
        Some("echo") => check_echo(
            case["v6"].as_bool().unwrap_or(false),
            case["id"].as_u64().unwrap_or(0) as u16,
            case["seq"].as_u64().unwrap_or(0) as u16,
            &hex::decode(case["data"].as_str().unwrap_or("")).map_err(|_| bad())?,
        )
        .map(|_| ()),
        Some("reply") => {
            let name = case["name"].as_str().unwrap_or("");
            let c = reply_cases().into_iter().find(|c| c.name == name && hex::encode(&c.packet) == case["packet"].as_str().unwrap_or(""));
            check_reply(&c.ok_or_else(bad)?).map(|_| ())
        }
        Some("decode") => {
            let kinds = rec_kinds();
            let seq: Vec<usize> = case["seq"].as_array().ok_or_else(bad)?.iter().map(|x| x.as_u64().unwrap_or(0) as usize).collect();
            let cuts: Vec<usize> = case["cuts"].as_array().ok_or_else(bad)?.iter().map(|x| x.as_u64().unwrap_or(0) as usize).collect();
            let stream = Bytes::from(seq.iter().flat_map(|k| kinds[*k].clone()).collect::<Vec<u8>>());
            let expected = ref_decode_icmp(&stream);
            judge_stream(&seq, &stream, &expected, &cuts)
        }
        Some("history") | Some("icmp-e2e") => super::c11d::replay(case),
        _ => Err(bad()),
    }
}
