//! C12 — ClientHello random is extracted exactly and transparently.
//!
//! (i) the production extractor on every prefix of a corpus of real (rustls) and synthetic
//! ClientHellos; (ii) the production `TlsListener::listen` + `accept` over a real loopback
//! TcpStream while the harness writes the first flight under every 1-cut (and structural 2-cuts,
//! byte-at-a-time) and then completes a real TLS handshake (Finished covers the transcript, so a
//! lost, duplicated or reordered byte fails it); (iii) the accept path `Core::on_new_tls_connection`
//! for the wiring facts other properties rely on (rules before the handshake, refusal of h3 / unknown
//! SNI on TCP).

use super::common::{make_world, Cfg};
use super::door;
use crate::engine::explore::sweep_dyn;
use crate::engine::report::{Report, Tier, Violation};
use crate::engine::rt;
use rustls::client::{ServerCertVerified, ServerCertVerifier};
use serde_json::json;
use std::borrow::Cow;
use std::sync::Arc;
use std::time::Duration;
use tokio::io::{AsyncReadExt, AsyncWriteExt};
use trusttunnel::verif_hooks::{self as vh, VProtocol};

struct NoVerify;
impl ServerCertVerifier for NoVerify {
    fn verify_server_cert(
        &self,
        _end_entity: &rustls::Certificate,
        _intermediates: &[rustls::Certificate],
        _server_name: &rustls::ServerName,
        _scts: &mut dyn Iterator<Item = &[u8]>,
        _ocsp_response: &[u8],
        _now: std::time::SystemTime,
    ) -> Result<ServerCertVerified, rustls::Error> {
        Ok(ServerCertVerified::assertion())
    }
}

pub fn client_config(alpn: &[&[u8]]) -> Arc<rustls::ClientConfig> {
    let mut c = rustls::ClientConfig::builder()
        .with_safe_defaults()
        .with_custom_certificate_verifier(Arc::new(NoVerify))
        .with_no_client_auth();
    c.alpn_protocols = alpn.iter().map(|a| a.to_vec()).collect();
    Arc::new(c)
}

pub fn new_client(sni: &str, alpn: &[&[u8]]) -> Result<(rustls::ClientConnection, Vec<u8>), String> {
    let name = rustls::ServerName::try_from(sni).map_err(|e| format!("server name {sni:?}: {e}"))?;
    let mut conn = rustls::ClientConnection::new(client_config(alpn), name).map_err(|e| e.to_string())?;
    let mut hello = Vec::new();
    while conn.wants_write() {
        conn.write_tls(&mut hello).map_err(|e| e.to_string())?;
    }
    Ok((conn, hello))
}

/// add a padding extension of `n` bytes to a single-record ClientHello; split into records of <= 16384
fn pad_hello(hello: &[u8], n: usize) -> Vec<u8> {
    let hs = &hello[5..];
    let mut pos = 4 + 2 + 32;
    pos += 1 + hs[pos] as usize; // session id
    pos += 2 + u16::from_be_bytes([hs[pos], hs[pos + 1]]) as usize; // cipher suites
    pos += 1 + hs[pos] as usize; // compression
    let ext_len = u16::from_be_bytes([hs[pos], hs[pos + 1]]) as usize;
    let mut body = hs[..pos].to_vec();
    let new_ext_len = ext_len + 4 + n;
    body.extend_from_slice(&(new_ext_len as u16).to_be_bytes());
    body.extend_from_slice(&hs[pos + 2..pos + 2 + ext_len]);
    body.extend_from_slice(&[0x00, 0x15]);
    body.extend_from_slice(&(n as u16).to_be_bytes());
    body.extend(std::iter::repeat(0u8).take(n));
    let hs_len = body.len() - 4;
    body[1] = (hs_len >> 16) as u8;
    body[2] = (hs_len >> 8) as u8;
    body[3] = hs_len as u8;
    let mut out = vec![];
    for chunk in body.chunks(16384) {
        out.extend_from_slice(&[0x16, 0x03, 0x01]);
        out.extend_from_slice(&(chunk.len() as u16).to_be_bytes());
        out.extend_from_slice(chunk);
    }
    out
}

pub struct Sample {
    pub name: String,
    pub bytes: Vec<u8>,
    /// the true random if the first record holds a complete ClientHello
    random: Option<Vec<u8>>,
    /// a complete, standard hello: the value must be found once the record is complete
    must_find: bool,
}

pub fn corpus() -> Result<Vec<Sample>, String> {
    let mut v = vec![];
    let long60 = format!("{}.t", "a".repeat(58));
    let long253 = format!("{}.{}.{}.{}", "a".repeat(63), "b".repeat(63), "c".repeat(63), "d".repeat(61));
    for (sni, alpn) in [("m.t", vec![b"h2".as_ref()]), ("a", vec![]), (long60.as_str(), vec![b"h2".as_ref(), b"http/1.1".as_ref()]), (long253.as_str(), vec![b"http/1.1".as_ref()])] {
        let (_, hello) = new_client(sni, &alpn)?;
        let rec_len = u16::from_be_bytes([hello[3], hello[4]]) as usize;
        if hello.len() != 5 + rec_len {
            return Err("rustls produced a multi-record first flight".into());
        }
        v.push(Sample { name: format!("rustls-sni{}-alpn{}", sni.len(), alpn.len()), random: Some(hello[11..43].to_vec()), bytes: hello.clone(), must_find: true });
        if sni == "m.t" {
            for ver in [[3u8, 0u8], [3, 2], [3, 3], [3, 4]] {
                let mut h = hello.clone();
                h[1..3].copy_from_slice(&ver);
                v.push(Sample { name: format!("record-version-{:02x}{:02x}", ver[0], ver[1]), random: Some(hello[11..43].to_vec()), bytes: h, must_find: true });
            }
            let p4k = pad_hello(&hello, 4000);
            v.push(Sample { name: "rustls-padded-4k".into(), random: Some(p4k[11..43].to_vec()), bytes: p4k, must_find: true });
            let p17k = pad_hello(&hello, 17000);
            // the ClientHello spans two records: the first record alone does not hold a complete message
            v.push(Sample { name: "rustls-padded-17k-two-records".into(), random: Some(p17k[11..43].to_vec()), bytes: p17k, must_find: false });
            let mut ccs_first = vec![0x14, 0x03, 0x03, 0x00, 0x01, 0x01];
            ccs_first.extend_from_slice(&hello);
            v.push(Sample { name: "ccs-record-first".into(), random: None, bytes: ccs_first, must_find: false });
            let mut alert_first = vec![0x15, 0x03, 0x03, 0x00, 0x02, 0x01, 0x00];
            alert_first.extend_from_slice(&hello);
            v.push(Sample { name: "alert-record-first".into(), random: None, bytes: alert_first, must_find: false });
            // the ClientHello fragmented over TLS records with a first fragment too short to hold the
            // random: the value cannot be taken from the first record (and never from bytes 11..43 of
            // the stream, which now contain a record header)
            for first in [4usize, 20, 37] {
                let hs = &hello[5..];
                let mut frag = vec![0x16, 0x03, 0x01];
                frag.extend_from_slice(&(first as u16).to_be_bytes());
                frag.extend_from_slice(&hs[..first]);
                frag.extend_from_slice(&[0x16, 0x03, 0x01]);
                frag.extend_from_slice(&((hs.len() - first) as u16).to_be_bytes());
                frag.extend_from_slice(&hs[first..]);
                v.push(Sample { name: format!("record-fragmented-first{first}"), random: Some(hello[11..43].to_vec()), bytes: frag, must_find: false });
            }
            // a ServerHello-typed handshake message whose bytes 11..43 look like a random
            let mut not_ch = hello.clone();
            not_ch[5] = 0x02;
            v.push(Sample { name: "handshake-not-clienthello".into(), random: None, bytes: not_ch, must_find: false });
        }
    }
    // SSLv2-compatible hello
    let mut v2 = vec![0x80, 0x2e, 0x01, 0x03, 0x01, 0x00, 0x15, 0x00, 0x00, 0x00, 0x10];
    v2.extend((0..37).map(|i| i as u8));
    v.push(Sample { name: "sslv2-hello".into(), random: None, bytes: v2, must_find: false });
    v.push(Sample { name: "plain-http".into(), random: None, bytes: b"GET / HTTP/1.1\r\nHost: m.t\r\n\r\n".to_vec(), must_find: false });
    Ok(v)
}

fn check_prefixes(rep: &mut Report) -> Result<(), String> {
    let c = corpus()?;
    let mut n = 0u64;
    let mut classes = std::collections::BTreeSet::new();
    for s in &c {
        let first_record_end = if s.bytes.len() >= 5 && s.bytes[0] >= 0x14 && s.bytes[0] <= 0x17 { 5 + u16::from_be_bytes([s.bytes[3], s.bytes[4]]) as usize } else { usize::MAX };
        for p in 0..=s.bytes.len() {
            n += 1;
            let case = json!({"kind":"prefix","sample":s.name,"prefix":p});
            let r = super::guarded(|| vh::extract_client_random(&s.bytes[..p]));
            let class = match r {
                Err(panic) => {
                    rep.violation(Violation::new(format!("C12:extract:panic:{}", s.name), format!("extract_client_random panicked on a {p}-byte prefix of {}: {panic}", s.name), case));
                    continue;
                }
                Ok(Err(())) => "need-more",
                Ok(Ok(None)) => "absent",
                Ok(Ok(Some(v))) => {
                    if Some(&v) != s.random.as_ref() {
                        rep.violation(Violation::new(
                            format!("C12:extract:wrong-value:{}", s.name),
                            format!("a value that is not the client random was extracted from a {p}-byte prefix of {}: {}", s.name, hex::encode(&v)),
                            case,
                        ));
                        continue;
                    }
                    if p < 43 {
                        rep.violation(Violation::new(format!("C12:extract:value-from-incomplete-random:{}", s.name), format!("value reported with only {p} bytes available"), case));
                        continue;
                    }
                    "found"
                }
            };
            if s.must_find && p >= first_record_end && class != "found" {
                rep.violation(Violation::new(
                    format!("C12:extract:not-found:{}", s.name),
                    format!("{}: the complete ClientHello record ({first_record_end} bytes) is available ({p} bytes) and the random is reported {class}", s.name),
                    case,
                ));
                continue;
            }
            classes.insert(format!("{}:{class}", s.name));
        }
    }
    rep.add("evaluations", n);
    rep.add("distinct_nontrivial", classes.len() as u64);
    rep.sub.push(json!({"sub":"extract-on-every-prefix","samples":c.len(),"prefixes":n,"classes":classes.len()}));
    Ok(())
}

// ------------------------------------------------------------------------------------------------
// (ii) real handshakes over loopback with a segmented first flight
// ------------------------------------------------------------------------------------------------

#[derive(Clone, Debug, serde::Serialize, serde::Deserialize)]
pub struct HsCase {
    pub sample: String,
    pub cuts: Vec<usize>,
}

fn hs_samples() -> Vec<(&'static str, &'static str, Vec<&'static [u8]>, usize, Option<[u8; 2]>)> {
    // (name, sni, alpn, padding, legacy record version written over the one rustls sends)
    vec![
        ("plain", "m.t", vec![b"h2"], 0, None),
        ("no-alpn-short-sni", "a", vec![], 0, None),
        ("padded-4k", "m.t", vec![b"h2", b"http/1.1"], 4000, None),
        ("padded-17k", "m.t", vec![b"http/1.1"], 17000, None),
        // the record layer version of a ClientHello is a legacy field that stacks fill differently
        ("record-version-0303", "m.t", vec![b"h2"], 0, Some([3, 3])),
        ("record-version-0300", "a", vec![], 0, Some([3, 0])),
    ]
}

async fn handshake_case(c: &HsCase) -> Result<&'static str, Violation> {
    let case = json!({"kind":"handshake","case":c});
    let (name, sni, alpn, pad, recver) = hs_samples().into_iter().find(|s| s.0 == c.sample).ok_or_else(|| Violation::new("C12:machinery", "unknown sample", json!({})))?;
    let mk = |sig: &str, what: String| Violation::new(format!("C12:{sig}:{name}:{}", match c.cuts.len() { 0 => "uncut", 1 => "1-cut", 2 => "2-cut", _ => "byte-at-a-time" }), format!("{what}; sample {name}, cuts {:?}", if c.cuts.len() > 4 { vec![] } else { c.cuts.clone() }), case.clone());
    let (mut conn, hello0) = new_client(sni, &alpn).map_err(|e| Violation::new("C12:machinery", e, json!({})))?;
    // padding changes the transcript, so it cannot be applied to a live rustls client: padded
    // samples are only used up to the point where the server has parsed the hello
    let padded = pad > 0;
    let mut hello = if padded { pad_hello(&hello0, pad) } else { hello0.clone() };
    if let Some(v) = recver {
        // not part of the handshake transcript: the live client state stays valid
        hello[1..3].copy_from_slice(&v);
    }
    let want_random = hello[11..43].to_vec();
    let listener = tokio::net::TcpListener::bind("127.0.0.1:0").await.map_err(|e| Violation::new("C12:machinery", e.to_string(), json!({})))?;
    let addr = listener.local_addr().unwrap();
    let mut connect = Box::pin(tokio::net::TcpStream::connect(addr));
    let mut accept = Box::pin(listener.accept());
    let mut sock = None;
    let mut srv = None;
    for _ in 0..10_000 {
        if sock.is_none() {
            if let Some(r) = door::poll_once(&mut connect).await {
                sock = Some(r.map_err(|e| Violation::new("C12:machinery", e.to_string(), json!({})))?);
            }
        }
        if srv.is_none() {
            if let Some(r) = door::poll_once(&mut accept).await {
                srv = Some(r.map_err(|e| Violation::new("C12:machinery", e.to_string(), json!({})))?.0);
            }
        }
        if sock.is_some() && srv.is_some() {
            break;
        }
        tokio::task::yield_now().await;
    }
    let (Some(mut sock), Some(srv)) = (sock, srv) else {
        return Err(Violation::new("C12:machinery", "loopback connect failed", json!({})));
    };
    let _ = sock.set_nodelay(true);
    // thousands of short connections: leave no TIME_WAIT entries behind
    let _ = sock.set_linger(Some(Duration::ZERO));
    let want_sni = sni.to_string();
    let want_alpn: Vec<Vec<u8>> = alpn.iter().map(|a| a.to_vec()).collect();
    let server = tokio::spawn(async move {
        let acc = vh::tls_listen(srv).await.map_err(|e| format!("listen: {e}"))?;
        let seen = (acc.client_random(), acc.sni(), acc.alpn());
        if padded {
            return Ok::<_, String>((seen, Vec::new()));
        }
        let proto = if acc.alpn().iter().any(|a| a == b"h2") { VProtocol::Http2 } else { VProtocol::Http1 };
        let mut s = acc.accept(proto, &rt::cert_path("m.t"), &rt::key_path("m.t")).await.map_err(|e| format!("accept: {e}"))?;
        // echo one application message
        let mut buf = [0u8; 64];
        let n = s.read(&mut buf).await.map_err(|e| format!("read: {e}"))?;
        s.write_all(&buf[..n]).await.map_err(|e| format!("write: {e}"))?;
        s.flush().await.map_err(|e| format!("flush: {e}"))?;
        // let the client close first (it resets: no TIME_WAIT entry is left on either side)
        let echoed = buf[..n].to_vec();
        let mut rest = [0u8; 16];
        let _ = tokio::time::timeout(Duration::from_secs(2), s.read(&mut rest)).await;
        Ok((seen, echoed))
    });
    // the first flight in pieces, the server running to quiescence in between
    let mut prev = 0;
    let mut bounds = c.cuts.clone();
    bounds.push(hello.len());
    for b in bounds {
        if b <= prev || b > hello.len() {
            continue;
        }
        let mut w = Box::pin(sock.write_all(&hello[prev..b]));
        if door::until(&mut w, Duration::from_secs(5)).await.is_none() {
            return Err(Violation::new("C12:machinery", "client write stalled", case));
        }
        drop(w);
        prev = b;
        door::spin(12).await;
    }
    let msg = b"hello over tls";
    if !padded {
        // complete the handshake with the live client state, then one application round trip
        let mut sent_app = false;
        let mut echoed: Vec<u8> = vec![];
        let t0 = std::time::Instant::now();
        loop {
            while conn.wants_write() {
                let mut out = Vec::new();
                conn.write_tls(&mut out).map_err(|e| mk("client-tls-error", e.to_string()))?;
                let mut w = Box::pin(sock.write_all(&out));
                if door::until(&mut w, Duration::from_secs(5)).await.is_none() {
                    return Err(Violation::new("C12:machinery", "client write stalled", case));
                }
            }
            if !conn.is_handshaking() && !sent_app {
                use std::io::Write;
                conn.writer().write_all(msg).unwrap();
                sent_app = true;
                continue;
            }
            if sent_app && echoed.len() >= msg.len() {
                break;
            }
            let mut buf = [0u8; 8192];
            let n = {
                let mut r = Box::pin(sock.read(&mut buf));
                match door::until(&mut r, Duration::from_secs(5)).await {
                    Some(Ok(n)) => n,
                    Some(Err(e)) => return Err(mk("handshake-failed", format!("connection error during the handshake: {e}"))),
                    None => return Err(mk("handshake-stalled", "no progress for 5 s of real time".into())),
                }
            };
            if n == 0 {
                let why = match door::until(&mut Box::pin(async { server.await }), Duration::from_secs(2)).await {
                    Some(Ok(Err(e))) => e,
                    _ => "?".into(),
                };
                return Err(mk("handshake-failed", format!("the server closed the connection during the handshake ({why})")));
            }
            conn.read_tls(&mut &buf[..n]).map_err(|e| mk("client-tls-error", e.to_string()))?;
            match conn.process_new_packets() {
                Ok(_) => {}
                Err(e) => return Err(mk("handshake-failed", format!("the client rejected the server's flight: {e} (bytes lost, duplicated or reordered while peeking?)"))),
            }
            use std::io::Read;
            let mut tmp = [0u8; 64];
            while let Ok(k) = conn.reader().read(&mut tmp) {
                if k == 0 {
                    break;
                }
                echoed.extend_from_slice(&tmp[..k]);
            }
            if t0.elapsed() > Duration::from_secs(10) {
                return Err(mk("handshake-stalled", "no completion in 10 s".into()));
            }
        }
        if echoed != msg {
            return Err(mk("application-data-corrupted", format!("echo {:?}", String::from_utf8_lossy(&echoed))));
        }
    }
    // the client goes first (reset: no TIME_WAIT entry on either side); the server then finishes
    drop(sock);
    let mut sj = Box::pin(server);
    let res = match door::until(&mut sj, Duration::from_secs(5)).await {
        Some(Ok(Ok(x))) => x,
        Some(Ok(Err(e))) => return Err(mk("server-error", e)),
        _ => return Err(mk("server-stalled", "the server side did not finish".into())),
    };
    let ((random, seen_sni, seen_alpn), _) = res;
    // 17k-padded hello: the first record does not hold a complete ClientHello; absent is acceptable
    match random {
        Some(r) if r == want_random => {}
        None if pad > 16000 => {}
        Some(r) => return Err(mk("wrong-client-random", format!("listener reported {} instead of {}", hex::encode(r), hex::encode(&want_random)))),
        None => return Err(mk("client-random-absent", "the random of a complete ClientHello was reported absent".into())),
    }
    if seen_sni.as_deref() != Some(want_sni.as_str()) || seen_alpn != want_alpn {
        return Err(mk("hello-misread", format!("SNI/ALPN seen by the acceptor: {seen_sni:?} {seen_alpn:?}")));
    }
    Ok(if padded { "random-and-hello-read" } else { "handshake-and-echo-ok" })
}

// ------------------------------------------------------------------------------------------------
// (iii) wiring on the accept path
// ------------------------------------------------------------------------------------------------

async fn wiring_case(which: &str) -> Result<&'static str, Violation> {
    let case = json!({"kind":"wiring","which":which});
    let mk = |sig: &str, what: String| Violation::new(format!("C12:wiring:{sig}:{which}"), what, case.clone());
    let (sni, alpn, rules, expect_served): (&str, Vec<&[u8]>, Option<trusttunnel::rules::RulesConfig>, bool) = match which {
        "allowed" => ("m.t", vec![b"http/1.1"], None, true),
        "unknown-sni" => ("nobody.example", vec![b"http/1.1"], None, false),
        "h3-only-alpn-on-tcp" => ("m.t", vec![b"h3"], None, false),
        "denied-by-cidr" => ("m.t", vec![b"http/1.1"], Some(rule(Some("127.0.0.0/8"), None, true)), false),
        "denied-by-random-mask-never-matching-allow" => ("m.t", vec![b"http/1.1"], Some(rule(None, Some("00/00"), true)), false),
        "allowed-by-first-rule" => ("m.t", vec![b"http/1.1"], Some(trusttunnel::rules::RulesConfig { rule: vec![one(Some("127.0.0.1/32"), None, false), one(None, None, true)] }), true),
        _ => return Err(Violation::new("C12:machinery", "unknown wiring case", json!({}))),
    };
    let world = make_world(&Cfg { rules, quic: true, ..Cfg::default() }).map_err(|e| Violation::new("C12:machinery", e, json!({})))?;
    let listener = tokio::net::TcpListener::bind("127.0.0.1:0").await.map_err(|e| Violation::new("C12:machinery", e.to_string(), json!({})))?;
    let addr = listener.local_addr().unwrap();
    let ctx = world.ctx.clone();
    let server = tokio::spawn(async move {
        let (s, peer) = listener.accept().await.map_err(|e| e.to_string())?;
        let acc = vh::tls_listen(s).await.map_err(|e| format!("listen: {e}"))?;
        vh::on_new_tls_connection(&ctx, acc, peer.ip()).await
    });
    let (mut conn, hello) = new_client(sni, &alpn).map_err(|e| Violation::new("C12:machinery", e, json!({})))?;
    let mut connect = Box::pin(tokio::net::TcpStream::connect(addr));
    let mut sock = match door::until(&mut connect, Duration::from_secs(5)).await {
        Some(Ok(s)) => s,
        _ => return Err(Violation::new("C12:machinery", "connect failed", json!({}))),
    };
    drop(connect);
    {
        let mut w = Box::pin(sock.write_all(&hello));
        door::until(&mut w, Duration::from_secs(5)).await;
    }
    let mut from_server = 0usize;
    let mut handshake_done = false;
    let t0 = std::time::Instant::now();
    let mut response: Vec<u8> = vec![];
    let mut sent = false;
    loop {
        while conn.wants_write() {
            let mut out = Vec::new();
            let _ = conn.write_tls(&mut out);
            let mut w = Box::pin(sock.write_all(&out));
            door::until(&mut w, Duration::from_secs(5)).await;
        }
        if !conn.is_handshaking() {
            handshake_done = true;
            if !sent {
                use std::io::Write;
                conn.writer().write_all(b"CONNECT _check HTTP/1.1\r\nHost: _check\r\n\r\n").unwrap();
                sent = true;
                continue;
            }
        }
        if response.windows(4).any(|w| w == b"\r\n\r\n") || t0.elapsed() > Duration::from_secs(6) {
            break;
        }
        let mut buf = [0u8; 8192];
        let n = {
            let mut r = Box::pin(sock.read(&mut buf));
            match door::until(&mut r, Duration::from_secs(3)).await {
                Some(Ok(n)) => n,
                _ => 0,
            }
        };
        if n == 0 {
            break;
        }
        from_server += n;
        if conn.read_tls(&mut &buf[..n]).is_err() || conn.process_new_packets().is_err() {
            break;
        }
        use std::io::Read;
        let mut tmp = [0u8; 256];
        while let Ok(k) = conn.reader().read(&mut tmp) {
            if k == 0 {
                break;
            }
            response.extend_from_slice(&tmp[..k]);
        }
    }
    drop(sock);
    let mut sj = Box::pin(server);
    let _ = door::until(&mut sj, Duration::from_secs(3)).await;
    if expect_served {
        if !handshake_done || !response.starts_with(b"HTTP/1.1 200") {
            return Err(mk("must-serve", format!("an admissible connection was not served (handshake done: {handshake_done}, answer {:?})", String::from_utf8_lossy(&response))));
        }
        Ok("served")
    } else {
        if from_server > 0 {
            return Err(mk("answered-before-refusal", format!("the endpoint wrote {from_server} bytes (answered the TLS handshake) on a connection it must drop first")));
        }
        Ok("dropped-before-handshake")
    }
}

fn one(cidr: Option<&str>, prefix: Option<&str>, deny: bool) -> trusttunnel::rules::Rule {
    trusttunnel::rules::Rule { cidr: cidr.map(String::from), client_random_prefix: prefix.map(String::from), action: if deny { trusttunnel::rules::RuleAction::Deny } else { trusttunnel::rules::RuleAction::Allow } }
}
fn rule(cidr: Option<&str>, prefix: Option<&str>, deny: bool) -> trusttunnel::rules::RulesConfig {
    trusttunnel::rules::RulesConfig { rule: vec![one(cidr, prefix, deny)] }
}

const WIRING: [&str; 6] = ["allowed", "unknown-sni", "h3-only-alpn-on-tcp", "denied-by-cidr", "denied-by-random-mask-never-matching-allow", "allowed-by-first-rule"];

pub fn run(tier: Tier) -> i32 {
    crate::engine::watch::start("C12", tier.name(), Duration::from_secs(120), crate::engine::watch::OnExpiry::Machinery);
    let mut rep = Report::new("C12", tier, "exploration");
    if let Err(e) = check_prefixes(&mut rep) {
        eprintln!("MACHINERY: {e}");
        return 2;
    }
    // handshake cases
    let mut cases: Vec<HsCase> = vec![];
    for (name, sni, alpn, pad, recver) in hs_samples() {
        let reduced = pad > 0 || recver.is_some();
        let (_, h) = new_client(sni, &alpn).unwrap();
        let len = if pad > 0 { pad_hello(&h, pad).len() } else { h.len() };
        let rec_end = len.min(5 + 16384);
        cases.push(HsCase { sample: name.into(), cuts: vec![] });
        let pts: Vec<usize> = if !reduced {
            (1..len).collect()
        } else {
            let mut p: Vec<usize> = vec![1, 4, 5, 6, 9, 10, 11, 12, 42, 43, 44, 1023, 1024, 1025, 2048, len / 2, rec_end - 1, rec_end, rec_end + 1, rec_end + 5, len - 1, 16383, 16384, 16385];
            p.retain(|x| *x > 0 && *x < len);
            p.sort();
            p.dedup();
            p
        };
        for a in &pts {
            cases.push(HsCase { sample: name.into(), cuts: vec![*a] });
        }
        let structural: Vec<usize> = [1usize, 5, 6, 9, 11, 12, 43, 44, rec_end - 1, len - 1].into_iter().filter(|x| *x > 0 && *x < len).collect();
        let two: Vec<usize> = if tier == Tier::Thorough && !reduced { pts.clone() } else { structural };
        for (i, a) in two.iter().enumerate() {
            for b in &two[i + 1..] {
                cases.push(HsCase { sample: name.into(), cuts: vec![*a, *b] });
            }
        }
        if pad == 0 {
            cases.push(HsCase { sample: name.into(), cuts: (1..len).collect() });
        }
    }
    let r = sweep_dyn(cases.len() as u64, 2, Duration::from_secs(tier.pick(45, 1500)), rt::workers(), |i| {
        let c = &cases[i as usize];
        let _g = crate::engine::watch::enter("C12:wedged".into(), json!({"case": c}).to_string());
        rt::run_real(handshake_case(c)).map(|k| Cow::Owned(format!("{}:{k}", c.sample)))
    });
    rep.add("evaluations", r.evaluations);
    rep.add("distinct_nontrivial", r.classes.len() as u64);
    rep.violations(r.violations);
    rep.sub.push(json!({"sub":"segmented-first-flight-handshakes","cases":cases.len(),"completed":r.completed}));
    // wiring
    for w in WIRING {
        rep.add("evaluations", 1);
        if let Err(v) = rt::run_real(wiring_case(w)) {
            rep.violation(v);
        }
    }
    rep.sub.push(json!({"sub":"accept-path-wiring","scenarios":WIRING.len()}));
    rep.cov("exhaustive", r.completed);
    rep.cov("rule", "extractor on every prefix of 17 real/synthetic first flights (incl. legacy record versions 0300/0302/0303/0304); real TLS handshakes (rustls client, production listener/acceptor) with the first flight cut at every byte position (plain hellos) or at structural positions (4 KiB / 17 KiB padded), structural 2-cuts (all 2-cuts in thorough), byte-at-a-time; 6 accept-path wiring scenarios");
    rep.sample(json!({"sample":"plain","cuts":[11, 43]}));
    rep.assume("ClientHellos come from rustls 0.21 (boring's post-quantum key shares are represented by the 4 KiB / 17 KiB padded variants); the QUIC half (value of the completed handshake) is not driven");
    super::cq::c12_into(&mut rep, tier);
    rep.finish()
}

pub fn replay(case: &serde_json::Value) -> Result<(), Violation> {
    match case["kind"].as_str() {
        Some("handshake") => {
            let c: HsCase = serde_json::from_value(case["case"].clone()).map_err(|_| Violation::new("C12:machinery", "bad replay file", json!({})))?;
            rt::run_real(handshake_case(&c)).map(|_| ())
        }
        Some("wiring") => rt::run_real(wiring_case(case["which"].as_str().unwrap_or(""))).map(|_| ()),
        Some("prefix") => {
            let mut rep = Report::new("C12", Tier::Quick, "exploration");
            check_prefixes(&mut rep).map_err(|e| Violation::new("C12:machinery", e, json!({})))?;
            if rep.n_violations() > 0 {
                return Err(Violation::new("C12:extract", "prefix sweep reports violations", json!({})));
            }
            Ok(())
        }
        _ => Err(Violation::new("C12:machinery", "bad replay file", json!({}))),
    }
}
