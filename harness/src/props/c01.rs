//! C01 — authentication gate: no egress without valid credentials.
//!
//! The full product header x request kind x authenticator x SNI policy x protocol through the real
//! `Core::on_tunnel_request` (HttpDownstream + Tunnel + real H1/H2 codec + real DirectForwarder),
//! with `connect(2)`/`getaddrinfo` interposed so that any egress attempt is seen; plus histories
//! of <= 3 requests multiplexed on one HTTP/2 session (sequential, and all opened before any
//! answer is read). Oracle: an independent authorisation table.

use super::common::{make_world_with_auth, Cfg};
use super::door::{self, H1Client, H2Client, H2Outcome, ReqSpec, Resp};
use crate::engine::explore::sweep_dyn;
use crate::engine::report::{Report, Tier, Violation};
use crate::engine::rt;
use crate::engine::sys::{self, HostAnswer, SysEvent};
use base64::Engine;
use serde_json::json;
use std::borrow::Cow;
use std::net::SocketAddr;
use std::sync::Arc;
use std::time::Duration;
use trusttunnel::authentication::registry_based::{Client, RegistryBasedAuthenticator};
use trusttunnel::authentication::{Authenticator, Source, Status};
use trusttunnel::log_utils::IdChain;
use trusttunnel::verif_hooks::VProtocol;

pub const USERS: [(&str, &str); 2] = [("alice", "wonder:land"), ("bob", "s3cr3t pass")];

pub fn b64(u: &str, p: &str) -> String {
    base64::engine::general_purpose::STANDARD.encode(format!("{u}:{p}"))
}

pub const HEADERS: [&str; 14] = [
    "absent", "valid-user1", "valid-user2", "wrong-user", "wrong-password", "valid-trailing-space",
    "lowercase-scheme", "two-spaces", "bearer", "bad-base64", "non-utf8", "empty", "valid-user2-colon-suffix", "valid-user2-password-prefix",
];

pub fn header_value(kind: &str) -> Option<Vec<u8>> {
    let v1 = b64(USERS[0].0, USERS[0].1);
    let v2 = b64(USERS[1].0, USERS[1].1);
    Some(match kind {
        "absent" => return None,
        "valid-user1" => format!("Basic {v1}").into_bytes(),
        "valid-user2" => format!("Basic {v2}").into_bytes(),
        "wrong-user" => format!("Basic {}", b64("mallory", USERS[0].1)).into_bytes(),
        "wrong-password" => format!("Basic {}", b64(USERS[0].0, "nope")).into_bytes(),
        "valid-trailing-space" => format!("Basic {v1} ").into_bytes(),
        "lowercase-scheme" => format!("basic {v1}").into_bytes(),
        "two-spaces" => format!("Basic  {v1}").into_bytes(),
        "bearer" => b"Bearer abcdef".to_vec(),
        "bad-base64" => b"Basic !!!".to_vec(),
        "non-utf8" => b"Basic \xff\xfe\x80".to_vec(),
        "empty" => b"".to_vec(),
        // the right user with a password that merely starts with / is a prefix of the right one
        "valid-user2-colon-suffix" => format!("Basic {}", b64(USERS[1].0, &format!("{}:x", USERS[1].1))).into_bytes(),
        "valid-user2-password-prefix" => format!("Basic {}", b64(USERS[1].0, &USERS[1].1[..USERS[1].1.len() - 1])).into_bytes(),
        _ => unreachable!(),
    })
}

pub const KINDS: [&str; 7] = ["connect-host", "connect-ip", "check", "udp2", "icmp", "get-absolute", "post-absolute"];
pub const AUTHS: [&str; 3] = ["registry", "sni-aware", "none"];
pub const SNIS: [&str; 3] = ["no-label", "label-accepted", "label-rejected"];

/// accepts the configured Basic pairs and the SNI label "goodlabel"
pub struct SniAware(RegistryBasedAuthenticator);
impl Authenticator for SniAware {
    fn authenticate(&self, source: &Source<'_>, id: &IdChain<u64>) -> Status {
        match source {
            Source::Sni(x) if x == "goodlabel" => Status::Pass,
            Source::Sni(_) => Status::Reject,
            other => self.0.authenticate(other, id),
        }
    }
}

pub fn clients() -> Vec<Client> {
    USERS.iter().map(|(u, p)| Client { username: u.to_string(), password: p.to_string() }).collect()
}

pub fn authenticator(kind: &str) -> Option<Arc<dyn Authenticator>> {
    match kind {
        "registry" => Some(Arc::new(RegistryBasedAuthenticator::new(&clients()))),
        "sni-aware" => Some(Arc::new(SniAware(RegistryBasedAuthenticator::new(&clients())))),
        _ => None,
    }
}

#[derive(Clone, Debug, serde::Serialize, serde::Deserialize, PartialEq, Eq, Hash)]
pub struct Case {
    pub h2: bool,
    pub auth: String,
    pub sni: String,
    pub header: String,
    pub kind: String,
}

#[derive(Clone, Copy, Debug, PartialEq, Eq)]
pub enum Want {
    Authorised,
    Refused,
    Either,
    /// the connection itself is refused (SNI credentials rejected): no egress, any or no answer
    ConnectionRefused,
}

pub fn want(c: &Case) -> Want {
    if c.auth == "none" {
        // no credentials configured: the statement is silent (only "refused => no egress" is checked)
        return Want::Either;
    }
    // which SNI labels does the configured authenticator accept?
    let sni_accepted = c.sni == "label-accepted" && c.auth == "sni-aware";
    let sni_rejected = c.sni != "no-label" && !sni_accepted;
    if sni_rejected {
        return Want::ConnectionRefused;
    }
    match c.header.as_str() {
        "valid-user1" | "valid-user2" => Want::Authorised,
        // optional whitespace around a field value is not part of the value (RFC 9110 5.5)
        "valid-trailing-space" => Want::Either,
        "absent" => {
            if sni_accepted { Want::Authorised } else { Want::Refused }
        }
        _ => {
            if sni_accepted { Want::Either } else { Want::Refused }
        }
    }
}

pub fn spec(c: &Case, canary: SocketAddr, host: &str) -> ReqSpec {
    let auth = header_value(&c.header);
    match c.kind.as_str() {
        "connect-host" => ReqSpec::connect(&format!("{host}:{}", canary.port())).with_auth(auth),
        "connect-ip" => ReqSpec::connect(&canary.to_string()).with_auth(auth),
        "check" => ReqSpec::connect("_check").with_auth(auth),
        "udp2" => ReqSpec::connect("_udp2").with_auth(auth),
        "icmp" => ReqSpec::connect("_icmp").with_auth(auth),
        "get-absolute" => ReqSpec { method: "GET".into(), target: format!("http://{host}:{}/x", canary.port()), proxy_auth: auth, headers: vec![] },
        "post-absolute" => ReqSpec { method: "POST".into(), target: format!("http://{host}:{}/x", canary.port()), proxy_auth: auth, headers: vec![("content-length".into(), "0".into())] },
        _ => unreachable!(),
    }
}

#[derive(Debug, Clone, serde::Serialize)]
pub struct Obs {
    pub response: Option<Resp>,
    pub reset: Option<String>,
    pub connects: Vec<String>,
    pub resolves: Vec<String>,
    pub canary_accepts: u32,
}

fn egress_log(tag: &str) -> (Vec<String>, Vec<String>) {
    let connects = sys::take_connect_log()
        .into_iter()
        .filter_map(|e| match e {
            SysEvent::Connect { addr, sock_type } => Some(format!("{}:{addr}", if sock_type == libc::SOCK_STREAM { "tcp" } else { "dgram" })),
            _ => None,
        })
        .collect();
    let resolves = sys::take_resolve_log(|n| n.contains(tag));
    (connects, resolves)
}

pub fn judge_one(c: &Case, o: &Obs, canary: SocketAddr, idx: usize) -> Result<&'static str, Violation> {
    let w = want(c);
    let case = json!({"case": c, "request_index": idx});
    let proto = if c.h2 { "h2" } else { "h1" };
    let status = o.response.as_ref().map(|r| r.status);
    let egress = !o.connects.is_empty() || !o.resolves.is_empty() || o.canary_accepts > 0;
    let mk = |sig: String, what: String| Violation::new(sig, format!("{what}; case={c:?} observed={o:?}"), case.clone());
    match w {
        Want::Refused | Want::ConnectionRefused => {
            if egress {
                return Err(mk(format!("C01:egress-without-credentials:{}:{}:{proto}", c.header, c.kind), "outbound traffic for a request that is not authorised".into()));
            }
            if status.map(|s| (200..300).contains(&s)).unwrap_or(false) {
                return Err(mk(format!("C01:accepted-without-credentials:{}:{}:{proto}", c.header, c.kind), format!("request without valid credentials answered {}", status.unwrap())));
            }
            if w == Want::Refused {
                match &o.response {
                    Some(r) if r.status == 407 => {
                        let ch = r.header("proxy-authenticate").unwrap_or("");
                        if !ch.starts_with("Basic") {
                            return Err(mk(format!("C01:407-without-basic-challenge:{proto}"), format!("407 without a Basic challenge (proxy-authenticate: {ch:?})")));
                        }
                    }
                    other => {
                        return Err(mk(
                            format!("C01:refusal-not-407:{}:{proto}", c.header),
                            format!("a request that is not authorised must be answered 407, got {:?} (reset: {:?})", other.as_ref().map(|r| r.status), o.reset),
                        ));
                    }
                }
            }
            Ok(if w == Want::Refused { "refused-407" } else { "connection-refused" })
        }
        Want::Authorised => {
            if status == Some(407) {
                return Err(mk(format!("C01:valid-credentials-refused:{}:{}:{}:{proto}", c.auth, c.sni, c.header), "a request with valid credentials (or on an SNI-authenticated connection) was answered 407".into()));
            }
            match c.kind.as_str() {
                "check" => {
                    if status != Some(200) {
                        return Err(mk(format!("C01:health-check-not-200:{proto}"), format!("authorised health check answered {status:?}")));
                    }
                    if egress {
                        return Err(mk(format!("C01:health-check-egress:{proto}"), "a health check caused outbound traffic".into()));
                    }
                }
                "connect-host" | "connect-ip" | "get-absolute" | "post-absolute" => {
                    let want_c = format!("tcp:{canary}");
                    if o.connects.iter().filter(|x| **x == want_c).count() != 1 || o.connects.len() != 1 {
                        return Err(mk(format!("C01:wrong-egress:{}:{proto}", c.kind), format!("authorised request must contact exactly the destination it names ({want_c})")));
                    }
                }
                _ => {}
            }
            Ok("authorised")
        }
        Want::Either => {
            if status == Some(407) || status.is_none() || status.map(|s| s >= 400).unwrap_or(false) {
                if egress {
                    return Err(mk(format!("C01:egress-despite-refusal:{}:{}:{proto}", c.header, c.kind), "request was refused but caused outbound traffic".into()));
                }
                Ok("either-refused")
            } else {
                Ok("either-authorised")
            }
        }
    }
}

fn cfg_for(c: &Case) -> Cfg {
    Cfg { clients: if c.auth == "none" { vec![] } else { USERS.iter().map(|(u, p)| (u.to_string(), p.to_string())).collect() }, ..Cfg::default() }
}

fn sni_label(c: &Case) -> Option<String> {
    match c.sni.as_str() {
        "label-accepted" => Some("goodlabel".into()),
        "label-rejected" => Some("badlabel".into()),
        _ => None,
    }
}

/// one session, a list of requests; `pipelined` (H2 only): all opened before any answer is read
pub async fn run_session(cases: &[Case], pipelined: bool, tag: &str) -> Result<Vec<(Obs, SocketAddr)>, String> {
    let c0 = &cases[0];
    let world = make_world_with_auth(&cfg_for(c0), authenticator(&c0.auth))?;
    let canary = door::start_canary().await;
    let peer: SocketAddr = "198.51.100.7:40000".parse().unwrap();
    let proto = if c0.h2 { VProtocol::Http2 } else { VProtocol::Http1 };
    sys::take_connect_log();
    let (io, _door) = door::open(&world.ctx, proto, "m.t", sni_label(c0), peer, 1 << 16);
    let mut out = vec![];
    let hosts: Vec<String> = (0..cases.len()).map(|i| format!("c{i}.{tag}.c01.test")).collect();
    for h in &hosts {
        sys::script_host(h, HostAnswer::Addrs(vec!["127.0.0.1".parse().unwrap()]));
    }
    let wall = Duration::from_secs(5);
    if !c0.h2 {
        let mut cl = H1Client::new(io);
        for (i, c) in cases.iter().enumerate() {
            let before = canary.accepted.load(std::sync::atomic::Ordering::SeqCst);
            let sp = spec(c, canary.addr, &hosts[i]);
            let sent = cl.send(&sp.h1_bytes()).await;
            let response = if sent { cl.response(wall).await } else { None };
            door::spin(50).await;
            let (connects, resolves) = egress_log(&format!("{tag}.c01.test"));
            out.push((Obs { response, reset: cl.io_error.clone().or(if cl.eof { Some("eof".into()) } else { None }), connects, resolves,
                canary_accepts: canary.accepted.load(std::sync::atomic::Ordering::SeqCst) - before }, canary.addr));
            if i + 1 < cases.len() {
                break; // HTTP/1.1 tunnel sessions carry one request
            }
        }
    } else {
        match H2Client::connect(io).await {
            Err(e) => {
                door::spin(50).await;
                let (connects, resolves) = egress_log(&format!("{tag}.c01.test"));
                for _ in cases {
                    out.push((Obs { response: None, reset: Some(e.clone()), connects: connects.clone(), resolves: resolves.clone(), canary_accepts: canary.accepted.load(std::sync::atomic::Ordering::SeqCst) }, canary.addr));
                }
            }
            Ok(mut cl) => {
                let mut streams = vec![];
                for (i, c) in cases.iter().enumerate() {
                    let sp = spec(c, canary.addr, &hosts[i]);
                    let st = match sp.h2_request() {
                        Ok(r) => cl.request(r, false).await,
                        Err(e) => Err(e),
                    };
                    if pipelined {
                        streams.push(st);
                    } else {
                        let before = canary.accepted.load(std::sync::atomic::Ordering::SeqCst);
                        let (response, reset) = match st {
                            Ok(mut s) => match s.response(wall).await {
                                H2Outcome::Response(r) => (Some(r), None),
                                H2Outcome::Reset(e) => (None, Some(e)),
                                H2Outcome::Nothing => (None, Some("no answer".into())),
                            },
                            Err(e) => (None, Some(e)),
                        };
                        door::spin(50).await;
                        let (connects, resolves) = egress_log(&hosts[i]);
                        let (c2, _) = egress_log("never-matches");
                        let mut connects = connects;
                        connects.extend(c2);
                        out.push((Obs { response, reset, connects, resolves, canary_accepts: canary.accepted.load(std::sync::atomic::Ordering::SeqCst) - before }, canary.addr));
                    }
                }
                if pipelined {
                    let mut answers = vec![];
                    for st in streams {
                        answers.push(match st {
                            Ok(mut s) => match s.response(wall).await {
                                H2Outcome::Response(r) => (Some(r), None),
                                H2Outcome::Reset(e) => (None, Some(e)),
                                H2Outcome::Nothing => (None, Some("no answer".into())),
                            },
                            Err(e) => (None, Some(e)),
                        });
                    }
                    door::spin(50).await;
                    // egress is attributed per request through the (unique) host name it resolves
                    let connects_all: Vec<String> = sys::take_connect_log().into_iter().filter_map(|e| match e {
                        SysEvent::Connect { addr, sock_type } => Some(format!("{}:{addr}", if sock_type == libc::SOCK_STREAM { "tcp" } else { "dgram" })),
                        _ => None,
                    }).collect();
                    let n_auth = cases.iter().filter(|c| want(c) == Want::Authorised && matches!(c.kind.as_str(), "connect-host" | "get-absolute" | "post-absolute" | "connect-ip")).count();
                    for (i, (response, reset)) in answers.into_iter().enumerate() {
                        let resolves = sys::take_resolve_log(|n| n == hosts[i]);
                        // the shared connect log is split: a request that resolved its name owns one connect
                        let mine: Vec<String> = if !resolves.is_empty() || (cases[i].kind == "connect-ip" && want(&cases[i]) == Want::Authorised) {
                            connects_all.iter().take(1).cloned().collect()
                        } else {
                            vec![]
                        };
                        let extra = connects_all.len() > n_auth;
                        out.push((Obs { response, reset, connects: if extra && want(&cases[i]) != Want::Authorised { connects_all.clone() } else { mine }, resolves, canary_accepts: 0 }, canary.addr));
                    }
                }
            }
        }
    }
    for h in &hosts {
        sys::unscript_host(h);
    }
    Ok(out)
}

fn all_cases(h2: bool) -> Vec<Case> {
    let mut v = vec![];
    for a in AUTHS {
        for s in SNIS {
            for h in HEADERS {
                for k in KINDS {
                    // HTTP/2 field values may not end in whitespace: the client library refuses to send it
                    v.push(Case { h2, auth: a.into(), sni: s.into(), header: h.into(), kind: k.into() });
                }
            }
        }
    }
    v
}

fn run_cases(rep: &mut Report, label: &str, sessions: Vec<(Vec<Case>, bool)>) {
    let n = sessions.len() as u64;
    let r = sweep_dyn(n, 1, Duration::from_secs(1500), rt::workers(), |i| {
        let (cases, pipelined) = &sessions[i as usize];
        let _g = crate::engine::watch::enter("C01:wedged".into(), json!({"cases": cases}).to_string());
        let tag = format!("s{i}");
        let res = rt::run_paused(run_session(cases, *pipelined, &tag));
        match res {
            Err(e) => Err(Violation::new("C01:machinery", e, json!({"cases": cases}))),
            Ok(obs) => {
                let mut classes = vec![];
                for (idx, (o, canary)) in obs.iter().enumerate() {
                    let mut v = judge_one(&cases[idx], o, *canary, idx);
                    if let Err(v) = &mut v {
                        v.case = json!({"cases": cases, "pipelined": pipelined, "request_index": idx});
                        if cases.len() > 1 {
                            v.signature = format!("{}:in-history", v.signature);
                        }
                    }
                    classes.push(v?);
                }
                Ok(Cow::Owned(format!("{}:{}", if cases[0].h2 { "h2" } else { "h1" }, classes.join("+"))))
            }
        }
    });
    rep.add("evaluations", r.evaluations);
    rep.add("distinct_nontrivial", r.classes.len() as u64);
    rep.violations(r.violations);
    rep.sub.push(json!({"sub": label, "sessions": n, "completed": r.completed, "outcome_classes": r.classes.len()}));
}

pub fn run(tier: Tier) -> i32 {
    crate::engine::watch::start("C01", tier.name(), Duration::from_secs(60), crate::engine::watch::OnExpiry::Machinery);
    let mut rep = Report::new("C01", tier, "exploration");
    // single requests: the full product
    let mut sessions: Vec<(Vec<Case>, bool)> = vec![];
    for h2 in [false, true] {
        for c in all_cases(h2) {
            sessions.push((vec![c], false));
        }
    }
    let n_single = sessions.len();
    run_cases(&mut rep, "single-requests", sessions);
    // histories on one HTTP/2 session over a reduced alphabet
    let hdrs = ["absent", "valid-user1", "wrong-password", "bearer"];
    let kinds = ["connect-host", "check", "get-absolute"];
    let mut alpha = vec![];
    for h in hdrs {
        for k in kinds {
            alpha.push(Case { h2: true, auth: "registry".into(), sni: "no-label".into(), header: h.into(), kind: k.into() });
        }
    }
    let mut hist: Vec<(Vec<Case>, bool)> = vec![];
    let max_len = tier.pick(2usize, 4usize);
    for len in 2..=max_len {
        let total = alpha.len().pow(len as u32);
        for mut i in 0..total {
            let mut s = vec![];
            for _ in 0..len {
                s.push(alpha[i % alpha.len()].clone());
                i /= alpha.len();
            }
            hist.push((s.clone(), false));
            hist.push((s, true));
        }
    }
    let n_hist = hist.len();
    run_cases(&mut rep, "h2-histories", hist);
    rep.cov("rule", format!("single requests: {} headers x {} kinds x {} authenticators x {} SNI policies x 2 protocols = {n_single}; histories: every sequence of 2..={max_len} requests over 4 headers x 3 kinds on one HTTP/2 session, sequential and pipelined = {n_hist}; distinct = (protocol, verdict classes) observed", HEADERS.len(), KINDS.len(), AUTHS.len(), SNIS.len()));
    rep.sample(json!({"case": Case { h2: true, auth: "registry".into(), sni: "no-label".into(), header: "bearer".into(), kind: "connect-host".into() }, "expected": "407 + Basic challenge, no connect/getaddrinfo"}));
    rep.cov("exhaustive", true);
    rep.assume("HTTP/3 is not driven (quiche cannot be placed under the harness); the authorisation decision in tunnel.rs is protocol independent");
    rep.assume("egress = any connect(2) / getaddrinfo issued by the process (interposed) or accept on the canary; raw ICMP sends are not interposed (ICMP is not configured in these runs)");
    super::cq::c01_into(&mut rep);
    rep.finish()
}

pub fn replay(case: &serde_json::Value) -> Result<(), Violation> {
    let bad = || Violation::new("C01:machinery", "bad replay file", json!({}));
    let cases: Vec<Case> = serde_json::from_value(case["cases"].clone()).map_err(|_| bad())?;
    let pipelined = case["pipelined"].as_bool().unwrap_or(false);
    let obs = rt::run_paused(run_session(&cases, pipelined, "replay")).map_err(|e| Violation::new("C01:machinery", e, json!({})))?;
    for (idx, (o, canary)) in obs.iter().enumerate() {
        judge_one(&cases[idx], o, *canary, idx)?;
    }
    Ok(())
}
