//! C11 (d) — matching of replies to waiters: explicit-state search over histories of requests from
//! two clients, kernel-generated and injected replies / errors / unrelated packets and timeouts on
//! the real `IcmpForwarder` with raw sockets bound to `lo`. When raw sockets are not permitted the
//! sub-check reports `skipped` and decides nothing.

use super::common::{build_hosts, Cfg};
use super::door;
use crate::engine::explore::{bfs, hash_of, HistOutcome, HistoryModel};
use crate::engine::report::{Report, Tier, Violation};
use crate::engine::rt;
use bytes::Bytes;
use serde_json::json;
use std::net::{IpAddr, Ipv4Addr};
use std::sync::Arc;
use std::time::Duration;
use trusttunnel::core::Core;
use trusttunnel::settings::{Http1Settings, Http2Settings, IcmpSettings, ListenProtocolSettings, Settings};
use trusttunnel::shutdown::Shutdown;
use trusttunnel::verif_hooks::{self as vh, VIcmpReport};

const TIMEOUT_MS: u64 = 1000;

#[derive(Clone, Debug, PartialEq, Eq, serde::Serialize, serde::Deserialize)]
pub enum Op {
    /// client c sends: 0 = own (id, seq) to 127.0.0.1; 1 = the (id, seq) both clients use, to
    /// 127.0.0.1; 2 = own (id, seq) to an address that never answers
    Send(u8, u8),
    /// the network delivers an echo reply for client c's silent request
    InjectReply(u8),
    /// ... a destination-unreachable error quoting it
    InjectError(u8),
    /// an echo reply nobody asked for
    InjectUnrelated,
    /// the request timeout passes
    Tick,
}

fn id0() -> u16 {
    0x4000 | ((std::process::id() as u16) & 0x0fff)
}

fn req_of(c: u8, kind: u8) -> (u16, u16, Ipv4Addr, u16) {
    match kind {
        0 => (id0().wrapping_add(c as u16 * 0x1000), 1, Ipv4Addr::LOCALHOST, 8),
        1 => (id0().wrapping_add(0x3000), 1, Ipv4Addr::LOCALHOST, 8),
        // the (id, seq) both clients use, with no data: the two requests are indistinguishable
        3 => (id0().wrapping_add(0x3000), 3, Ipv4Addr::LOCALHOST, 0),
        _ => (id0().wrapping_add(c as u16 * 0x1000 + 1), 2, Ipv4Addr::new(10, 255, 255, 1), 4),
    }
}

fn record(id: u16, dst: Ipv4Addr, seq: u16, ttl: u8, size: u16) -> Bytes {
    let mut v = Vec::with_capacity(23);
    v.extend_from_slice(&id.to_be_bytes());
    v.extend_from_slice(&[0; 12]);
    v.extend_from_slice(&dst.octets());
    v.extend_from_slice(&seq.to_be_bytes());
    v.push(ttl);
    v.extend_from_slice(&size.to_be_bytes());
    Bytes::from(v)
}

fn csum(b: &[u8]) -> u16 {
    let mut s: u64 = 0;
    for c in b.chunks(2) {
        s += ((c[0] as u64) << 8) | (*c.get(1).unwrap_or(&0) as u64);
    }
    while s >> 16 != 0 {
        s = (s & 0xffff) + (s >> 16);
    }
    !(s as u16)
}

struct RawSock(i32);
impl Drop for RawSock {
    fn drop(&mut self) {
        unsafe {
            libc::close(self.0);
        }
    }
}

fn raw_socket() -> Option<RawSock> {
    let fd = unsafe { libc::socket(libc::AF_INET, libc::SOCK_RAW, libc::IPPROTO_ICMP) };
    (fd >= 0).then_some(RawSock(fd))
}

fn inject(s: &RawSock, msg: &[u8]) {
    let mut m = msg.to_vec();
    m[2] = 0;
    m[3] = 0;
    let c = csum(&m);
    m[2..4].copy_from_slice(&c.to_be_bytes());
    unsafe {
        let mut a: libc::sockaddr_in = std::mem::zeroed();
        a.sin_family = libc::AF_INET as libc::sa_family_t;
        a.sin_addr.s_addr = u32::from_ne_bytes([127, 0, 0, 1]);
        libc::sendto(s.0, m.as_ptr() as *const libc::c_void, m.len(), 0, &a as *const _ as *const libc::sockaddr, std::mem::size_of::<libc::sockaddr_in>() as u32);
    }
}

/// hop limit each client asks for (the raw socket is shared by all clients)
fn ttl_of(c: u8) -> u8 {
    33 + 11 * c
}

/// IPv4 packets the harness's raw socket has seen since the last call: (ttl, icmp type, id, seq)
fn drain_raw(s: &RawSock) -> Vec<(u8, u8, u16, u16)> {
    let mut out = vec![];
    let mut buf = [0u8; 2048];
    loop {
        let n = unsafe { libc::recv(s.0, buf.as_mut_ptr() as *mut libc::c_void, buf.len(), libc::MSG_DONTWAIT) };
        if n <= 0 {
            break;
        }
        let p = &buf[..n as usize];
        let ihl = ((p[0] & 0x0f) as usize) * 4;
        if p.len() >= ihl + 8 {
            out.push((p[8], p[ihl], u16::from_be_bytes([p[ihl + 4], p[ihl + 5]]), u16::from_be_bytes([p[ihl + 6], p[ihl + 7]])));
        }
    }
    out
}

fn echo_reply(id: u16, seq: u16) -> Vec<u8> {
    let mut m = vec![0u8, 0, 0, 0];
    m.extend_from_slice(&id.to_be_bytes());
    m.extend_from_slice(&seq.to_be_bytes());
    m
}

fn unreachable_quoting(id: u16, seq: u16, dst: Ipv4Addr) -> Vec<u8> {
    let mut m = vec![3u8, 1, 0, 0, 0, 0, 0, 0];
    // quoted IPv4 header + the first 8 bytes of the echo request
    m.extend_from_slice(&[0x45, 0, 0, 32, 0x12, 0x34, 0x40, 0, 64, 1, 0, 0]);
    m.extend_from_slice(&[127, 0, 0, 1]);
    m.extend_from_slice(&dst.octets());
    m.extend_from_slice(&[8, 0, 0, 0]);
    m.extend_from_slice(&id.to_be_bytes());
    m.extend_from_slice(&seq.to_be_bytes());
    m
}

fn make_ctx() -> Result<(Core, vh::VContext), String> {
    let cfg = Cfg::default();
    let settings = Settings::builder()
        .listen_address("127.0.0.1:1")
        .map_err(|e| e.to_string())?
        .ipv6_available(false)
        .listen_protocols(ListenProtocolSettings { http1: Some(Http1Settings::builder().build()), http2: Some(Http2Settings::builder().build()), quic: None })
        .icmp(IcmpSettings::builder().interface_name("lo").request_timeout(Duration::from_millis(TIMEOUT_MS)).build().map_err(|e| format!("{e:?}"))?)
        .build()
        .map_err(|e| format!("{e:?}"))?;
    let core = Core::new(settings, None, build_hosts(&cfg)?, Shutdown::new()).map_err(|e| format!("{e:?}"))?;
    let ctx = vh::context(&core);
    Ok((core, ctx))
}

async fn drain(src: &mut vh::VIcmpMuxSource, rounds: u32) -> Vec<VIcmpReport> {
    let mut out = vec![];
    let mut idle = 0;
    while idle < rounds {
        let r = {
            let mut f = Box::pin(src.read());
            door::poll_once(&mut f).await
        };
        match r {
            Some(Ok(x)) => {
                out.push(x);
                idle = 0;
            }
            Some(Err(_)) => break,
            None => {
                idle += 1;
                tokio::task::yield_now().await;
            }
        }
    }
    out
}

async fn run_history(hist: &[Op]) -> Result<HistOutcome, Violation> {
    let fail = |sig: &str, what: String| Violation::new(format!("C11:waiters:{sig}"), format!("{what}; history {hist:?}"), json!({"kind":"history","history": hist}));
    let (_core, ctx) = make_ctx().map_err(|e| Violation::new("C11:machinery", e, json!({})))?;
    let Some(raw) = raw_socket() else {
        return Err(Violation::new("C11:machinery:raw", "raw sockets are not permitted", json!({})));
    };
    let listen = {
        let ctx = ctx.clone();
        tokio::spawn(async move { vh::icmp_listen(&ctx).await })
    };
    door::spin(50).await;
    if listen.is_finished() {
        return Err(Violation::new("C11:machinery:raw", "the ICMP forwarder cannot open its raw socket on lo", json!({})));
    }
    let mut muxes = vec![];
    for _ in 0..2 {
        muxes.push(vh::icmp_make_multiplexer(&ctx).map_err(|e| Violation::new("C11:machinery", e.to_string(), json!({})))?);
    }
    // model: requests still within their timeout: (client, id, seq, sent at ms)
    let mut pending: Vec<(u8, u16, u16, u64)> = vec![];
    let mut now_ms = 0u64;
    for (step, op) in hist.iter().enumerate() {
        let mut expect: [Vec<(u8, u8, u16, u16)>; 2] = [vec![], vec![]]; // (type, code, id, seq)
        let mut emitted: Option<(u8, u16, u16)> = None; // (ttl, id, seq) of a request that crosses lo
        let _ = drain_raw(&raw);
        match op {
            Op::Send(c, kind) => {
                let (id, seq, dst, size) = req_of(*c, *kind);
                let sent = muxes[*c as usize].1.write_request(record(id, dst, seq, ttl_of(*c), size)).await;
                if *kind != 2 {
                    emitted = Some((ttl_of(*c), id, seq));
                }
                match sent {
                    Ok(true) => {}
                    other => return Err(fail("request-not-sent", format!("step {step} {op:?}: the echo request was not emitted ({other:?})"))),
                }
                pending.push((*c, id, seq, now_ms));
                if *kind != 2 {
                    expect[*c as usize].push((0, 0, id, seq)); // the kernel answers for 127.0.0.1
                }
            }
            Op::InjectReply(c) | Op::InjectError(c) => {
                let (id, seq, dst, _) = req_of(*c, 2);
                let is_reply = matches!(op, Op::InjectReply(_));
                inject(&raw, &if is_reply { echo_reply(id, seq) } else { unreachable_quoting(id, seq, dst) });
                if pending.iter().any(|p| p.0 == *c && p.1 == id && p.2 == seq) {
                    expect[*c as usize].push(if is_reply { (0, 0, id, seq) } else { (3, 1, id, seq) });
                }
            }
            Op::InjectUnrelated => inject(&raw, &echo_reply(id0().wrapping_add(0x0777), 77)),
            Op::Tick => {
                tokio::time::advance(Duration::from_millis(TIMEOUT_MS + 1)).await;
                now_ms += TIMEOUT_MS + 1;
                pending.retain(|p| now_ms - p.3 <= TIMEOUT_MS);
            }
        }
        door::spin(120).await;
        if let Some((ttl, id, seq)) = emitted {
            let seen = drain_raw(&raw);
            match seen.iter().find(|p| p.1 == 8 && p.2 == id && p.3 == seq) {
                None => return Err(fail("request-not-sent", format!("step {step} {op:?}: no echo request (id {id:#x}, seq {seq}) crossed lo"))),
                Some(p) if p.0 != ttl => return Err(fail("wrong-ttl", format!("step {step} {op:?}: the echo request left with TTL {} instead of the requested {ttl}", p.0))),
                Some(_) => {}
            }
        }
        for c in 0..2usize {
            let got: Vec<(u8, u8, u16, u16)> = drain(&mut muxes[c].0, 40)
                .await
                .into_iter()
                .map(|r| {
                    let (id, seq) = r.responded.unwrap_or((0, 0));
                    (r.type_id, r.code, id, seq)
                })
                .collect();
            let mut want = expect[c].clone();
            let mut g = got.clone();
            want.sort();
            g.sort();
            if g != want {
                let kind = if g.len() < want.len() { "report-missing" } else if g.len() > want.len() { "spurious-or-misdirected-report" } else { "wrong-report" };
                let ctx_kind = match op {
                    Op::Send(_, 1) => "same-id-seq-from-two-clients",
                    Op::Send(_, 3) => "same-id-seq-no-data-from-two-clients",
                    Op::Send(..) => "own-request",
                    Op::InjectReply(_) => "injected-reply",
                    Op::InjectError(_) => "injected-error",
                    Op::InjectUnrelated => "unrelated-reply",
                    Op::Tick => "timeout",
                };
                return Err(fail(&format!("{kind}:{ctx_kind}"), format!("step {step} {op:?}: client {c} was reported {got:?}, expected {want:?} (type, code, id, seq)")));
            }
        }
        let (waiters, deadlines) = vh::icmp_waiters_len(&ctx);
        // requests without data that share (id, seq) are one and the same key: the later replaces the earlier
        let shared_nodata = req_of(0, 3);
        let collapsible = pending.iter().filter(|p| p.1 == shared_nodata.0 && p.2 == shared_nodata.1).count();
        let distinct = pending.len() - collapsible.saturating_sub(1);
        let within = |n: usize| n >= distinct && n <= pending.len();
        if !within(waiters) || !within(deadlines) {
            let how = if waiters > pending.len() || deadlines > pending.len() { "not-forgotten" } else { "lost" };
            return Err(fail(&format!("waiter-table:{how}:{}", if matches!(op, Op::Tick) { "after-timeout" } else { "after-request" }), format!("step {step} {op:?}: {waiters} waiters / {deadlines} deadline entries, {} request(s) within their timeout", pending.len())));
        }
    }
    listen.abort();
    let canon = hash_of(&pending.iter().map(|p| (p.0, p.1, p.2, now_ms - p.3)).collect::<Vec<_>>());
    Ok(HistOutcome { canon, extend: true })
}


/// End to end: CONNECT _icmp on an HTTP/2 session of the real accept path, one echo request to
/// 127.0.0.1 in the 7.3 encoding, the kernel's reply back in the 7.4 encoding.
async fn e2e_case(h2: bool) -> Result<&'static str, Violation> {
    let case = json!({"kind":"icmp-e2e","h2":h2});
    let fail = |sig: &str, what: String| Violation::new(format!("C11:e2e:{sig}:{}", if h2 { "h2" } else { "h1" }), what, case.clone());
    let (_core, ctx) = make_ctx().map_err(|e| Violation::new("C11:machinery", e, json!({})))?;
    if raw_socket().is_none() {
        return Err(Violation::new("C11:machinery:raw", "raw sockets are not permitted", json!({})));
    }
    let listen = {
        let ctx = ctx.clone();
        tokio::spawn(async move { vh::icmp_listen(&ctx).await })
    };
    door::spin(50).await;
    if listen.is_finished() {
        return Err(Violation::new("C11:machinery:raw", "the ICMP forwarder cannot open its raw socket on lo", json!({})));
    }
    let peer: std::net::SocketAddr = "198.51.100.7:40000".parse().unwrap();
    let (io, d) = door::open(&ctx, if h2 { vh::VProtocol::Http2 } else { vh::VProtocol::Http1 }, "m.t", None, peer, 1 << 16);
    let id = id0().wrapping_add(0x0e2e);
    let request = record(id, Ipv4Addr::LOCALHOST, 9, 64, 16);
    let mut got = vec![];
    if h2 {
        let mut cl = door::H2Client::connect(io).await.map_err(|e| Violation::new("C11:machinery", e, json!({})))?;
        let spec = door::ReqSpec::connect("_icmp");
        let mut st = cl.request(spec.h2_request().map_err(|e| Violation::new("C11:machinery", e, json!({})))?, false).await.map_err(|e| Violation::new("C11:machinery", e, json!({})))?;
        match st.response(Duration::from_secs(3)).await {
            door::H2Outcome::Response(r) if r.status == 200 => {}
            other => return Err(fail("mux-refused", format!("CONNECT _icmp answered {other:?}"))),
        }
        st.tx.send_data(request.clone(), false).map_err(|e| Violation::new("C11:machinery", e.to_string(), json!({})))?;
        let t0 = std::time::Instant::now();
        while got.len() < 22 && t0.elapsed() < Duration::from_secs(3) {
            let (b, ended, _) = st.body(20).await;
            got.extend_from_slice(&b);
            if ended {
                break;
            }
        }
    } else {
        let mut cl = door::H1Client::new(io);
        cl.send(&door::ReqSpec::connect("_icmp").h1_bytes()).await;
        match cl.response(Duration::from_secs(3)).await {
            Some(r) if r.status == 200 => {}
            other => return Err(fail("mux-refused", format!("CONNECT _icmp answered {:?}", other.map(|r| r.status)))),
        }
        cl.send(&request).await;
        let t0 = std::time::Instant::now();
        while cl.inbuf.len() < 22 && t0.elapsed() < Duration::from_secs(3) && !cl.eof {
            cl.pump(20).await;
        }
        got = cl.inbuf.clone();
    }
    d.task.abort();
    listen.abort();
    // 7.4: id(2) source(16, zero-padded IPv4) type(1) code(1) seq(2)
    let mut want = id.to_be_bytes().to_vec();
    want.extend_from_slice(&[0; 12]);
    want.extend_from_slice(&[127, 0, 0, 1, 0, 0, 0, 9]);
    if got != want {
        return Err(fail(if got.is_empty() { "no-reply" } else { "wrong-reply" }, format!("an echo request to 127.0.0.1 (id {id:#06x}, seq 9) through the tunnel was answered with {} instead of {}", hex::encode(&got), hex::encode(&want))));
    }
    Ok("echo-reply-relayed")
}

struct M;
impl HistoryModel for M {
    type Op = Op;
    fn ops(&self) -> Vec<Op> {
        vec![Op::Send(0, 0), Op::Send(0, 1), Op::Send(1, 1), Op::Send(0, 3), Op::Send(1, 3), Op::Send(0, 2), Op::Send(1, 2), Op::InjectReply(0), Op::InjectError(1), Op::InjectUnrelated, Op::Tick]
    }
    fn run(&self, hist: &[Op]) -> Result<HistOutcome, Violation> {
        rt::run_paused(run_history(hist))
    }
}

pub fn run_into(rep: &mut Report, tier: Tier) {
    // probe: are raw sockets available?
    if raw_socket().is_none() {
        rep.sub.push(json!({"sub":"waiter-histories","status":"skipped","reason":"socket(AF_INET, SOCK_RAW, IPPROTO_ICMP) is not permitted here"}));
        return;
    }
    let depth = tier.pick(4usize, 6usize);
    // raw ICMP sockets see every ICMP packet of the host: one worker, so histories do not hear each other
    let (st, viol, samples) = bfs(&M, depth, Duration::from_secs(tier.pick(40, 900)), 1, &|| {});
    let mut viol = viol;
    viol.sort_by_key(|(h, _)| h.len());
    let mut machinery_raw = false;
    for (_, v) in viol {
        if v.signature.starts_with("C11:machinery:raw") {
            machinery_raw = true;
            continue;
        }
        rep.violation(v);
    }
    if machinery_raw {
        rep.sub.push(json!({"sub":"waiter-histories","status":"skipped","reason":"the forwarder could not open/bind its raw socket on lo"}));
        return;
    }
    for h2 in [true, false] {
        match super::guarded(|| rt::run_real(e2e_case(h2))) {
            Ok(Ok(c)) => rep.sub.push(json!({"sub":"icmp-end-to-end","protocol": if h2 { "h2" } else { "h1" },"class":c,"what":"CONNECT _icmp through the real accept path, one 7.3 echo request to 127.0.0.1 on a raw socket bound to lo, the 7.4 reply back"})),
            Ok(Err(v)) if v.signature.starts_with("C11:machinery:raw") => {}
            Ok(Err(v)) => rep.violation(v),
            Err(p) => rep.violation(Violation::new("C11:e2e:panic", p, json!({"kind":"icmp-e2e","h2":h2}))),
        }
    }
    rep.add("evaluations", st.transitions);
    rep.add("distinct_nontrivial", st.states);
    rep.sub.push(json!({"sub":"waiter-histories","states":st.states,"transitions":st.transitions,"max_depth_completed":st.max_depth_completed,"capped":st.capped,
        "what":"BFS over histories of {request from client 0/1 to 127.0.0.1 with own or shared (id, seq), request to a silent address, injected echo reply / destination-unreachable quoting the silent request, unrelated reply, request timeout}: every report goes to the sender of the matching request and to nobody else, late and unrelated packets are not reported, waiter table == requests within their timeout",
        "samples": samples.into_iter().take(3).collect::<Vec<_>>()}));
}

pub fn replay(case: &serde_json::Value) -> Result<(), Violation> {
    if case["kind"].as_str() == Some("icmp-e2e") {
        return rt::run_real(e2e_case(case["h2"].as_bool().unwrap_or(true))).map(|_| ());
    }
    let hist: Vec<Op> = serde_json::from_value(case["history"].clone()).map_err(|_| Violation::new("C11:machinery", "bad replay file", json!({})))?;
    rt::run_paused(run_history(&hist)).map(|_| ())
}

#[allow(dead_code)]
fn _unused(_: Arc<()>, _: IpAddr) {}
