//! C11 (d) — waiter histories on real raw sockets (loopback). Built later in the round.
use crate::engine::report::{Report, Tier, Violation};
use serde_json::json;

pub fn run_into(rep: &mut Report, _tier: Tier) {
    rep.sub.push(json!({"sub":"waiter-histories","status":"not built yet"}));
}

pub fn replay(_case: &serde_json::Value) -> Result<(), Violation> {
    Err(Violation::new("C11:machinery", "no history replay yet", json!({})))
}
