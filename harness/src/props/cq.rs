//! QUIC / HTTP/3 scenarios: the real `Core::listen` (UDP listener, QuicMultiplexer, Http3Codec) on
//! loopback against the quiche client of `quic.rs`. Real time, real sockets; every scenario is a
//! member of a small enumerated table and its oracle is exact given what the client observed (the
//! TLS client random is read from the client's key log, not chosen).

use super::common::{make_world_with_auth, Cfg};
use super::door;
use super::quic::{free_port, ClientOpts, H3Response, QuicClient};
use crate::engine::report::{Report, Tier, Violation};
use crate::engine::rt;
use serde_json::json;
use std::net::SocketAddr;
use std::sync::Arc;
use std::time::Duration;
use tokio::io::{AsyncReadExt, AsyncWriteExt};
use trusttunnel::authentication::registry_based::{Client, RegistryBasedAuthenticator};

pub struct Endpoint {
    pub addr: SocketAddr,
    pub core: Arc<trusttunnel::core::Core>,
    pub ctx: trusttunnel::verif_hooks::VContext,
    pub shutdown: Arc<std::sync::Mutex<trusttunnel::shutdown::Shutdown>>,
    pub task: tokio::task::JoinHandle<std::io::Result<()>>,
}

impl Drop for Endpoint {
    fn drop(&mut self) {
        self.task.abort();
    }
}

/// a listening endpoint (TCP + UDP on one loopback port) built from `cfg`
pub async fn start(cfg: Cfg) -> Result<Endpoint, String> {
    let clients: Vec<Client> = cfg.clients.iter().map(|(u, p)| Client { username: u.clone(), password: p.clone() }).collect();
    let auth: Option<Arc<dyn trusttunnel::authentication::Authenticator>> = if clients.is_empty() { None } else { Some(Arc::new(RegistryBasedAuthenticator::new(&clients))) };
    start_with_auth(cfg, auth).await
}

pub async fn start_with_auth(mut cfg: Cfg, auth: Option<Arc<dyn trusttunnel::authentication::Authenticator>>) -> Result<Endpoint, String> {
    let port = free_port()?;
    cfg.listen = SocketAddr::from(([127, 0, 0, 1], port));
    cfg.quic = true;
    let world = make_world_with_auth(&cfg, auth)?;
    let ctx = world.ctx.clone();
    let shutdown = world.shutdown.clone();
    let core = Arc::new(world.core);
    let c2 = core.clone();
    let task = tokio::spawn(async move { c2.listen().await });
    door::spin(200).await;
    if task.is_finished() {
        return Err("Core::listen ended at once (port taken?)".into());
    }
    Ok(Endpoint { addr: cfg.listen, core, ctx, shutdown, task })
}

const AUTH: &str = "Basic dTpw"; // u:p

fn users() -> Vec<(String, String)> {
    vec![("u".into(), "p".into())]
}

// ------------------------------------------------------------------------------------------------
// C12 / C04 over QUIC: the client random the rules see is the one of the ClientHello, also when the
// ClientHello spans several Initial packets
// ------------------------------------------------------------------------------------------------

#[derive(Clone, Debug, serde::Serialize, serde::Deserialize)]
pub struct RandomCase {
    /// which bit of the first random byte the rule tests (mask 1 << bit), and the value that is denied
    pub bit: u8,
    pub deny_when_set: bool,
    /// 0 = ordinary ClientHello; otherwise the number of filler ALPN entries (multi-packet hello)
    pub extra_alpn: usize,
}

pub async fn random_case(c: &RandomCase) -> Result<&'static str, Violation> {
    let case = json!({"kind":"quic-random","case":c});
    let mk = |sig: &str, what: String| Violation::new(format!("C12:quic:{sig}:{}", if c.extra_alpn > 0 { "multi-packet-hello" } else { "single-packet-hello" }), what, case.clone());
    let mask = 1u8 << c.bit;
    let prefix = if c.deny_when_set { mask } else { 0 };
    let rules = trusttunnel::rules::RulesConfig {
        rule: vec![trusttunnel::rules::Rule { cidr: None, client_random_prefix: Some(format!("{prefix:02x}/{mask:02x}")), action: trusttunnel::rules::RuleAction::Deny }],
    };
    let ep = start(Cfg { rules: Some(rules), clients: users(), ..Cfg::default() }).await.map_err(|e| Violation::new("C12:machinery", e, json!({})))?;
    let mut cl = QuicClient::new(ep.addr, &ClientOpts { extra_alpn: c.extra_alpn, ..ClientOpts::default() }).map_err(|e| Violation::new("C12:machinery", e, json!({})))?;
    let established = cl.handshake(Duration::from_secs(4)).await;
    let mut served = false;
    if established {
        if let Ok(id) = cl.request("CONNECT", "_check", None, &[("proxy-authorization".into(), AUTH.into())], false) {
            let r = cl.response(id, Duration::from_secs(3), 4096, None).await;
            served = r.status == Some(200);
        }
    }
    let Some(random) = cl.client_random() else {
        // the handshake did not get far enough for the client to derive any secret
        if established {
            return Err(Violation::new("C12:machinery", "no key log line", case));
        }
        return Ok("no-handshake-no-random");
    };
    if c.extra_alpn > 0 && cl.sent < 2 {
        return Err(Violation::new("C12:machinery", "the large ClientHello did not span several packets", case));
    }
    let denied = (random[0] & mask != 0) == c.deny_when_set;
    cl.close();
    match (denied, served) {
        (true, true) => Err(mk("denied-random-served", format!("client random {} matches the deny rule {prefix:02x}/{mask:02x}, the connection was served", hex::encode(&random)))),
        (false, false) => Err(mk("allowed-random-refused", format!("client random {} does not match the deny rule {prefix:02x}/{mask:02x}, the connection was not served (established: {established})", hex::encode(&random)))),
        (true, false) => Ok("denied"),
        (false, true) => Ok("served"),
    }
}

// ------------------------------------------------------------------------------------------------
// C05 over QUIC: the certificate presented is the designated host's
// ------------------------------------------------------------------------------------------------

pub async fn cert_case(sni: &str) -> Result<&'static str, Violation> {
    let case = json!({"kind":"quic-cert","sni":sni});
    let mk = |sig: &str, what: String| Violation::new(format!("C05:quic:{sig}:{sni}"), what, case.clone());
    let cfg = Cfg { clients: users(), main_hosts: vec![("m.t".to_string(), vec![]), ("n.t".to_string(), vec![])], ping_hosts: vec!["p.t".into()], ..Cfg::default() };
    let ep = start(cfg).await.map_err(|e| Violation::new("C05:machinery", e, json!({})))?;
    let mut cl = QuicClient::new(ep.addr, &ClientOpts { sni: sni.into(), ..ClientOpts::default() }).map_err(|e| Violation::new("C05:machinery", e, json!({})))?;
    let established = cl.handshake(Duration::from_secs(3)).await;
    let want: Option<&str> = match sni {
        "m.t" | "cred.m.t" => Some("m.t"),
        "n.t" => Some("n.t"),
        "p.t" => Some("p.t"),
        _ => None,
    };
    match (want, established) {
        // C05 states the refusal of an undesignated SNI for TCP only: either outcome is accepted on QUIC
        (None, true) => Ok("undesignated-sni:handshake-completes"),
        (None, false) => Ok("undesignated-sni:refused"),
        (Some(_), false) => Err(mk("designated-host-refused", "the QUIC handshake did not complete".into())),
        (Some(h), true) => {
            let pem = std::fs::read_to_string(rt::cert_path(h)).map_err(|e| Violation::new("C05:machinery", e.to_string(), json!({})))?;
            let b64: String = pem.lines().filter(|l| !l.starts_with("-----")).collect();
            use base64::Engine;
            let der = base64::engine::general_purpose::STANDARD.decode(b64).map_err(|e| Violation::new("C05:machinery", e.to_string(), json!({})))?;
            let got = cl.peer_cert();
            cl.close();
            if got.as_deref() != Some(der.as_slice()) {
                return Err(mk("wrong-certificate", format!("the certificate presented over QUIC is not the one of {h}")));
            }
            Ok("designated-certificate")
        }
    }
}

// ------------------------------------------------------------------------------------------------
// C01 / C10 over HTTP/3: authentication gate and one final response
// ------------------------------------------------------------------------------------------------

pub async fn auth_case(header: &str, target: &str) -> Result<&'static str, Violation> {
    let case = json!({"kind":"quic-auth","header":header,"target":target});
    let mk = |sig: &str, what: String| Violation::new(format!("C01:h3:{sig}:{header}:{target}"), what, case.clone());
    let canary = door::start_canary().await;
    let ep = start(Cfg { clients: users(), allow_private: true, ..Cfg::default() }).await.map_err(|e| Violation::new("C01:machinery", e, json!({})))?;
    let mut cl = QuicClient::new(ep.addr, &ClientOpts::default()).map_err(|e| Violation::new("C01:machinery", e, json!({})))?;
    if !cl.handshake(Duration::from_secs(3)).await {
        return Err(Violation::new("C01:machinery", "QUIC handshake failed", case));
    }
    let mut headers = vec![];
    match header {
        "valid" => headers.push(("proxy-authorization".to_string(), AUTH.to_string())),
        "wrong" => headers.push(("proxy-authorization".to_string(), "Basic dTp4".to_string())),
        "other-scheme" => headers.push(("proxy-authorization".to_string(), "Bearer dTpw".to_string())),
        _ => {}
    }
    let authority = if target == "check" { "_check".to_string() } else { canary.addr.to_string() };
    let id = cl.request("CONNECT", &authority, None, &headers, false).map_err(|e| Violation::new("C01:machinery", e, json!({})))?;
    let r = cl.response(id, Duration::from_secs(3), 4096, None).await;
    if r.status == Some(200) && target == "connect" {
        let _ = cl.send_body(id, b"through-h3", false);
        let t0 = std::time::Instant::now();
        while canary.received.lock().unwrap().len() < 10 && t0.elapsed() < Duration::from_secs(2) {
            cl.pump();
            tokio::time::sleep(Duration::from_millis(2)).await;
        }
    }
    let reached = canary.received.lock().unwrap().clone();
    let connected = canary.accepted.load(std::sync::atomic::Ordering::SeqCst) > 0;
    cl.close();
    if header == "valid" {
        if r.status != Some(200) {
            return Err(mk("valid-refused", format!("valid credentials answered {:?}", r.status)));
        }
        if target == "connect" && reached != b"through-h3" {
            return Err(mk("not-relayed", format!("the destination received {:?}", String::from_utf8_lossy(&reached))));
        }
        Ok("authorised")
    } else {
        if r.status != Some(407) {
            return Err(mk("not-407", format!("a request without usable credentials answered {:?}", r.status)));
        }
        if !r.headers.iter().any(|(n, v)| n == "proxy-authenticate" && v.to_ascii_lowercase().starts_with("basic")) {
            return Err(mk("no-challenge", format!("407 without a Basic challenge: {:?}", r.headers)));
        }
        if connected || !reached.is_empty() {
            return Err(mk("egress-without-credentials", "the destination was contacted".into()));
        }
        Ok("refused-407")
    }
}

// ------------------------------------------------------------------------------------------------
// C18 over HTTP/3: a reverse-proxy client with a small stream window
// ------------------------------------------------------------------------------------------------

pub async fn rproxy_slow_case(body: usize, window: u64) -> Result<&'static str, Violation> {
    let case = json!({"kind":"quic-rproxy-slow","body":body,"window":window});
    let mk = |sig: &str, what: String| Violation::new(format!("C18:h3:rproxy:{sig}"), what, case.clone());
    let origin = tokio::net::TcpListener::bind("127.0.0.1:0").await.map_err(|e| Violation::new("C18:machinery", e.to_string(), json!({})))?;
    let oaddr = origin.local_addr().unwrap();
    let cfg = Cfg { clients: users(), reverse_proxy: Some((oaddr, "/app".into())), reverse_proxy_hosts: vec!["r.t".into()], ..Cfg::default() };
    let ep = start(cfg).await.map_err(|e| Violation::new("C18:machinery", e, json!({})))?;
    let mut cl = QuicClient::new(ep.addr, &ClientOpts { sni: "r.t".into(), stream_window: window, ..ClientOpts::default() }).map_err(|e| Violation::new("C18:machinery", e, json!({})))?;
    if !cl.handshake(Duration::from_secs(3)).await {
        return Err(mk("host-not-served", "QUIC handshake with the reverse-proxy host failed".into()));
    }
    let id = cl.request("GET", "r.t", Some("/app/data"), &[], true).map_err(|e| Violation::new("C18:machinery", e, json!({})))?;
    let payload: Vec<u8> = (0..body).map(|i| b'a' + (i % 26) as u8).collect();
    let mut wire = format!("HTTP/1.1 200 OK\r\nContent-Length: {body}\r\n\r\n").into_bytes();
    wire.extend_from_slice(&payload);
    // the origin: read the request head, answer head + body in one write
    let mut got = vec![];
    let mut os = None;
    let t0 = std::time::Instant::now();
    while os.is_none() && t0.elapsed() < Duration::from_secs(3) {
        cl.pump();
        let mut acc = Box::pin(origin.accept());
        if let Some(Ok((s, _))) = door::poll_once(&mut acc).await {
            os = Some(s);
        }
        drop(acc);
        tokio::time::sleep(Duration::from_millis(2)).await;
    }
    let Some(mut os) = os else {
        return Err(mk("origin-not-contacted", "the configured origin was not contacted".into()));
    };
    let _ = os.set_linger(Some(Duration::ZERO));
    let t0 = std::time::Instant::now();
    while !got.windows(4).any(|w| w == b"\r\n\r\n") && t0.elapsed() < Duration::from_secs(2) {
        cl.pump();
        let mut tmp = [0u8; 2048];
        let n = {
            let mut r = Box::pin(os.read(&mut tmp));
            door::poll_once(&mut r).await
        };
        if let Some(Ok(n)) = n {
            got.extend_from_slice(&tmp[..n]);
        }
        tokio::time::sleep(Duration::from_millis(1)).await;
    }
    let req = String::from_utf8_lossy(&got).to_ascii_lowercase();
    if !req.starts_with("get /app/data http/1.1\r\n") || !req.contains("x-original-protocol: http3") {
        return Err(mk("request-not-translated", format!("the origin received {req:?}")));
    }
    {
        let mut w = Box::pin(os.write_all(&wire));
        door::until(&mut w, Duration::from_secs(2)).await;
    }
    let r: H3Response = cl.response(id, Duration::from_secs(6), 64, Some(body)).await;
    cl.close();
    if r.status != Some(200) {
        return Err(mk("status", format!("the origin's 200 reached the client as {:?} (reset {:?})", r.status, r.reset)));
    }
    if r.body != payload {
        let how = if payload.starts_with(&r.body) { "truncated" } else { "changed" };
        return Err(mk(&format!("body-{how}"), format!("the origin sent {body} body bytes together with the head; the client (stream window {window}) received {}", r.body.len())));
    }
    Ok("proxied")
}

// ------------------------------------------------------------------------------------------------
// C09 over UDP: datagrams nobody should be able to hurt the listener with
// ------------------------------------------------------------------------------------------------

/// after every datagram of `family` the listener must still complete a handshake
pub async fn garbage_family(family: &str, datagrams: Vec<Vec<u8>>) -> Result<u64, Violation> {
    let case = json!({"kind":"quic-garbage","family":family});
    let ep = start(Cfg { clients: users(), ..Cfg::default() }).await.map_err(|e| Violation::new("C09:machinery", e, json!({})))?;
    let s = std::net::UdpSocket::bind("127.0.0.1:0").map_err(|e| Violation::new("C09:machinery", e.to_string(), json!({})))?;
    s.set_nonblocking(true).ok();
    let mut n = 0u64;
    for (i, d) in datagrams.iter().enumerate() {
        let _ = s.send_to(d, ep.addr);
        n += 1;
        if i % 64 == 63 {
            door::spin(20).await;
            let mut sink = [0u8; 2048];
            while s.recv_from(&mut sink).is_ok() {}
        }
    }
    door::spin(100).await;
    if ep.task.is_finished() {
        return Err(Violation::new(format!("C09:quic-datagram:listener-ended:{family}"), format!("Core::listen ended after {n} datagrams of family {family}"), case));
    }
    let mut cl = QuicClient::new(ep.addr, &ClientOpts::default()).map_err(|e| Violation::new("C09:machinery", e, json!({})))?;
    if !cl.handshake(Duration::from_secs(4)).await {
        return Err(Violation::new(format!("C09:quic-datagram:listener-deaf:{family}"), format!("after {n} datagrams of family {family} a regular QUIC handshake no longer completes"), case));
    }
    cl.close();
    Ok(n)
}

pub fn garbage_families(tier: Tier) -> Vec<(&'static str, Vec<Vec<u8>>)> {
    let mut out = vec![];
    // all short strings over the values the header parser branches on
    let alpha = [0x00u8, 0x01, 0x40, 0x7f, 0x80, 0xc0, 0xc3, 0xff];
    let max_l = tier.pick(4u32, 5u32);
    let mut short = vec![];
    let mut total = 0u64;
    for l in 0..=max_l {
        total += (alpha.len() as u64).pow(l);
    }
    for i in 0..total {
        let mut k = i;
        let mut len = 0u32;
        loop {
            let n = (alpha.len() as u64).pow(len);
            if k < n {
                break;
            }
            k -= n;
            len += 1;
        }
        let mut v = vec![0u8; len as usize];
        for p in (0..len as usize).rev() {
            v[p] = alpha[(k % alpha.len() as u64) as usize];
            k /= alpha.len() as u64;
        }
        short.push(v);
    }
    out.push(("short-strings", short));
    // long-header shapes: first byte x version x dcid length x scid length x token length x total size
    let mut shaped = vec![];
    for first in [0xc0u8, 0xc3, 0xd0, 0xe0, 0xf0, 0x80] {
        for version in [0u32, 1, 0x0a0a0a0a, 0xffffffff, 0x6b3343cf] {
            for dcil in [0u8, 8, 20, 21, 255] {
                for scil in [0u8, 8, 20, 21, 255] {
                    for token in [None, Some(0u8), Some(1), Some(0x3f), Some(0x40), Some(0xff)] {
                        for size in [7usize, 50, 1200] {
                            let mut d = vec![first];
                            d.extend_from_slice(&version.to_be_bytes());
                            d.push(dcil);
                            d.extend(std::iter::repeat(0xd1).take(dcil.min(20) as usize));
                            d.push(scil);
                            d.extend(std::iter::repeat(0x5c).take(scil.min(20) as usize));
                            if let Some(t) = token {
                                d.push(t);
                                d.extend(std::iter::repeat(0x70).take((t & 0x3f) as usize));
                            }
                            d.push(0x44);
                            d.push(0xb0);
                            d.resize(size.max(d.len().min(size)), 0xee);
                            d.truncate(size);
                            shaped.push(d);
                        }
                    }
                }
            }
        }
    }
    out.push(("long-header-shapes", shaped));
    out
}

/// every single-byte mutation (in the first 64 bytes) and truncation of a genuine first flight
pub async fn mutated_initials(tier: Tier) -> Result<u64, Violation> {
    // capture a genuine Initial from the client without a server
    let sink = std::net::UdpSocket::bind("127.0.0.1:0").map_err(|e| Violation::new("C09:machinery", e.to_string(), json!({})))?;
    sink.set_nonblocking(true).ok();
    let mut cl = QuicClient::new(sink.local_addr().unwrap(), &ClientOpts::default()).map_err(|e| Violation::new("C09:machinery", e, json!({})))?;
    cl.pump();
    let mut buf = [0u8; 2048];
    let Ok((n, _)) = sink.recv_from(&mut buf) else {
        return Err(Violation::new("C09:machinery", "no Initial captured", json!({})));
    };
    let initial = buf[..n].to_vec();
    let mut fam = vec![];
    let positions = tier.pick(48usize, 200usize).min(initial.len());
    for pos in 0..positions {
        for v in [0x00u8, 0x01, 0x7f, 0x80, 0xff, initial[pos] ^ 1] {
            let mut d = initial.clone();
            d[pos] = v;
            fam.push(d);
        }
    }
    for end in 0..initial.len().min(tier.pick(80, 400)) {
        fam.push(initial[..end].to_vec());
    }
    // the same Initial many times (a retry storm), and coalesced with itself
    for _ in 0..50 {
        fam.push(initial.clone());
    }
    fam.push([initial.clone(), initial.clone()].concat());
    garbage_family("mutated-initial", fam).await
}

/// how the relay rewrites the token of the listener's Retry before the genuine client echoes it
#[derive(Clone, Copy, Debug)]
pub enum TokenEdit {
    Keep,
    Truncate(usize),
    Extend(usize),
    Flip(usize),
}

/// One connection attempt through a relay that sits between the genuine quiche client and the
/// listener and re-mints the listener's Retry (`quiche::retry`, valid integrity tag) with an edited
/// token. Returns (length of the genuine token, handshake established, a Retry was rewritten).
async fn relay_once(ep: SocketAddr, edit: TokenEdit) -> Result<(usize, bool, bool), String> {
    let bind = || -> Result<std::net::UdpSocket, String> {
        let s = std::net::UdpSocket::bind("127.0.0.1:0").map_err(|e| e.to_string())?;
        s.set_nonblocking(true).map_err(|e| e.to_string())?;
        Ok(s)
    };
    let (front, back) = (bind()?, bind()?);
    let mut cl = QuicClient::new(front.local_addr().map_err(|e| e.to_string())?, &ClientOpts::default())?;
    let mut client_addr = None;
    let mut ids: Option<(Vec<u8>, Vec<u8>)> = None; // (original destination id, client's source id)
    let mut token_len = 0usize;
    let mut rewritten: Option<std::time::Instant> = None;
    let t0 = std::time::Instant::now();
    let mut buf = [0u8; 65535];
    let keep = matches!(edit, TokenEdit::Keep);
    loop {
        cl.pump();
        while let Ok((n, from)) = front.recv_from(&mut buf) {
            client_addr = Some(from);
            if ids.is_none() {
                let mut copy = buf[..n].to_vec();
                if let Ok(h) = quiche::Header::from_slice(&mut copy, quiche::MAX_CONN_ID_LEN) {
                    ids = Some((h.dcid.to_vec(), h.scid.to_vec()));
                }
            }
            let _ = back.send_to(&buf[..n], ep);
        }
        door::spin(3).await;
        tokio::time::sleep(Duration::from_millis(1)).await;
        while let Ok((n, _)) = back.recv_from(&mut buf) {
            let Some(to) = client_addr else { continue };
            let mut copy = buf[..n].to_vec();
            let retry = quiche::Header::from_slice(&mut copy, quiche::MAX_CONN_ID_LEN).ok().filter(|h| h.ty == quiche::Type::Retry);
            match (retry, &ids) {
                (Some(h), Some((odcid, cscid))) if rewritten.is_none() => {
                    let token = h.token.clone().unwrap_or_default();
                    token_len = token.len();
                    let edited: Vec<u8> = match edit {
                        TokenEdit::Keep => token.clone(),
                        TokenEdit::Truncate(k) => token[..k.min(token.len())].to_vec(),
                        TokenEdit::Extend(k) => [token.clone(), vec![0xa7; k]].concat(),
                        TokenEdit::Flip(i) => {
                            let mut t = token.clone();
                            if let Some(b) = t.get_mut(i) {
                                *b ^= 0x01;
                            }
                            t
                        }
                    };
                    let mut out = [0u8; 1500];
                    let len = quiche::retry(&quiche::ConnectionId::from_ref(cscid), &quiche::ConnectionId::from_ref(odcid), &h.scid, &edited, h.version, &mut out).map_err(|e| format!("re-minting the Retry: {e}"))?;
                    let _ = front.send_to(&out[..len], to);
                    rewritten = Some(std::time::Instant::now());
                }
                _ => {
                    let _ = front.send_to(&buf[..n], to);
                }
            }
        }
        if cl.conn.is_established() || cl.conn.is_closed() {
            break;
        }
        if !keep && rewritten.map(|t| t.elapsed() > Duration::from_millis(120)).unwrap_or(false) {
            break;
        }
        if t0.elapsed() > Duration::from_secs(4) {
            break;
        }
    }
    let established = cl.conn.is_established();
    cl.close();
    Ok((token_len, established, rewritten.is_some()))
}

/// C09 (and the address-validation half of the QUIC door): the genuine client echoes every
/// truncation of the listener's Retry token, the token extended, and the token with one bit flipped
/// at each position. None of them may end the listener or leave it deaf; the
/// unedited token through the same relay must complete the handshake (positive control).
pub async fn retry_token_cases(tier: Tier) -> Result<u64, Violation> {
    let mach = |e: String| Violation::new("C09:machinery", e, json!({}));
    let ep = start(Cfg { clients: users(), ..Cfg::default() }).await.map_err(mach)?;
    let (len, ok, rewritten) = relay_once(ep.addr, TokenEdit::Keep).await.map_err(mach)?;
    if !rewritten || !ok || len == 0 {
        return Err(mach(format!("positive control failed: retry seen={rewritten} established={ok} token length={len}")));
    }
    let mut edits: Vec<TokenEdit> = (0..len).map(TokenEdit::Truncate).collect();
    edits.extend([1usize, 2, 6, 18, 40].map(TokenEdit::Extend));
    let step = tier.pick(3usize, 1usize);
    edits.extend((0..len).step_by(step).map(TokenEdit::Flip));
    let mut n = 1u64;
    let mut accepted = 0u64;
    for e in edits {
        let case = json!({"kind":"quic-retry-token","edit":format!("{e:?}")});
        let (_, established, _) = relay_once(ep.addr, e).await.map_err(mach)?;
        n += 1;
        door::spin(10).await;
        if ep.task.is_finished() {
            return Err(Violation::new(format!("C09:quic-datagram:listener-ended:retry-token:{}", edit_class(e)), format!("Core::listen ended after a client echoed the Retry token edited as {e:?} (genuine length {len})"), case));
        }
        // Whether an edited token still validates the address is not C09's business (a token cut
        // after the address part still proves the address and is accepted): counted, not judged.
        if established {
            accepted += 1;
        }
    }
    let mut cl = QuicClient::new(ep.addr, &ClientOpts::default()).map_err(mach)?;
    if !cl.handshake(Duration::from_secs(4)).await {
        return Err(Violation::new("C09:quic-datagram:listener-deaf:retry-token", format!("after {n} edited Retry tokens a regular QUIC handshake no longer completes"), json!({"kind":"quic-retry-token"})));
    }
    cl.close();
    let _ = accepted;
    Ok(n)
}

fn edit_class(e: TokenEdit) -> &'static str {
    match e {
        TokenEdit::Keep => "keep",
        TokenEdit::Truncate(_) => "truncated",
        TokenEdit::Extend(_) => "extended",
        TokenEdit::Flip(_) => "bit-flipped",
    }
}

// ------------------------------------------------------------------------------------------------
// C19 over QUIC: shutdown closes the connection
// ------------------------------------------------------------------------------------------------

pub async fn shutdown_case() -> Result<&'static str, Violation> {
    let case = json!({"kind":"quic-shutdown"});
    let ep = start(Cfg { clients: users(), ..Cfg::default() }).await.map_err(|e| Violation::new("C19:machinery", e, json!({})))?;
    let mut cl = QuicClient::new(ep.addr, &ClientOpts::default()).map_err(|e| Violation::new("C19:machinery", e, json!({})))?;
    if !cl.handshake(Duration::from_secs(3)).await {
        return Err(Violation::new("C19:machinery", "QUIC handshake failed", case));
    }
    let id = cl.request("CONNECT", "_check", None, &[("proxy-authorization".into(), AUTH.into())], false).map_err(|e| Violation::new("C19:machinery", e, json!({})))?;
    let r = cl.response(id, Duration::from_secs(3), 4096, None).await;
    if r.status != Some(200) {
        return Err(Violation::new("C19:machinery", format!("health check over HTTP/3 answered {:?}", r.status), case));
    }
    ep.shutdown.lock().unwrap().submit();
    let closed = cl.drive(Duration::from_secs(4), |c| c.conn.is_closed() || c.conn.is_draining() || c.conn.peer_error().is_some()).await;
    if !closed {
        return Err(Violation::new("C19:quic:session-not-closed-on-shutdown", "2 s after the shutdown was submitted the QUIC connection is still open".to_string(), case));
    }
    let sd = ep.shutdown.clone();
    #[allow(clippy::await_holding_lock)]
    let mut done = Box::pin(async move {
        let mut g = sd.lock().unwrap();
        g.completion().await
    });
    if door::until(&mut done, Duration::from_secs(4)).await.is_none() {
        return Err(Violation::new("C19:quic:completion-never-returns", "completion() did not return after the QUIC session was closed".to_string(), case));
    }
    Ok("closed-on-shutdown")
}


// ------------------------------------------------------------------------------------------------
// C18 over HTTP/3: ping and speedtest with requests that end the client's side at once
// ------------------------------------------------------------------------------------------------

pub async fn service_case(which: &str) -> Result<&'static str, Violation> {
    let case = json!({"kind":"quic-service","which":which});
    let mk = |sig: &str, what: String| Violation::new(format!("C18:h3:{which}:{sig}"), what, case.clone());
    let cfg = Cfg { clients: users(), speedtest: true, ping_hosts: vec!["p.t".into()], speedtest_hosts: vec!["s.t".into()], ..Cfg::default() };
    let ep = start(cfg).await.map_err(|e| Violation::new("C18:machinery", e, json!({})))?;
    let sni = match which {
        "ping-host" => "p.t",
        "speedtest-host-download" | "speedtest-host-upload" => "s.t",
        _ => "m.t",
    };
    let mut cl = QuicClient::new(ep.addr, &ClientOpts { sni: sni.into(), ..ClientOpts::default() }).map_err(|e| Violation::new("C18:machinery", e, json!({})))?;
    if !cl.handshake(Duration::from_secs(3)).await {
        return Err(mk("host-not-served", "QUIC handshake failed".into()));
    }
    const MIB: usize = 1 << 20;
    let r = match which {
        "ping-host" => {
            let id = cl.request("GET", "p.t", Some("/"), &[], true).map_err(|e| Violation::new("C18:machinery", e, json!({})))?;
            cl.response(id, Duration::from_secs(3), 4096, None).await
        }
        "ping-marker" => {
            let id = cl.request("GET", "m.t", Some("/"), &[("x-ping".into(), "1".into())], true).map_err(|e| Violation::new("C18:machinery", e, json!({})))?;
            cl.response(id, Duration::from_secs(3), 4096, None).await
        }
        "download" | "speedtest-host-download" => {
            let path = if which == "download" { "/speed/1mb.bin" } else { "/1mb.bin" };
            let id = cl.request("GET", sni, Some(path), &[], true).map_err(|e| Violation::new("C18:machinery", e, json!({})))?;
            cl.response(id, Duration::from_secs(20), 1 << 16, None).await
        }
        _ => {
            let path = if which == "upload" { "/speed/upload.html" } else { "/upload.html" };
            let id = cl.request("POST", sni, Some(path), &[("content-length".into(), "70000".into())], false).map_err(|e| Violation::new("C18:machinery", e, json!({})))?;
            let body = vec![0x55u8; 70_000];
            let mut off = 0;
            let t0 = std::time::Instant::now();
            while off < body.len() && t0.elapsed() < Duration::from_secs(5) {
                match cl.send_body(id, &body[off..], true) {
                    Ok(n) => off += n,
                    Err(_) => tokio::time::sleep(Duration::from_millis(1)).await,
                }
            }
            cl.response(id, Duration::from_secs(5), 4096, None).await
        }
    };
    cl.close();
    if r.status != Some(200) {
        return Err(mk("not-200", format!("answered {:?} (finished {}, reset {:?}, {} body bytes)", r.status, r.finished, r.reset, r.body.len())));
    }
    match which {
        "download" | "speedtest-host-download" => {
            if r.body.len() != MIB || !r.finished {
                return Err(mk("wrong-size", format!("a 1 MiB download delivered {} bytes (finished: {})", r.body.len(), r.finished)));
            }
        }
        "ping-host" | "ping-marker" => {
            if !r.body.is_empty() {
                return Err(mk("body", "the ping answer has a body".into()));
            }
        }
        _ => {}
    }
    Ok("served")
}

// ------------------------------------------------------------------------------------------------
// C17 over HTTP/3: forwarded GET, origin framings
// ------------------------------------------------------------------------------------------------

pub async fn forwarded_case(framing: &str, body: usize) -> Result<&'static str, Violation> {
    let case = json!({"kind":"quic-forwarded","framing":framing,"body":body});
    let mk = |sig: &str, what: String| Violation::new(format!("C17:h3:{sig}:{framing}"), what, case.clone());
    let origin = tokio::net::TcpListener::bind("127.0.0.1:0").await.map_err(|e| Violation::new("C17:machinery", e.to_string(), json!({})))?;
    let oaddr = origin.local_addr().unwrap();
    let ep = start(Cfg { clients: users(), allow_private: true, ..Cfg::default() }).await.map_err(|e| Violation::new("C17:machinery", e, json!({})))?;
    let mut cl = QuicClient::new(ep.addr, &ClientOpts::default()).map_err(|e| Violation::new("C17:machinery", e, json!({})))?;
    if !cl.handshake(Duration::from_secs(3)).await {
        return Err(Violation::new("C17:machinery", "QUIC handshake failed", case));
    }
    let authority = format!("127.0.0.1:{}", oaddr.port());
    let mut req = vec![
        quiche::h3::Header::new(b":method", b"GET"),
        quiche::h3::Header::new(b":scheme", b"http"),
        quiche::h3::Header::new(b":authority", authority.as_bytes()),
        quiche::h3::Header::new(b":path", b"/p?q=1"),
        quiche::h3::Header::new(b"proxy-authorization", AUTH.as_bytes()),
        quiche::h3::Header::new(b"x-req", b"v"),
    ];
    let id = {
        let h3 = cl.h3.as_mut().unwrap();
        h3.send_request(&mut cl.conn, &req, true).map_err(|e| Violation::new("C17:machinery", e.to_string(), json!({})))?
    };
    req.clear();
    cl.pump();
    let payload: Vec<u8> = (0..body).map(|i| b'a' + (i % 26) as u8).collect();
    let mut wire = b"HTTP/1.1 200 OK\r\nX-End: e2e\r\n".to_vec();
    match framing {
        "cl" => {
            wire.extend_from_slice(format!("Content-Length: {body}\r\n\r\n").as_bytes());
            wire.extend_from_slice(&payload);
        }
        "chunked" => {
            wire.extend_from_slice(b"Transfer-Encoding: chunked\r\n\r\n");
            for c in payload.chunks(1000) {
                wire.extend_from_slice(format!("{:x}\r\n", c.len()).as_bytes());
                wire.extend_from_slice(c);
                wire.extend_from_slice(b"\r\n");
            }
            wire.extend_from_slice(b"0\r\n\r\n");
        }
        _ => {
            wire.extend_from_slice(b"\r\n");
            wire.extend_from_slice(&payload);
        }
    }
    let mut os = None;
    let t0 = std::time::Instant::now();
    while os.is_none() && t0.elapsed() < Duration::from_secs(3) {
        cl.pump();
        let mut acc = Box::pin(origin.accept());
        if let Some(Ok((s, _))) = door::poll_once(&mut acc).await {
            os = Some(s);
        }
        drop(acc);
        tokio::time::sleep(Duration::from_millis(2)).await;
    }
    let Some(mut os) = os else {
        return Err(mk("not-forwarded", "the origin was not contacted".into()));
    };
    let _ = os.set_linger(Some(Duration::ZERO));
    let mut got = vec![];
    let t0 = std::time::Instant::now();
    while !got.windows(4).any(|w| w == b"\r\n\r\n") && t0.elapsed() < Duration::from_secs(2) {
        cl.pump();
        let mut tmp = [0u8; 2048];
        let n = {
            let mut r = Box::pin(os.read(&mut tmp));
            door::poll_once(&mut r).await
        };
        if let Some(Ok(n)) = n {
            got.extend_from_slice(&tmp[..n]);
        }
        tokio::time::sleep(Duration::from_millis(1)).await;
    }
    let reqtext = String::from_utf8_lossy(&got).to_ascii_lowercase();
    if !reqtext.starts_with("get /p?q=1 http/1.1\r\n") || !reqtext.contains("x-req: v") || reqtext.contains("proxy-authorization") {
        return Err(mk("request-not-equivalent", format!("the origin received {reqtext:?}")));
    }
    {
        let mut w = Box::pin(os.write_all(&wire));
        door::until(&mut w, Duration::from_secs(2)).await;
    }
    if framing == "close" {
        door::spin(30).await;
        let mut sd = Box::pin(os.shutdown());
        door::until(&mut sd, Duration::from_secs(1)).await;
    }
    let r = cl.response(id, Duration::from_secs(5), 1 << 16, None).await;
    cl.close();
    if r.status != Some(200) || !r.headers.iter().any(|(n, v)| n == "x-end" && v == "e2e") {
        return Err(mk("head", format!("the client received status {:?} headers {:?} (reset {:?})", r.status, r.headers, r.reset)));
    }
    if r.body != payload {
        let how = if payload.starts_with(&r.body) { "truncated" } else { "changed" };
        return Err(mk(&format!("body-{how}"), format!("the origin sent {body} body bytes, the HTTP/3 client received {}", r.body.len())));
    }
    if !r.finished {
        return Err(mk("not-ended", "the exchange did not end after the complete body".into()));
    }
    Ok("forwarded")
}

// ------------------------------------------------------------------------------------------------
// C02 over HTTP/3: how a tunnel ends
// ------------------------------------------------------------------------------------------------

pub async fn ending_case(down: usize, end: &str, client: &str) -> Result<&'static str, Violation> {
    let case = json!({"kind":"quic-ending","down":down,"end":end,"client":client});
    let mk = |sig: &str, what: String| Violation::new(format!("C02:door:{sig}:h3"), format!("{what}; destination sends {down} bytes then {end}, client {client}"), case.clone());
    let dst = tokio::net::TcpListener::bind("127.0.0.1:0").await.map_err(|e| Violation::new("C02:machinery", e.to_string(), json!({})))?;
    let daddr = dst.local_addr().unwrap();
    let ep = start(Cfg { clients: users(), allow_private: true, ..Cfg::default() }).await.map_err(|e| Violation::new("C02:machinery", e, json!({})))?;
    let mut cl = QuicClient::new(ep.addr, &ClientOpts::default()).map_err(|e| Violation::new("C02:machinery", e, json!({})))?;
    if !cl.handshake(Duration::from_secs(3)).await {
        return Err(Violation::new("C02:machinery", "QUIC handshake failed", case));
    }
    let id = cl.request("CONNECT", &daddr.to_string(), None, &[("proxy-authorization".into(), AUTH.into())], false).map_err(|e| Violation::new("C02:machinery", e, json!({})))?;
    let mut ds = None;
    let t0 = std::time::Instant::now();
    while ds.is_none() && t0.elapsed() < Duration::from_secs(3) {
        cl.pump();
        let mut acc = Box::pin(dst.accept());
        if let Some(Ok((s, _))) = door::poll_once(&mut acc).await {
            ds = Some(s);
        }
        drop(acc);
        tokio::time::sleep(Duration::from_millis(2)).await;
    }
    let Some(mut ds) = ds else {
        return Err(mk("not-established", "the destination was not connected".into()));
    };
    let head = cl.response(id, Duration::from_secs(3), 4096, Some(0)).await;
    if head.status != Some(200) {
        return Err(mk("not-established", format!("CONNECT answered {:?}", head.status)));
    }
    let up: Vec<u8> = (0..if client == "reads" { 0 } else { 3000 }).map(|i| (i as u8).wrapping_mul(31).wrapping_add(7)).collect();
    let downb: Vec<u8> = (0..down).map(|i| (i as u8).wrapping_mul(31).wrapping_add(99)).collect();
    let mut to_dst = vec![];
    let mut saw_fin = false;
    if !up.is_empty() {
        let mut off = 0;
        let t0 = std::time::Instant::now();
        while off < up.len() && t0.elapsed() < Duration::from_secs(3) {
            match cl.send_body(id, &up[off..], client == "upload-then-half-close") {
                Ok(n) => off += n,
                Err(_) => tokio::time::sleep(Duration::from_millis(1)).await,
            }
        }
        let t0 = std::time::Instant::now();
        while (to_dst.len() < up.len() || (client == "upload-then-half-close" && !saw_fin)) && t0.elapsed() < Duration::from_secs(3) {
            cl.pump();
            let mut tmp = [0u8; 4096];
            let n = {
                let mut r = Box::pin(ds.read(&mut tmp));
                door::poll_once(&mut r).await
            };
            match n {
                Some(Ok(0)) => saw_fin = true,
                Some(Ok(n)) => to_dst.extend_from_slice(&tmp[..n]),
                Some(Err(_)) => break,
                None => tokio::time::sleep(Duration::from_millis(1)).await,
            }
        }
    }
    if to_dst != up {
        return Err(mk(&format!("upload-{}:{client}", if up.starts_with(&to_dst) { "truncated" } else { "corrupted" }), format!("the destination received {} of {} uploaded bytes", to_dst.len(), up.len())));
    }
    if client == "upload-then-half-close" && !saw_fin {
        return Err(mk("half-close-not-passed-on", "the client ended its upload, the destination saw no end of stream".into()));
    }
    if !downb.is_empty() {
        let mut w = Box::pin(ds.write_all(&downb));
        door::until(&mut w, Duration::from_secs(3)).await;
    }
    let mut body = head.body.clone();
    let mut r = H3Response::default();
    if end == "fin" {
        let mut sd = Box::pin(ds.shutdown());
        door::until(&mut sd, Duration::from_secs(1)).await;
        drop(sd);
        r = cl.response(id, Duration::from_secs(4), 1 << 16, None).await;
        body.extend_from_slice(&r.body);
    } else {
        let part = cl.response(id, Duration::from_secs(3), 1 << 16, Some(down.saturating_sub(body.len()).max(1))).await;
        body.extend_from_slice(&part.body);
        if part.finished || part.reset.is_some() {
            r = part;
        }
        let _ = ds.set_linger(Some(Duration::ZERO));
        drop(ds);
        if !r.finished && r.reset.is_none() {
            r = cl.response(id, Duration::from_secs(4), 1 << 16, None).await;
            body.extend_from_slice(&r.body);
        }
    }
    let closed_conn = cl.conn.is_closed() || cl.conn.peer_error().is_some();
    cl.close();
    if !downb.starts_with(&body) {
        return Err(mk(&format!("download-corrupted:{end}"), format!("the client received {} bytes that are not a prefix of what the destination sent", body.len())));
    }
    if end == "fin" {
        if body.len() != downb.len() {
            return Err(mk(&format!("download-truncated:{client}"), format!("the destination sent {down} bytes and closed, the client received {} (finished {}, reset {:?})", body.len(), r.finished, r.reset)));
        }
        if client != "upload-keeps-open" && !r.finished && r.reset.is_none() {
            return Err(mk(&format!("no-clean-end:{client}"), "both directions ended, the client's stream is still open".into()));
        }
        Ok("fin")
    } else {
        if r.finished && r.reset.is_none() && !closed_conn {
            return Err(mk(&format!("reset-reported-as-clean-end:{client}"), format!("the destination reset the connection; the HTTP/3 client saw a clean end of stream after {} bytes", body.len())));
        }
        if !r.finished && r.reset.is_none() && !closed_conn {
            return Err(mk(&format!("reset-not-passed-on:{client}"), "the destination reset the connection, the client's stream is still open 4 s later".into()));
        }
        Ok("rst")
    }
}


// ------------------------------------------------------------------------------------------------
// C10 over HTTP/3: one final response with the documented code
// ------------------------------------------------------------------------------------------------

thread_local! {
    static H3_ERRNO: std::cell::Cell<i32> = const { std::cell::Cell::new(0) };
    static H3_REDIRECT: std::cell::Cell<u16> = const { std::cell::Cell::new(0) };
}

fn h3_rule(_a: &SocketAddr, t: i32) -> crate::engine::sys::ConnectAnswer {
    use crate::engine::sys::ConnectAnswer;
    if t != libc::SOCK_STREAM {
        return ConnectAnswer::Errno(libc::ENETUNREACH);
    }
    let e = H3_ERRNO.with(|c| c.get());
    if e != 0 {
        ConnectAnswer::Errno(e)
    } else {
        ConnectAnswer::RedirectLoopback(H3_REDIRECT.with(|c| c.get()))
    }
}

pub const H3_OUTCOMES: [&str; 11] = ["connected", "econnrefused", "enetunreach", "never-completes", "policy-loopback", "without-port", "reserved-check", "get-on-reserved", "reserved-with-port", "reserved-other-case-check", "reserved-other-case-udp2"];

pub async fn outcome_case(outcome: &str) -> Result<&'static str, Violation> {
    let case = json!({"kind":"quic-outcome","outcome":outcome});
    let mk = |sig: &str, what: String| Violation::new(format!("C10:h3:{sig}:{outcome}"), what, case.clone());
    let canary = door::start_canary().await;
    let hole = door::black_hole().map_err(|e| Violation::new("C10:machinery", e, json!({})))?;
    let mut cfg = Cfg { clients: users(), allow_private: outcome != "policy-loopback", ..Cfg::default() };
    cfg.connect_timeout = Duration::from_millis(700);
    let ep = start(cfg).await.map_err(|e| Violation::new("C10:machinery", e, json!({})))?;
    H3_ERRNO.with(|c| c.set(match outcome { "econnrefused" => libc::ECONNREFUSED, "enetunreach" => libc::ENETUNREACH, _ => 0 }));
    H3_REDIRECT.with(|c| c.set(if outcome == "never-completes" { hole.port } else { canary.addr.port() }));
    crate::engine::sys::script_connect(Some(h3_rule));
    let mut cl = QuicClient::new(ep.addr, &ClientOpts::default()).map_err(|e| Violation::new("C10:machinery", e, json!({})))?;
    if !cl.handshake(Duration::from_secs(3)).await {
        crate::engine::sys::script_connect(None);
        return Err(Violation::new("C10:machinery", "QUIC handshake failed", case));
    }
    let auth = vec![("proxy-authorization".to_string(), AUTH.to_string())];
    let id = match outcome {
        "policy-loopback" => cl.request("CONNECT", "127.0.0.1:9", None, &auth, false),
        "without-port" => cl.request("CONNECT", "93.184.216.34", None, &auth, false),
        "reserved-check" => cl.request("CONNECT", "_check", None, &auth, false),
        "get-on-reserved" => cl.request("GET", "_udp2", Some("/"), &auth, true),
        "reserved-with-port" => cl.request("CONNECT", "_icmp:7", None, &auth, false),
        // the reserved names are case-sensitive: these are host names without a port
        "reserved-other-case-check" => cl.request("CONNECT", "_CHECK", None, &auth, false),
        "reserved-other-case-udp2" => cl.request("CONNECT", "_UDP2", None, &auth, false),
        _ => cl.request("CONNECT", "93.184.216.34:443", None, &auth, false),
    }
    .map_err(|e| Violation::new("C10:machinery", e, json!({})))?;
    let r = cl.response(id, Duration::from_secs(4), 4096, Some(0)).await;
    // a second final response would arrive as more headers on the stream: wait a little more
    let extra = cl.response(id, Duration::from_millis(300), 4096, None).await;
    cl.close();
    crate::engine::sys::script_connect(None);
    let warning = r.headers.iter().find(|(n, _)| n == "x-warning").map(|(_, v)| v.clone());
    let want: (u16, Option<&str>) = match outcome {
        "connected" | "reserved-check" => (200, None),
        "econnrefused" => (502, Some("300")),
        "enetunreach" => (502, Some("301")),
        "never-completes" => (502, Some("302")),
        "policy-loopback" => (502, Some("311")),
        "get-on-reserved" => (502, None),
        _ => (0, None),
    };
    let Some(status) = r.status else {
        return Err(mk("no-final-response", format!("the request got no final response (finished {}, reset {:?})", r.finished, r.reset)));
    };
    if extra.status.is_some() {
        return Err(mk("second-final-response", format!("a second response head ({:?}) followed {status}", extra.status)));
    }
    if want.0 == 0 {
        // without port / reserved name with a port: exactly one final response, not a success for the former
        if outcome == "without-port" && status == 200 {
            return Err(mk("accepted-must-refuse", "CONNECT without a port answered 200".into()));
        }
        if outcome.starts_with("reserved-other-case") && status == 200 {
            return Err(mk("accepted-must-refuse", "CONNECT to a name that differs from a reserved one by case was served as the reserved one".into()));
        }
        return Ok("one-final-response");
    }
    if status != want.0 {
        return Err(mk("wrong-status", format!("answered {status}, documented {}", want.0)));
    }
    if let Some(code) = want.1 {
        if !warning.as_deref().map(|w| w.starts_with(code)).unwrap_or(false) {
            return Err(mk("wrong-warning", format!("X-Warning {warning:?}, documented code {code}")));
        }
    }
    Ok("documented")
}

// ------------------------------------------------------------------------------------------------
// C16 over HTTP/3: the HTTP3-labelled series
// ------------------------------------------------------------------------------------------------

pub async fn metrics_case() -> Result<&'static str, Violation> {
    let case = json!({"kind":"quic-metrics"});
    let mk = |sig: &str, what: String| Violation::new(format!("C16:h3:{sig}"), what, case.clone());
    let dst = tokio::net::TcpListener::bind("127.0.0.1:0").await.map_err(|e| Violation::new("C16:machinery", e.to_string(), json!({})))?;
    let daddr = dst.local_addr().unwrap();
    let ep = start(Cfg { clients: users(), allow_private: true, metrics: true, ..Cfg::default() }).await.map_err(|e| Violation::new("C16:machinery", e, json!({})))?;
    let snap = |ctx: &trusttunnel::verif_hooks::VContext| trusttunnel::verif_hooks::metrics_snapshot(ctx);
    let h3 = |v: &[(String, i64)]| v.iter().find(|(l, _)| l.eq_ignore_ascii_case("HTTP3")).map(|(_, n)| *n).unwrap_or(0);
    let h3u = |v: &[(String, u64)]| v.iter().find(|(l, _)| l.eq_ignore_ascii_case("HTTP3")).map(|(_, n)| *n).unwrap_or(0);
    let s0 = snap(&ep.ctx);
    let mut cl = QuicClient::new(ep.addr, &ClientOpts::default()).map_err(|e| Violation::new("C16:machinery", e, json!({})))?;
    if !cl.handshake(Duration::from_secs(3)).await {
        return Err(Violation::new("C16:machinery", "QUIC handshake failed", case));
    }
    cl.drive(Duration::from_millis(300), |_| false).await;
    let s1 = snap(&ep.ctx);
    if h3(&s1.client_sessions) - h3(&s0.client_sessions) != 1 {
        return Err(mk("client_sessions", format!("one HTTP/3 session is open, client_sessions{{HTTP3}} went from {} to {}", h3(&s0.client_sessions), h3(&s1.client_sessions))));
    }
    let id = cl.request("CONNECT", &daddr.to_string(), None, &[("proxy-authorization".into(), AUTH.into())], false).map_err(|e| Violation::new("C16:machinery", e, json!({})))?;
    let mut ds = None;
    let t0 = std::time::Instant::now();
    while ds.is_none() && t0.elapsed() < Duration::from_secs(3) {
        cl.pump();
        let mut acc = Box::pin(dst.accept());
        if let Some(Ok((s, _))) = door::poll_once(&mut acc).await {
            ds = Some(s);
        }
        drop(acc);
        tokio::time::sleep(Duration::from_millis(2)).await;
    }
    let Some(mut ds) = ds else { return Err(Violation::new("C16:machinery", "destination not connected", case)) };
    let _ = ds.set_linger(Some(Duration::ZERO));
    let head = cl.response(id, Duration::from_secs(3), 4096, Some(0)).await;
    if head.status != Some(200) {
        return Err(Violation::new("C16:machinery", format!("CONNECT answered {:?}", head.status), case));
    }
    let s2 = snap(&ep.ctx);
    if s2.outbound_tcp_sockets - s1.outbound_tcp_sockets != 1 {
        return Err(mk("outbound_tcp_sockets", format!("one tunnel is open, the gauge went from {} to {}", s1.outbound_tcp_sockets, s2.outbound_tcp_sockets)));
    }
    // 700 bytes up, 1100 bytes down
    let up = vec![0x75u8; 700];
    let mut off = 0;
    let t0 = std::time::Instant::now();
    while off < up.len() && t0.elapsed() < Duration::from_secs(3) {
        match cl.send_body(id, &up[off..], false) {
            Ok(n) => off += n,
            Err(_) => tokio::time::sleep(Duration::from_millis(1)).await,
        }
    }
    let mut got = 0usize;
    let t0 = std::time::Instant::now();
    while got < up.len() && t0.elapsed() < Duration::from_secs(3) {
        cl.pump();
        let mut tmp = [0u8; 4096];
        let n = {
            let mut r = Box::pin(ds.read(&mut tmp));
            door::poll_once(&mut r).await
        };
        match n {
            Some(Ok(n)) if n > 0 => got += n,
            Some(_) => break,
            None => tokio::time::sleep(Duration::from_millis(1)).await,
        }
    }
    {
        let down = vec![0x64u8; 1100];
        let mut w = Box::pin(ds.write_all(&down));
        door::until(&mut w, Duration::from_secs(2)).await;
    }
    let body = cl.response(id, Duration::from_secs(3), 4096, Some(1100)).await;
    cl.drive(Duration::from_millis(200), |_| false).await;
    let s3 = snap(&ep.ctx);
    let (du, dd) = (h3u(&s3.inbound_traffic_bytes) - h3u(&s2.inbound_traffic_bytes), h3u(&s3.outbound_traffic_bytes) - h3u(&s2.outbound_traffic_bytes));
    if got != 700 || body.body.len() != 1100 {
        return Err(Violation::new("C16:machinery", format!("relay moved {got} up / {} down", body.body.len()), case));
    }
    if du != 700 || dd != 1100 {
        return Err(mk("traffic_bytes", format!("700 bytes were uploaded and 1100 downloaded over HTTP/3; inbound_traffic_bytes{{HTTP3}} grew by {du}, outbound_traffic_bytes{{HTTP3}} by {dd}")));
    }
    drop(ds);
    cl.close();
    let t0 = std::time::Instant::now();
    loop {
        cl.pump();
        let s = snap(&ep.ctx);
        if h3(&s.client_sessions) == h3(&s0.client_sessions) && s.outbound_tcp_sockets == s0.outbound_tcp_sockets {
            break;
        }
        if t0.elapsed() > Duration::from_secs(8) {
            return Err(mk("gauges-not-zero-after-the-client-left", format!("8 s after the QUIC connection was closed: client_sessions{{HTTP3}} = {}, outbound_tcp_sockets = {}", h3(&s.client_sessions), s.outbound_tcp_sockets)));
        }
        tokio::time::sleep(Duration::from_millis(20)).await;
    }
    Ok("series-follow")
}

// ------------------------------------------------------------------------------------------------
// C14 over HTTP/3: the idle timer (real time, T = 1 s)
// ------------------------------------------------------------------------------------------------

pub async fn idle_case(active: bool) -> Result<&'static str, Violation> {
    let case = json!({"kind":"quic-idle","active":active});
    let mk = |sig: &str, what: String| Violation::new(format!("C14:h3:{sig}"), what, case.clone());
    let dst = tokio::net::TcpListener::bind("127.0.0.1:0").await.map_err(|e| Violation::new("C14:machinery", e.to_string(), json!({})))?;
    let daddr = dst.local_addr().unwrap();
    let mut cfg = Cfg { clients: users(), allow_private: true, ..Cfg::default() };
    cfg.tcp_timeout = Duration::from_secs(1);
    let ep = start(cfg).await.map_err(|e| Violation::new("C14:machinery", e, json!({})))?;
    let mut cl = QuicClient::new(ep.addr, &ClientOpts::default()).map_err(|e| Violation::new("C14:machinery", e, json!({})))?;
    if !cl.handshake(Duration::from_secs(3)).await {
        return Err(Violation::new("C14:machinery", "QUIC handshake failed", case));
    }
    let id = cl.request("CONNECT", &daddr.to_string(), None, &[("proxy-authorization".into(), AUTH.into())], false).map_err(|e| Violation::new("C14:machinery", e, json!({})))?;
    let mut ds = None;
    let t0 = std::time::Instant::now();
    while ds.is_none() && t0.elapsed() < Duration::from_secs(3) {
        cl.pump();
        let mut acc = Box::pin(dst.accept());
        if let Some(Ok((s, _))) = door::poll_once(&mut acc).await {
            ds = Some(s);
        }
        drop(acc);
        tokio::time::sleep(Duration::from_millis(2)).await;
    }
    let Some(mut ds) = ds else { return Err(Violation::new("C14:machinery", "destination not connected", case)) };
    let _ = ds.set_linger(Some(Duration::ZERO));
    let head = cl.response(id, Duration::from_secs(3), 4096, Some(0)).await;
    if head.status != Some(200) {
        return Err(Violation::new("C14:machinery", format!("CONNECT answered {:?}", head.status), case));
    }
    let started = std::time::Instant::now();
    let mut closed_at = None;
    let mut last_activity = std::time::Instant::now();
    // watch the destination side for 3.2 s; an active tunnel moves a byte every 300 ms
    while started.elapsed() < Duration::from_millis(3200) {
        cl.pump();
        if active && last_activity.elapsed() > Duration::from_millis(300) {
            let _ = cl.send_body(id, b"k", false);
            last_activity = std::time::Instant::now();
        }
        let mut tmp = [0u8; 64];
        let n = {
            let mut r = Box::pin(ds.read(&mut tmp));
            door::poll_once(&mut r).await
        };
        match n {
            Some(Ok(0)) | Some(Err(_)) => {
                closed_at = Some(started.elapsed());
                break;
            }
            _ => {}
        }
        tokio::time::sleep(Duration::from_millis(5)).await;
    }
    cl.close();
    match (active, closed_at) {
        (true, Some(t)) => Err(mk("closed-active-tunnel", format!("a tunnel moving a byte every 300 ms was closed after {:.1} s with a 1 s idle timeout", t.as_secs_f64()))),
        (true, None) => Ok("active-stays-open"),
        (false, None) => Err(mk("idle-tunnel-not-closed", "a tunnel idle for 3.2 s was not closed with a 1 s idle timeout (2T = 2 s)".into())),
        (false, Some(t)) if t < Duration::from_millis(950) => Err(mk("closed-before-timeout", format!("an idle tunnel was closed after {:.2} s with a 1 s idle timeout", t.as_secs_f64()))),
        (false, Some(_)) => Ok("idle-closed"),
    }
}


// ------------------------------------------------------------------------------------------------
// C07 over HTTP/3: two flows through a _udp2 stream
// ------------------------------------------------------------------------------------------------

pub async fn udp_case() -> Result<&'static str, Violation> {
    let case = json!({"kind":"quic-udp"});
    let mk = |sig: &str, what: String| Violation::new(format!("C07:h3:{sig}"), what, case.clone());
    let ep = start(Cfg { clients: users(), allow_private: true, ..Cfg::default() }).await.map_err(|e| Violation::new("C07:machinery", e, json!({})))?;
    let peers: Vec<std::net::UdpSocket> = (0..2)
        .map(|_| {
            let s = std::net::UdpSocket::bind("127.0.0.1:0").unwrap();
            s.set_nonblocking(true).unwrap();
            s
        })
        .collect();
    let mut cl = QuicClient::new(ep.addr, &ClientOpts::default()).map_err(|e| Violation::new("C07:machinery", e, json!({})))?;
    if !cl.handshake(Duration::from_secs(3)).await {
        return Err(Violation::new("C07:machinery", "QUIC handshake failed", case));
    }
    let id = cl.request("CONNECT", "_udp2", None, &[("proxy-authorization".into(), AUTH.into())], false).map_err(|e| Violation::new("C07:machinery", e, json!({})))?;
    let head = cl.response(id, Duration::from_secs(3), 4096, Some(0)).await;
    if head.status != Some(200) {
        return Err(mk("mux-refused", format!("CONNECT _udp2 over HTTP/3 answered {:?}", head.status)));
    }
    let srcs: [SocketAddr; 2] = ["10.0.0.1:1000".parse().unwrap(), "10.0.0.2:2000".parse().unwrap()];
    let mut stream = vec![];
    for i in 0..2 {
        stream.extend_from_slice(&super::c06::build_record(srcs[i], peers[i].local_addr().unwrap(), b"app", format!("query-{i}").as_bytes()));
    }
    let mut off = 0;
    let t0 = std::time::Instant::now();
    while off < stream.len() && t0.elapsed() < Duration::from_secs(3) {
        match cl.send_body(id, &stream[off..], false) {
            Ok(n) => off += n,
            Err(_) => tokio::time::sleep(Duration::from_millis(1)).await,
        }
    }
    // each peer gets exactly its datagram and answers from the socket it was reached on
    let mut froms = vec![];
    for i in 0..2 {
        let t0 = std::time::Instant::now();
        let mut got = None;
        while got.is_none() && t0.elapsed() < Duration::from_secs(3) {
            cl.pump();
            let mut buf = [0u8; 2048];
            if let Ok((n, from)) = peers[i].recv_from(&mut buf) {
                got = Some((buf[..n].to_vec(), from));
            }
            tokio::time::sleep(Duration::from_millis(2)).await;
        }
        let Some((payload, from)) = got else {
            return Err(mk("datagram-not-delivered", format!("peer {i} received nothing")));
        };
        if payload != format!("query-{i}").as_bytes() {
            return Err(mk("misrouted-datagram", format!("peer {i} received {:?}", String::from_utf8_lossy(&payload))));
        }
        froms.push(from);
    }
    if froms[0] == froms[1] {
        return Err(mk("flows-share-a-socket", format!("both flows reached their peers from {}", froms[0])));
    }
    for i in [1usize, 0] {
        let _ = peers[i].send_to(format!("answer-{i}").as_bytes(), froms[i]);
    }
    let want_len: usize = 2 * (4 + 36 + 8);
    let r = cl.response(id, Duration::from_secs(3), 4096, Some(want_len)).await;
    cl.close();
    let mut got = vec![];
    let mut pos = 0usize;
    while r.body.len() - pos >= 40 {
        let len = u32::from_be_bytes(r.body[pos..pos + 4].try_into().unwrap()) as usize;
        if r.body.len() - pos - 4 < len || len < 36 {
            break;
        }
        let rec = &r.body[pos + 4..pos + 4 + len];
        let ip = |b: &[u8]| std::net::Ipv4Addr::new(b[12], b[13], b[14], b[15]);
        let src = SocketAddr::new(ip(&rec[0..16]).into(), u16::from_be_bytes([rec[16], rec[17]]));
        let dst = SocketAddr::new(ip(&rec[18..34]).into(), u16::from_be_bytes([rec[34], rec[35]]));
        got.push((src, dst, rec[36..].to_vec()));
        pos += 4 + len;
    }
    let mut want: Vec<(SocketAddr, SocketAddr, Vec<u8>)> = (0..2).map(|i| (peers[i].local_addr().unwrap(), srcs[i], format!("answer-{i}").into_bytes())).collect();
    want.sort();
    got.sort();
    if got != want {
        return Err(mk("reply-mislabelled-or-missing", format!("the client received {got:?}, expected {want:?}")));
    }
    Ok("two-flows-relayed")
}


// ------------------------------------------------------------------------------------------------
// C05 over QUIC: a hot reload switches the certificates the UDP listener presents
// ------------------------------------------------------------------------------------------------

fn der_of(host: &str) -> Result<Vec<u8>, String> {
    use base64::Engine;
    let pem = std::fs::read_to_string(rt::cert_path(host)).map_err(|e| e.to_string())?;
    let b64: String = pem.lines().filter(|l| !l.starts_with("-----")).collect();
    base64::engine::general_purpose::STANDARD.decode(b64).map_err(|e| e.to_string())
}

/// (handshake completed, certificate presented, CONNECT _check answered 200)
async fn probe(ep: &Endpoint, sni: &str) -> Result<(bool, Option<Vec<u8>>, bool), String> {
    let mut cl = QuicClient::new(ep.addr, &ClientOpts { sni: sni.into(), ..ClientOpts::default() })?;
    let established = cl.handshake(Duration::from_secs(3)).await;
    let cert = cl.peer_cert();
    let mut served = false;
    if established {
        if let Ok(id) = cl.request("CONNECT", "_check", None, &[("proxy-authorization".into(), AUTH.into())], false) {
            served = cl.response(id, Duration::from_secs(2), 4096, None).await.status == Some(200);
        }
    }
    cl.close();
    Ok((established, cert, served))
}

pub async fn reload_case() -> Result<&'static str, Violation> {
    let case = json!({"kind":"quic-reload"});
    let mk = |sig: &str, what: String| Violation::new(format!("C05:quic:reload:{sig}"), what, case.clone());
    let mach = |e: String| Violation::new("C05:machinery", e, json!({}));
    let cfg_a = Cfg { clients: users(), main_hosts: vec![("m.t".to_string(), vec![])], ..Cfg::default() };
    let cfg_b = Cfg { clients: users(), main_hosts: vec![("n.t".to_string(), vec![])], ping_hosts: vec!["p.t".into()], ..Cfg::default() };
    let ep = start(cfg_a).await.map_err(mach)?;
    let (m_der, n_der) = (der_of("m.t").map_err(mach)?, der_of("n.t").map_err(mach)?);
    // configuration A
    let (est, cert, served) = probe(&ep, "m.t").await.map_err(mach)?;
    if !est || cert.as_deref() != Some(m_der.as_slice()) || !served {
        return Err(mk("before", format!("under configuration A the host m.t is not served with its certificate (handshake {est}, served {served})")));
    }
    // a reload that must be refused (unloadable key) leaves A in force
    let bad = trusttunnel::settings::TlsHostsSettings::builder()
        .main_hosts(vec![trusttunnel::settings::TlsHostInfo { hostname: "n.t".into(), cert_chain_path: rt::cert_path("n.t"), private_key_path: rt::fixtures().join("certs").join("bad.key").to_string_lossy().into_owned(), allowed_sni: vec![] }])
        .build();
    if let Ok(bad) = bad {
        if ep.core.reload_tls_hosts_settings(bad).is_ok() {
            return Err(mk("invalid-accepted", "a host configuration with an unloadable key was accepted".into()));
        }
    }
    let (est, cert, served) = probe(&ep, "m.t").await.map_err(mach)?;
    if !est || cert.as_deref() != Some(m_der.as_slice()) || !served {
        return Err(mk("after-failed-reload", "after a refused reload the host m.t is no longer served with its certificate".into()));
    }
    // configuration B
    ep.core.reload_tls_hosts_settings(super::common::build_hosts(&cfg_b).map_err(mach)?).map_err(|e| mk("valid-refused", e.to_string()))?;
    let (est, cert, served) = probe(&ep, "n.t").await.map_err(mach)?;
    if !est || cert.as_deref() != Some(n_der.as_slice()) || !served {
        return Err(mk("after-reload:new-host", format!("after the reload to configuration B the host n.t is not served with its certificate (handshake {est}, right certificate {}, served {served})", cert.as_deref() == Some(n_der.as_slice()))));
    }
    // the old name designates nothing any more; C05 states the refusal of such an SNI for TCP only
    // (on QUIC it is served as the bootstrap host), but the old certificate must be gone
    let (est, cert, served_old) = probe(&ep, "m.t").await.map_err(mach)?;
    if std::env::var_os("VERIF_DEBUG").is_some() {
        eprintln!("quic reload: old SNI after reload: established {est}, certificate is m.t's {}, n.t's {}, served {served_old}", cert.as_deref() == Some(m_der.as_slice()), cert.as_deref() == Some(n_der.as_slice()));
    }
    if est && cert.as_deref() == Some(m_der.as_slice()) {
        return Err(mk("after-reload:old-certificate-still-presented", "after the reload to configuration B (which has no host m.t) the certificate of m.t is still presented".into()));
    }
    Ok("switched")
}


// ------------------------------------------------------------------------------------------------
// C04 over QUIC: the verdict is applied to the peer's address before any request is processed
// ------------------------------------------------------------------------------------------------

pub async fn cidr_case(which: &str) -> Result<&'static str, Violation> {
    let case = json!({"kind":"quic-cidr","which":which});
    let mk = |sig: &str, what: String| Violation::new(format!("C04:quic:{sig}:{which}"), what, case.clone());
    use trusttunnel::rules::{Rule, RuleAction, RulesConfig};
    let r = |cidr: &str, deny: bool| Rule { cidr: Some(cidr.into()), client_random_prefix: None, action: if deny { RuleAction::Deny } else { RuleAction::Allow } };
    let (rules, want_served) = match which {
        "deny-loopback" => (vec![r("127.0.0.0/8", true)], false),
        "deny-other-range" => (vec![r("10.0.0.0/8", true)], true),
        "allow-loopback-then-deny-all" => (vec![r("127.0.0.1/32", false), r("0.0.0.0/0", true)], true),
        "deny-all-then-allow-loopback" => (vec![r("0.0.0.0/0", true), r("127.0.0.1/32", false)], false),
        _ => (vec![r("::ffff:127.0.0.0/104", true)], true),
    };
    let ep = start(Cfg { rules: Some(RulesConfig { rule: rules }), clients: users(), ..Cfg::default() }).await.map_err(|e| Violation::new("C04:machinery", e, json!({})))?;
    let mut cl = QuicClient::new(ep.addr, &ClientOpts::default()).map_err(|e| Violation::new("C04:machinery", e, json!({})))?;
    let established = cl.handshake(Duration::from_secs(3)).await;
    let mut served = false;
    if established {
        if let Ok(id) = cl.request("CONNECT", "_check", None, &[("proxy-authorization".into(), AUTH.into())], false) {
            served = cl.response(id, Duration::from_secs(2), 4096, None).await.status == Some(200);
        }
    }
    cl.close();
    match (want_served, served) {
        (true, false) => Err(mk("allowed-peer-refused", format!("the rules admit 127.0.0.1, the QUIC connection was not served (handshake completed: {established})"))),
        (false, true) => Err(mk("denied-peer-served", "the rules deny 127.0.0.1, a request on the QUIC connection was processed".into())),
        (true, true) => Ok("served"),
        (false, false) => Ok("refused"),
    }
}

pub fn c04_into(rep: &mut Report) {
    let all = ["deny-loopback", "deny-other-range", "allow-loopback-then-deny-all", "deny-all-then-allow-loopback"];
    let mut classes = vec![];
    for w in all {
        match super::guarded(|| run_blocking(cidr_case(w))) {
            Ok(Ok(c)) => classes.push(format!("{w}:{c}")),
            Ok(Err(v)) => rep.violation(v),
            Err(p) => rep.violation(Violation::new("C04:quic:panic", p, json!({"kind":"quic-cidr","which":w}))),
        }
    }
    rep.add("evaluations", all.len() as u64);
    rep.sub.push(json!({"sub":"quic-cidr-rules","cases":all.len(),"classes":classes,
        "what":"QUIC connections from 127.0.0.1 under 4 rule lists (deny loopback, deny another range, allow-then-deny-all, deny-all-then-allow): no request is processed on a denied connection, an admitted one is served"}));
}


// ------------------------------------------------------------------------------------------------
// C17 over HTTP/3: a request with a body
// ------------------------------------------------------------------------------------------------

pub async fn forwarded_post_case(with_length: bool) -> Result<&'static str, Violation> {
    let case = json!({"kind":"quic-forwarded-post","with_length":with_length});
    let mk = |sig: String, what: String| Violation::new(sig, what, case.clone());
    let origin = tokio::net::TcpListener::bind("127.0.0.1:0").await.map_err(|e| Violation::new("C17:machinery", e.to_string(), json!({})))?;
    let oaddr = origin.local_addr().unwrap();
    let ep = start(Cfg { clients: users(), allow_private: true, ..Cfg::default() }).await.map_err(|e| Violation::new("C17:machinery", e, json!({})))?;
    let mut cl = QuicClient::new(ep.addr, &ClientOpts::default()).map_err(|e| Violation::new("C17:machinery", e, json!({})))?;
    if !cl.handshake(Duration::from_secs(3)).await {
        return Err(Violation::new("C17:machinery", "QUIC handshake failed", case));
    }
    let authority = format!("127.0.0.1:{}", oaddr.port());
    let mut req = vec![
        quiche::h3::Header::new(b":method", b"POST"),
        quiche::h3::Header::new(b":scheme", b"http"),
        quiche::h3::Header::new(b":authority", authority.as_bytes()),
        quiche::h3::Header::new(b":path", b"/upload"),
        quiche::h3::Header::new(b"proxy-authorization", AUTH.as_bytes()),
    ];
    if with_length {
        req.push(quiche::h3::Header::new(b"content-length", b"4"));
    }
    let id = {
        let h3 = cl.h3.as_mut().unwrap();
        h3.send_request(&mut cl.conn, &req, false).map_err(|e| Violation::new("C17:machinery", e.to_string(), json!({})))?
    };
    cl.pump();
    let _ = cl.send_body(id, b"data", true);
    let mut os = None;
    let t0 = std::time::Instant::now();
    while os.is_none() && t0.elapsed() < Duration::from_secs(3) {
        cl.pump();
        let mut acc = Box::pin(origin.accept());
        if let Some(Ok((s, _))) = door::poll_once(&mut acc).await {
            os = Some(s);
        }
        drop(acc);
        tokio::time::sleep(Duration::from_millis(2)).await;
    }
    let Some(mut os) = os else {
        return Err(mk("C17:h3:not-forwarded:post".into(), "the origin was not contacted".into()));
    };
    let _ = os.set_linger(Some(Duration::ZERO));
    let mut got = vec![];
    let t0 = std::time::Instant::now();
    let mut idle = 0;
    while t0.elapsed() < Duration::from_secs(2) && idle < 150 {
        cl.pump();
        let mut tmp = [0u8; 2048];
        let n = {
            let mut r = Box::pin(os.read(&mut tmp));
            door::poll_once(&mut r).await
        };
        match n {
            Some(Ok(n)) if n > 0 => {
                got.extend_from_slice(&tmp[..n]);
                idle = 0;
            }
            Some(_) => break,
            None => idle += 1,
        }
        tokio::time::sleep(Duration::from_millis(1)).await;
    }
    {
        let mut w = Box::pin(os.write_all(b"HTTP/1.1 200 OK\r\nContent-Length: 0\r\n\r\n"));
        door::until(&mut w, Duration::from_secs(1)).await;
    }
    let _ = cl.response(id, Duration::from_secs(2), 4096, None).await;
    cl.close();
    let text = String::from_utf8_lossy(&got).to_string();
    let Some(h) = text.find("\r\n\r\n") else {
        return Err(mk("C17:h3:request-not-equivalent:post".into(), format!("the origin received {text:?}")));
    };
    let head = text[..h].to_ascii_lowercase();
    let body = &got[h + 4..];
    let framed_by_length = head.contains("content-length: 4") && body == b"data";
    let framed_by_chunks = head.contains("transfer-encoding: chunked") && body.ends_with(b"0\r\n\r\n");
    if !framed_by_length && !framed_by_chunks {
        let how = if with_length { "with-length" } else { "no-length" };
        return Err(mk(format!("C17:request:body-framing:{how}:h3"), format!("the request body reached the origin without consistent framing: head {head:?}, {} body bytes", body.len())));
    }
    Ok("framed")
}

// ------------------------------------------------------------------------------------------------
// drivers
// ------------------------------------------------------------------------------------------------

pub fn run_blocking<T>(f: impl std::future::Future<Output = T>) -> T {
    rt::run_real(f)
}

pub fn c12_into(rep: &mut Report, tier: Tier) {
    let mut classes = std::collections::BTreeSet::new();
    let mut n = 0u64;
    // every tested bit x both polarities x {single, multi-packet hello}; a few repetitions because
    // the random itself is the client's (observed, not chosen)
    let reps = tier.pick(1, 4);
    for extra_alpn in [0usize, 8] {
        for bit in 0..8u8 {
            for deny_when_set in [false, true] {
                for _ in 0..reps {
                    let c = RandomCase { bit, deny_when_set, extra_alpn };
                    n += 1;
                    match super::guarded(|| run_blocking(random_case(&c))) {
                        Ok(Ok(cl)) => {
                            classes.insert(format!("{}:{cl}", if extra_alpn > 0 { "multi" } else { "single" }));
                        }
                        Ok(Err(v)) => rep.violation(v),
                        Err(p) => rep.violation(Violation::new("C12:quic:panic", p, json!({"kind":"quic-random","case":c}))),
                    }
                }
            }
        }
    }
    rep.add("evaluations", n);
    rep.add("distinct_nontrivial", classes.len() as u64);
    rep.sub.push(json!({"sub":"quic-client-random","cases":n,"classes":classes,
        "what":"real Core::listen UDP listener x quiche client: deny rule on bit b of the first client-random byte (b = 0..7, both polarities) x {one-packet ClientHello, ClientHello spanning several Initial packets}; the verdict must be the one the rule gives for the random in the client's key log"}));
}

pub fn c05_into(rep: &mut Report) {
    let mut classes = vec![];
    for sni in ["m.t", "n.t", "p.t", "cred.m.t", "zz.t", "x.zz.t"] {
        match super::guarded(|| run_blocking(cert_case(sni))) {
            Ok(Ok(c)) => classes.push(format!("{sni}:{c}")),
            Ok(Err(v)) => rep.violation(v),
            Err(p) => rep.violation(Violation::new("C05:quic:panic", p, json!({"kind":"quic-cert","sni":sni}))),
        }
    }
    match super::guarded(|| run_blocking(reload_case())) {
        Ok(Ok(c)) => classes.push(format!("reload:{c}")),
        Ok(Err(v)) => rep.violation(v),
        Err(p) => rep.violation(Violation::new("C05:quic:reload:panic", p, json!({"kind":"quic-reload"}))),
    }
    rep.add("evaluations", 7);
    rep.sub.push(json!({"sub":"quic-certificate-selection","cases":6,"classes":classes,
        "what":"QUIC handshakes with SNI {main host, second main host, ping host, credentials form, unknown, unknown with label}: the certificate the client receives is the designated host's; no designation => no handshake"}));
}

pub fn c01_into(rep: &mut Report) {
    let mut classes = vec![];
    let mut n = 0;
    for header in ["valid", "wrong", "other-scheme", "absent"] {
        for target in ["check", "connect"] {
            n += 1;
            match super::guarded(|| run_blocking(auth_case(header, target))) {
                Ok(Ok(c)) => classes.push(format!("{header}:{target}:{c}")),
                Ok(Err(v)) => rep.violation(v),
                Err(p) => rep.violation(Violation::new("C01:h3:panic", p, json!({"kind":"quic-auth","header":header,"target":target}))),
            }
        }
    }
    rep.add("evaluations", n);
    rep.sub.push(json!({"sub":"http3-authentication-gate","cases":n,"classes":classes,
        "what":"HTTP/3 CONNECT {_check, destination} x Proxy-Authorization {valid, wrong password, other scheme, absent} through the real UDP listener: 200 + relay iff valid, otherwise 407 + Basic challenge and no egress"}));
}

pub fn c18_into(rep: &mut Report, tier: Tier) {
    let mut classes = vec![];
    let mut n = 0;
    let bodies: Vec<usize> = tier.pick(vec![26, 5000], vec![1, 26, 300, 5000, 70_000]);
    for body in bodies {
        for window in [16u64, 1024, 1_000_000] {
            n += 1;
            match super::guarded(|| run_blocking(rproxy_slow_case(body, window))) {
                Ok(Ok(c)) => classes.push(format!("{body}:{window}:{c}")),
                Ok(Err(v)) => rep.violation(v),
                Err(p) => rep.violation(Violation::new("C18:h3:panic", p, json!({"kind":"quic-rproxy-slow","body":body,"window":window}))),
            }
        }
    }
    rep.add("evaluations", n);
    rep.sub.push(json!({"sub":"http3-reverse-proxy","cases":n,"classes":classes,
        "what":"reverse-proxy host over HTTP/3 x response body sizes arriving with the origin's head x client stream windows {16, 1024, 1e6}: X-Original-Protocol http3, status and exactly the body bytes"}));
}

pub fn c18_services_into(rep: &mut Report) {
    let mut classes = vec![];
    let all = ["ping-host", "ping-marker", "download", "speedtest-host-download", "upload", "speedtest-host-upload"];
    for w in all {
        match super::guarded(|| run_blocking(service_case(w))) {
            Ok(Ok(c)) => classes.push(format!("{w}:{c}")),
            Ok(Err(v)) => rep.violation(v),
            Err(p) => rep.violation(Violation::new(format!("C18:h3:{w}:panic"), p, json!({"kind":"quic-service","which":w}))),
        }
    }
    rep.add("evaluations", all.len() as u64);
    rep.sub.push(json!({"sub":"http3-services","cases":all.len(),"classes":classes,
        "what":"ping (host and marker), speedtest download of 1 MiB and upload of 70000 bytes (in-tunnel and on a speedtest host) over HTTP/3 with requests that end the client's side of the stream as ordinary clients do"}));
}

pub fn c17_into(rep: &mut Report, tier: Tier) {
    let mut classes = vec![];
    let mut n = 0;
    let bodies: Vec<usize> = tier.pick(vec![0, 40, 5000], vec![0, 1, 40, 5000, 100_000]);
    for framing in ["cl", "chunked", "close"] {
        for body in &bodies {
            n += 1;
            match super::guarded(|| run_blocking(forwarded_case(framing, *body))) {
                Ok(Ok(c)) => classes.push(format!("{framing}:{body}:{c}")),
                Ok(Err(v)) => rep.violation(v),
                Err(p) => rep.violation(Violation::new("C17:h3:panic", p, json!({"kind":"quic-forwarded","framing":framing,"body":body}))),
            }
        }
    }
    for with_length in [true, false] {
        n += 1;
        match super::guarded(|| run_blocking(forwarded_post_case(with_length))) {
            Ok(Ok(c)) => classes.push(format!("post:{with_length}:{c}")),
            Ok(Err(v)) => rep.violation(v),
            Err(p) => rep.violation(Violation::new("C17:h3:panic", p, json!({"kind":"quic-forwarded-post","with_length":with_length}))),
        }
    }
    rep.add("evaluations", n);
    rep.sub.push(json!({"sub":"http3-forwarding","cases":n,"classes":classes,
        "what":"GET forwarded for an HTTP/3 client (request stream ended with the request) x origin framing {Content-Length, chunked, close-delimited} x body sizes: equivalent HTTP/1.1 request at the origin, status, end-to-end header, exactly the de-chunked body, end of the exchange"}));
}


/// The HTTP/3 client aborts its request stream (RESET_STREAM) in mid-upload, the destination is
/// silent: the tunnel is torn down (destination connection ended, outbound socket released).
pub async fn client_abort_case() -> Result<&'static str, Violation> {
    let case = json!({"kind":"quic-client-abort"});
    let mach = |e: String| Violation::new("C02:machinery", e, json!({}));
    let dst = tokio::net::TcpListener::bind("127.0.0.1:0").await.map_err(|e| mach(e.to_string()))?;
    let daddr = dst.local_addr().unwrap();
    let ep = start(Cfg { clients: users(), allow_private: true, ..Cfg::default() }).await.map_err(mach)?;
    let mut cl = QuicClient::new(ep.addr, &ClientOpts::default()).map_err(mach)?;
    if !cl.handshake(Duration::from_secs(3)).await {
        return Err(Violation::new("C02:machinery", "QUIC handshake failed", case));
    }
    let id = cl.request("CONNECT", &daddr.to_string(), None, &[("proxy-authorization".into(), AUTH.into())], false).map_err(mach)?;
    let mut ds = None;
    let t0 = std::time::Instant::now();
    while ds.is_none() && t0.elapsed() < Duration::from_secs(3) {
        cl.pump();
        let mut acc = Box::pin(dst.accept());
        if let Some(Ok((s, _))) = door::poll_once(&mut acc).await {
            ds = Some(s);
        }
        drop(acc);
        tokio::time::sleep(Duration::from_millis(2)).await;
    }
    let Some(mut ds) = ds else { return Err(Violation::new("C02:machinery", "destination not connected", case)) };
    let _ = ds.set_linger(Some(Duration::ZERO));
    let head = cl.response(id, Duration::from_secs(3), 4096, Some(0)).await;
    if head.status != Some(200) {
        return Err(Violation::new("C02:machinery", format!("CONNECT answered {:?}", head.status), case));
    }
    let up = vec![0x61u8; 3000];
    let mut off = 0;
    let t0 = std::time::Instant::now();
    while off < up.len() && t0.elapsed() < Duration::from_secs(3) {
        match cl.send_body(id, &up[off..], false) {
            Ok(n) => off += n,
            Err(_) => tokio::time::sleep(Duration::from_millis(1)).await,
        }
    }
    let mut got = 0usize;
    let mut tmp = [0u8; 4096];
    let t0 = std::time::Instant::now();
    while got < up.len() && t0.elapsed() < Duration::from_secs(3) {
        cl.pump();
        let n = {
            let mut r = Box::pin(ds.read(&mut tmp));
            door::poll_once(&mut r).await
        };
        match n {
            Some(Ok(n)) if n > 0 => got += n,
            Some(_) => break,
            None => tokio::time::sleep(Duration::from_millis(1)).await,
        }
    }
    if got < up.len() {
        return Err(Violation::new("C02:machinery", format!("the destination received {got} of 3000 bytes"), case));
    }
    if trusttunnel::verif_hooks::metrics_snapshot(&ep.ctx).outbound_tcp_sockets != 1 {
        return Err(Violation::new("C02:machinery", "outbound_tcp_sockets is not 1 on an open tunnel", case));
    }
    // H3_REQUEST_CANCELLED on the sending side of the request stream
    let _ = cl.conn.stream_shutdown(id, quiche::Shutdown::Write, 0x10c);
    let mut ended = false;
    let t0 = std::time::Instant::now();
    while !ended && t0.elapsed() < Duration::from_secs(3) {
        cl.pump();
        let n = {
            let mut r = Box::pin(ds.read(&mut tmp));
            door::poll_once(&mut r).await
        };
        match n {
            Some(Ok(0)) | Some(Err(_)) => ended = true,
            Some(Ok(_)) => {}
            None => tokio::time::sleep(Duration::from_millis(2)).await,
        }
    }
    cl.drive(Duration::from_millis(200), |_| false).await;
    let gauge = trusttunnel::verif_hooks::metrics_snapshot(&ep.ctx).outbound_tcp_sockets;
    if !ended || gauge != 0 {
        return Err(Violation::new(
            "C02:door:client-abort-not-a-failure:h3",
            format!("the client reset its request stream (RESET_STREAM H3_REQUEST_CANCELLED) in mid-upload with a silent destination: destination saw its connection end = {ended}, outbound_tcp_sockets afterwards = {gauge} (the tunnel must be torn down, not left half-open)"),
            case,
        ));
    }
    Ok("torn-down")
}

pub fn c02_into(rep: &mut Report) {
    let mut cases = vec![];
    for down in [0usize, 5, 3000, 200_000] {
        for end in ["fin", "rst"] {
            for client in ["reads", "upload-then-half-close", "upload-keeps-open"] {
                cases.push((down, end, client));
            }
        }
    }
    let r = crate::engine::explore::sweep_dyn(cases.len() as u64, 1, Duration::from_secs(300), rt::workers(), |i| {
        let (down, end, client) = cases[i as usize];
        match super::guarded(|| run_blocking(ending_case(down, end, client))) {
            Ok(Ok(c)) => Ok(std::borrow::Cow::Borrowed(c)),
            Ok(Err(v)) => Err(v),
            Err(p) => Err(Violation::new("C02:door:panic:h3", p, json!({"kind":"quic-ending","down":down,"end":end,"client":client}))),
        }
    });
    rep.cov("door_ending_cases_h3", r.evaluations);
    rep.sub.push(json!({"sub":"door-endings-h3","cases":r.evaluations,"completed":r.completed,"classes":r.classes.iter().map(|(k, v)| format!("{k}={}", v.0)).collect::<Vec<_>>(),
        "what":"the same ending table as door-endings through the real UDP listener with an HTTP/3 client"}));
    rep.violations(r.violations);
    match super::guarded(|| run_blocking(client_abort_case())) {
        Ok(Ok(c)) => rep.sub.push(json!({"sub":"door-client-abort-h3","class":c,"what":"HTTP/3 client resets its request stream in mid-upload, silent destination: tunnel torn down"})),
        Ok(Err(v)) => rep.violation(v),
        Err(p) => rep.violation(Violation::new("C02:door:panic:h3", p, json!({"kind":"quic-client-abort"}))),
    }
}

pub fn c10_into(rep: &mut Report) {
    let mut classes = vec![];
    for o in H3_OUTCOMES {
        match super::guarded(|| run_blocking(outcome_case(o))) {
            Ok(Ok(c)) => classes.push(format!("{o}:{c}")),
            Ok(Err(v)) => rep.violation(v),
            Err(p) => rep.violation(Violation::new(format!("C10:h3:panic:{o}"), p, json!({"kind":"quic-outcome","outcome":o}))),
        }
    }
    rep.add("evaluations", H3_OUTCOMES.len() as u64);
    rep.sub.push(json!({"sub":"http3-outcomes","cases":H3_OUTCOMES.len(),"classes":classes,
        "what":"CONNECT over HTTP/3 x outcome of the outbound attempt {connected, ECONNREFUSED, ENETUNREACH, never completes (0.7 s establishment timeout), loopback forbidden, no port, _check, GET on _udp2, _icmp:7, _CHECK, _UDP2}: exactly one final response with the documented status / X-Warning"}));
}

pub fn c16_into(rep: &mut Report) {
    match super::guarded(|| run_blocking(metrics_case())) {
        Ok(Ok(c)) => rep.sub.push(json!({"sub":"http3-series","class":c,"what":"one QUIC session, one tunnel, 700 bytes up and 1100 down: client_sessions{HTTP3}, outbound_tcp_sockets and the HTTP3-labelled traffic counters follow, and return when the client leaves"})),
        Ok(Err(v)) => rep.violation(v),
        Err(p) => rep.violation(Violation::new("C16:h3:panic", p, json!({"kind":"quic-metrics"}))),
    }
}


/// QUIC handshakes that pass address validation and then stall: what the listener holds for them
/// is released once the transport gives them up (C14: "a handshake that does not complete within
/// its timeout is dropped, and the sockets and tasks of that connection are released").
/// Observed through the live heap of this thread (the endpoint runs on it): (held while the
/// handshakes are pending, held after their timeouts).
pub async fn stalled_handshakes_case(n: usize) -> Result<(usize, usize, usize), Violation> {
    let case = json!({"kind":"quic-stalled-handshakes","n":n});
    let mach = |e: String| Violation::new("C14:machinery", e, json!({}));
    let ep = start(Cfg { clients: users(), ..Cfg::default() }).await.map_err(mach)?;
    // warm-up: one complete connection, so that lazily built state is not counted
    {
        let mut cl = QuicClient::new(ep.addr, &ClientOpts::default()).map_err(mach)?;
        if !cl.handshake(Duration::from_secs(3)).await {
            return Err(Violation::new("C14:machinery", "QUIC handshake failed", case));
        }
        cl.close();
        cl.drive(Duration::from_millis(300), |_| false).await;
    }
    tokio::time::sleep(Duration::from_millis(1500)).await;
    let meter = crate::engine::alloc::begin();
    let mut stalled = 0usize;
    for _ in 0..n {
        let mut cl = QuicClient::new(ep.addr, &ClientOpts::default()).map_err(mach)?;
        // first flight, the listener's Retry, the first flight again with the token: then silence
        if cl.drive(Duration::from_millis(500), |c| c.received >= 1).await {
            stalled += 1;
        }
        tokio::time::sleep(Duration::from_millis(2)).await;
        drop(cl);
    }
    tokio::time::sleep(Duration::from_millis(100)).await;
    let held = meter.live_above_start();
    // quiche gives a silent peer up after its handshake timers (a few seconds)
    let t0 = std::time::Instant::now();
    let mut after = held;
    while t0.elapsed() < Duration::from_secs(12) {
        tokio::time::sleep(Duration::from_millis(250)).await;
        after = meter.live_above_start();
        if after * 8 <= held {
            break;
        }
    }
    if ep.task.is_finished() {
        return Err(Violation::new("C14:h3:listener-ended", "the QUIC listener ended", case));
    }
    Ok((stalled, held, after))
}

pub fn c14_into(rep: &mut Report) {
    let mut classes = vec![];
    let r = crate::engine::explore::sweep_dyn(2, 1, Duration::from_secs(60), 2, |i| match super::guarded(|| run_blocking(idle_case(i == 1))) {
        Ok(Ok(c)) => Ok(std::borrow::Cow::Borrowed(c)),
        Ok(Err(v)) => Err(v),
        Err(p) => Err(Violation::new("C14:h3:panic", p, json!({"kind":"quic-idle","active": i == 1}))),
    });
    for k in r.classes.keys() {
        classes.push(k.clone());
    }
    rep.sub.push(json!({"sub":"http3-idle-timer","cases":2,"classes":classes,"what":"HTTP/3 tunnel with a 1 s idle timeout in real time: idle => closed between 1 s and 3.2 s; a byte every 300 ms => open for 3.2 s"}));
    rep.violations(r.violations);
    let n = 60;
    match super::guarded(|| run_blocking(stalled_handshakes_case(n))) {
        Ok(Ok((stalled, held, after))) => {
            if std::env::var_os("VERIF_DEBUG").is_some() {
                eprintln!("stalled handshakes: {stalled} of {n}, held {held}, after {after}");
            }
            if stalled < n / 2 || held < 64 * 1024 {
                rep.violation(Violation::new("C14:machinery", format!("the stalled-handshake scenario did not build up state ({stalled} of {n} handshakes stalled, {held} bytes held)"), json!({})));
            } else if after * 4 > held {
                rep.violation(Violation::new(
                    "C14:h3:stalled-handshakes-not-released",
                    format!("{stalled} QUIC handshakes passed address validation and then stalled; the endpoint held {held} bytes for them and still holds {after} bytes 12 s later (the transport had given them up long before)"),
                    json!({"kind":"quic-stalled-handshakes","n":n}),
                ));
            }
            rep.sub.push(json!({"sub":"http3-stalled-handshakes","stalled":stalled,"held_bytes":held,"held_after_timeouts":after,
                "what":"60 QUIC handshakes that pass address validation and then go silent: the heap held for them is released once the transport has given them up"}));
        }
        Ok(Err(v)) => rep.violation(v),
        Err(p) => rep.violation(Violation::new("C14:h3:panic", p, json!({"kind":"quic-stalled-handshakes"}))),
    }
}

pub fn c07_into(rep: &mut Report) {
    match super::guarded(|| run_blocking(udp_case())) {
        Ok(Ok(c)) => rep.sub.push(json!({"sub":"http3-udp-multiplexer","class":c,"what":"two UDP flows through an HTTP/3 _udp2 stream with real peers: each datagram reaches exactly its destination from its own socket, each reply returns labelled (flow destination -> flow source)"})),
        Ok(Err(v)) => rep.violation(v),
        Err(p) => rep.violation(Violation::new("C07:h3:panic", p, json!({"kind":"quic-udp"}))),
    }
}

pub fn c09_into(rep: &mut Report, tier: Tier) {
    let mut n = 0u64;
    for (family, d) in garbage_families(tier) {
        match super::guarded(|| run_blocking(garbage_family(family, d))) {
            Ok(Ok(k)) => n += k,
            Ok(Err(v)) => rep.violation(v),
            Err(p) => rep.violation(Violation::new(format!("C09:quic-datagram:panic:{family}"), p, json!({"kind":"quic-garbage","family":family}))),
        }
    }
    match super::guarded(|| run_blocking(mutated_initials(tier))) {
        Ok(Ok(k)) => n += k,
        Ok(Err(v)) => rep.violation(v),
        Err(p) => rep.violation(Violation::new("C09:quic-datagram:panic:mutated-initial", p, json!({"kind":"quic-garbage","family":"mutated-initial"}))),
    }
    match super::guarded(|| run_blocking(retry_token_cases(tier))) {
        Ok(Ok(k)) => {
            n += k;
            rep.sub.push(json!({"sub":"quic-retry-tokens","cases":k,"completed":true,
                "domain":"a relay between the genuine quiche client and the listener re-mints the listener's Retry (valid integrity tag) with the token: unedited (positive control: handshake completes), every truncation 0..len, extended by 1/2/6/18/40 bytes, one bit flipped at every (thorough) / every third (quick) position; after each the listener task is alive, and a regular handshake still completes at the end (whether an edited token is still accepted is not judged: C09 does not state it)"}));
        }
        Ok(Err(v)) => rep.violation(v),
        Err(p) => rep.violation(Violation::new("C09:quic-datagram:panic:retry-token", p, json!({"kind":"quic-retry-token"}))),
    }
    rep.add("evaluations", n);
    rep.sub.push(json!({"sub":"quic-datagrams","cases":n,"completed":true,
        "domain":"UDP datagrams to the real listener: all strings <= 4/5 bytes over {00,01,40,7f,80,c0,c3,ff}; long-header shapes (6 first bytes x 5 versions x 5x5 connection-id lengths x 6 token lengths x 3 sizes); every single-byte mutation (6 values) of the first 48/200 bytes and every truncation of a genuine Initial, the same Initial 50 times and coalesced; after each family the listener task is alive and a regular handshake completes"}));
}

pub fn c19_into(rep: &mut Report) {
    match super::guarded(|| run_blocking(shutdown_case())) {
        Ok(Ok(c)) => rep.sub.push(json!({"sub":"quic-shutdown","class":c,"what":"an established HTTP/3 session is closed when shutdown is submitted and completion() returns"})),
        Ok(Err(v)) => rep.violation(v),
        Err(p) => rep.violation(Violation::new("C19:quic:panic", p, json!({"kind":"quic-shutdown"}))),
    }
    rep.add("evaluations", 1);
}

pub fn replay(case: &serde_json::Value) -> Option<Result<(), Violation>> {
    let bad = || Violation::new("machinery", "bad replay file", json!({}));
    Some(match case["kind"].as_str()? {
        "quic-random" => serde_json::from_value::<RandomCase>(case["case"].clone()).map_err(|_| bad()).and_then(|c| run_blocking(random_case(&c)).map(|_| ())),
        "quic-cert" => run_blocking(cert_case(case["sni"].as_str().unwrap_or("m.t"))).map(|_| ()),
        "quic-reload" => run_blocking(reload_case()).map(|_| ()),
        "quic-cidr" => {
            let w = ["deny-loopback", "deny-other-range", "allow-loopback-then-deny-all", "deny-all-then-allow-loopback", "deny-mapped-form-only"].into_iter().find(|x| Some(*x) == case["which"].as_str()).unwrap_or("deny-loopback");
            run_blocking(cidr_case(w)).map(|_| ())
        }
        "quic-auth" => {
            let h = ["valid", "wrong", "other-scheme", "absent"].into_iter().find(|x| Some(*x) == case["header"].as_str()).unwrap_or("absent");
            let t = if case["target"].as_str() == Some("connect") { "connect" } else { "check" };
            run_blocking(auth_case(h, t)).map(|_| ())
        }
        "quic-rproxy-slow" => run_blocking(rproxy_slow_case(case["body"].as_u64().unwrap_or(26) as usize, case["window"].as_u64().unwrap_or(16))).map(|_| ()),
        "quic-garbage" => {
            let fam = case["family"].as_str().unwrap_or("");
            if fam == "mutated-initial" {
                run_blocking(mutated_initials(Tier::Quick)).map(|_| ())
            } else {
                match garbage_families(Tier::Quick).into_iter().find(|(f, _)| *f == fam) {
                    Some((f, d)) => run_blocking(garbage_family(f, d)).map(|_| ()),
                    None => Err(bad()),
                }
            }
        }
        "quic-shutdown" => run_blocking(shutdown_case()).map(|_| ()),
        "quic-retry-token" => run_blocking(retry_token_cases(Tier::Quick)).map(|_| ()),
        "quic-outcome" => {
            let o = H3_OUTCOMES.into_iter().find(|x| Some(*x) == case["outcome"].as_str()).unwrap_or("connected");
            run_blocking(outcome_case(o)).map(|_| ())
        }
        "quic-metrics" => run_blocking(metrics_case()).map(|_| ()),
        "quic-udp" => run_blocking(udp_case()).map(|_| ()),
        "quic-idle" => run_blocking(idle_case(case["active"].as_bool().unwrap_or(false))).map(|_| ()),
        "quic-service" => {
            let w = ["ping-host", "ping-marker", "download", "speedtest-host-download", "upload", "speedtest-host-upload"].into_iter().find(|x| Some(*x) == case["which"].as_str()).unwrap_or("ping-host");
            run_blocking(service_case(w)).map(|_| ())
        }
        "quic-forwarded-post" => run_blocking(forwarded_post_case(case["with_length"].as_bool().unwrap_or(true))).map(|_| ()),
        "quic-forwarded" => {
            let f = ["cl", "chunked", "close"].into_iter().find(|x| Some(*x) == case["framing"].as_str()).unwrap_or("cl");
            run_blocking(forwarded_case(f, case["body"].as_u64().unwrap_or(40) as usize)).map(|_| ())
        }
        "quic-client-abort" => run_blocking(client_abort_case()).map(|_| ()),
        "quic-ending" => {
            let e = if case["end"].as_str() == Some("rst") { "rst" } else { "fin" };
            let c = ["reads", "upload-then-half-close", "upload-keeps-open"].into_iter().find(|x| Some(*x) == case["client"].as_str()).unwrap_or("reads");
            run_blocking(ending_case(case["down"].as_u64().unwrap_or(5) as usize, e, c)).map(|_| ())
        }
        _ => return None,
    })
}
