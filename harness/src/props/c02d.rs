//! C02 (door) — how a tunnel through the real accept path and the real TCP forwarder ends: every
//! combination of {HTTP/1.1, HTTP/2} x destination behaviour {k bytes then FIN, k bytes then RST,
//! FIN / RST right after accept} x client behaviour {only reads, uploads then half-closes, uploads
//! and keeps the stream open} against a destination played by the harness on loopback.
//! Oracle: bytes arrive unchanged and in order both ways; after a FIN the client sees every byte
//! and a clean end; after a RST the tunnel is torn down and an HTTP/2 client sees a stream error,
//! never a clean end of stream; a half-closed upload does not cut the download.

use super::common::{make_world, Cfg};
use super::door::{self, H1Client, H2Client, H2Outcome, ReqSpec};
use crate::engine::explore::sweep_dyn;
use crate::engine::report::{Report, Tier, Violation};
use crate::engine::rt;
use serde_json::json;
use std::borrow::Cow;
use std::net::SocketAddr;
use std::time::Duration;
use tokio::io::{AsyncReadExt, AsyncWriteExt};
use trusttunnel::verif_hooks::{self as vh, VProtocol};

#[derive(Clone, Debug, serde::Serialize, serde::Deserialize)]
pub struct Case {
    pub h2: bool,
    /// bytes the destination sends before it ends the connection
    pub down: usize,
    /// "fin" | "rst"
    pub end: String,
    /// "reads" | "upload-then-half-close" | "upload-keeps-open"
    pub client: String,
}

#[derive(Debug, Default)]
struct Obs {
    status: Option<u16>,
    to_client: Vec<u8>,
    client_end: String, // "clean" | "error:<..>" | "open"
    to_destination: Vec<u8>,
    destination_saw_fin: bool,
}

fn pattern(n: usize, salt: u8) -> Vec<u8> {
    (0..n).map(|i| (i as u8).wrapping_mul(31).wrapping_add(salt)).collect()
}

async fn run_case(c: &Case) -> Result<Obs, String> {
    let dst = tokio::net::TcpListener::bind("127.0.0.1:0").await.map_err(|e| e.to_string())?;
    let daddr = dst.local_addr().unwrap();
    let world = make_world(&Cfg { allow_private: true, clients: vec![("u".into(), "p".into())], ..Cfg::default() })?;
    let peer: SocketAddr = "198.51.100.7:40000".parse().unwrap();
    let (io, d) = door::open(&world.ctx, if c.h2 { VProtocol::Http2 } else { VProtocol::Http1 }, "m.t", None, peer, 1 << 16);
    let spec = ReqSpec::connect(&daddr.to_string()).with_auth(Some(b"Basic dTpw".to_vec()));
    let up = pattern(if c.client == "reads" { 0 } else { 3000 }, 7);
    let down = pattern(c.down, 99);
    let mut obs = Obs::default();
    let mut h1 = None;
    let mut h2c = None;
    let mut st = None;
    if c.h2 {
        let mut cl = H2Client::connect(io).await?;
        st = Some(cl.request(spec.h2_request()?, false).await?);
        h2c = Some(cl);
    } else {
        let mut cl = H1Client::new(io);
        cl.send(&spec.h1_bytes()).await;
        h1 = Some(cl);
    }
    let mut acc = Box::pin(dst.accept());
    let Some(Ok((mut ds, _))) = door::until(&mut acc, Duration::from_secs(3)).await else {
        return Err("the destination was not connected".into());
    };
    drop(acc);
    // the response to the CONNECT
    if let Some(s) = st.as_mut() {
        match s.response(Duration::from_secs(3)).await {
            H2Outcome::Response(r) => obs.status = Some(r.status),
            H2Outcome::Reset(e) => obs.client_end = format!("error:{e}"),
            H2Outcome::Nothing => {}
        }
    }
    if let Some(cl) = h1.as_mut() {
        obs.status = cl.response(Duration::from_secs(3)).await.map(|r| r.status);
    }
    if obs.status != Some(200) {
        return Ok(obs);
    }
    // upload
    if !up.is_empty() {
        if let Some(s) = st.as_mut() {
            // in three DATA frames, the middle one empty (legal, and not the end of the stream)
            let half = up.len() / 2;
            let _ = s.tx.send_data(bytes::Bytes::copy_from_slice(&up[..half]), false);
            let _ = s.tx.send_data(bytes::Bytes::new(), false);
            let _ = s.tx.send_data(bytes::Bytes::copy_from_slice(&up[half..]), c.client == "upload-then-half-close");
        }
        if let Some(cl) = h1.as_mut() {
            cl.send(&up).await;
            if c.client == "upload-then-half-close" {
                let mut sd = Box::pin(cl.io.shutdown());
                door::until(&mut sd, Duration::from_secs(1)).await;
            }
        }
        let t0 = std::time::Instant::now();
        while obs.to_destination.len() < up.len() && t0.elapsed() < Duration::from_secs(3) {
            let mut tmp = [0u8; 4096];
            let mut r = Box::pin(ds.read(&mut tmp));
            match door::until(&mut r, Duration::from_millis(500)).await {
                Some(Ok(0)) => {
                    obs.destination_saw_fin = true;
                    break;
                }
                Some(Ok(n)) => obs.to_destination.extend_from_slice(&tmp[..n]),
                _ => break,
            }
        }
        if c.client == "upload-then-half-close" && !obs.destination_saw_fin {
            let mut tmp = [0u8; 16];
            let mut r = Box::pin(ds.read(&mut tmp));
            if let Some(Ok(0)) = door::until(&mut r, Duration::from_secs(2)).await {
                obs.destination_saw_fin = true;
            }
        }
    }
    // the destination answers, then ends the connection
    if !down.is_empty() {
        let mut w = Box::pin(ds.write_all(&down));
        door::until(&mut w, Duration::from_secs(3)).await;
    }
    if c.end == "fin" {
        let mut sd = Box::pin(ds.shutdown());
        door::until(&mut sd, Duration::from_secs(1)).await;
        drop(sd);
    } else {
        // let the bytes reach the endpoint first: a reset discards what is still in flight
        let t0 = std::time::Instant::now();
        let want = down.len();
        loop {
            if let Some(s) = st.as_mut() {
                let (b, ended, err) = s.body(20).await;
                obs.to_client.extend_from_slice(&b);
                if ended {
                    obs.client_end = err.map(|e| format!("error:{e}")).unwrap_or_else(|| "clean".into());
                }
            }
            if let Some(cl) = h1.as_mut() {
                cl.pump(20).await;
            }
            let have = obs.to_client.len() + h1.as_ref().map(|c| c.inbuf.len()).unwrap_or(0);
            if have >= want || t0.elapsed() > Duration::from_secs(3) || !obs.client_end.is_empty() {
                break;
            }
        }
        let _ = ds.set_linger(Some(Duration::ZERO));
        drop(ds);
    }
    // what the client sees from here on
    let t0 = std::time::Instant::now();
    while obs.client_end.is_empty() && t0.elapsed() < Duration::from_secs(3) {
        if let Some(s) = st.as_mut() {
            let (b, ended, err) = s.body(30).await;
            obs.to_client.extend_from_slice(&b);
            if ended {
                obs.client_end = err.map(|e| format!("error:{e}")).unwrap_or_else(|| "clean".into());
            }
        }
        if let Some(cl) = h1.as_mut() {
            cl.pump(30).await;
            if cl.eof {
                obs.client_end = if cl.io_error.is_some() { "error:io".into() } else { "clean".into() };
            }
        }
    }
    if let Some(cl) = h1.as_mut() {
        obs.to_client = cl.inbuf.clone();
    }
    if obs.client_end.is_empty() {
        obs.client_end = "open".into();
    }
    drop(h1);
    drop(st);
    drop(h2c);
    let mut task = d.task;
    {
        let mut f = Box::pin(&mut task);
        let _ = door::until(&mut f, Duration::from_secs(2)).await;
    }
    task.abort();
    Ok(obs)
}

fn judge(c: &Case, o: &Obs) -> Result<Cow<'static, str>, Violation> {
    let case = json!({"kind":"door","case":c});
    // a complete response followed by RST_STREAM(NO_ERROR) is how an HTTP/2 server ends a stream
    // whose request side the client has not ended (RFC 9113 8.1): a clean end
    let mut o2 = Obs { status: o.status, to_client: o.to_client.clone(), client_end: o.client_end.clone(), to_destination: o.to_destination.clone(), destination_saw_fin: o.destination_saw_fin };
    if o2.client_end.contains("not a result of an error") {
        o2.client_end = "clean".into();
    }
    let o = &o2;
    let p = if c.h2 { "h2" } else { "h1" };
    let mk = |sig: String, what: String| Violation::new(sig, format!("{what}; case {c:?}"), case.clone());
    if o.status != Some(200) {
        return Err(mk(format!("C02:door:not-established:{p}"), format!("CONNECT to a listening destination answered {:?} ({})", o.status, o.client_end)));
    }
    let up = pattern(if c.client == "reads" { 0 } else { 3000 }, 7);
    let down = pattern(c.down, 99);
    if o.to_destination != up {
        let how = if up.starts_with(&o.to_destination) { "truncated" } else { "corrupted" };
        return Err(mk(format!("C02:door:upload-{how}:{}:{p}", c.client), format!("the destination received {} of {} uploaded bytes", o.to_destination.len(), up.len())));
    }
    if c.client == "upload-then-half-close" && !o.destination_saw_fin {
        return Err(mk(format!("C02:door:half-close-not-passed-on:{p}"), "the client ended its upload, the destination saw no end of stream".into()));
    }
    if !down.starts_with(&o.to_client) {
        return Err(mk(format!("C02:door:download-corrupted:{}:{p}", c.end), format!("the client received {} bytes that are not a prefix of what the destination sent", o.to_client.len())));
    }
    match c.end.as_str() {
        "fin" => {
            if o.to_client.len() != down.len() {
                return Err(mk(format!("C02:door:download-truncated:{}:{p}", c.client), format!("the destination sent {} bytes and closed, the client received {} ({})", down.len(), o.to_client.len(), o.client_end)));
            }
            // with the upload still open the tunnel may stay half-open; otherwise both directions have ended
            if c.client != "upload-keeps-open" && o.client_end != "clean" {
                return Err(mk(format!("C02:door:no-clean-end:{}:{p}", c.client), format!("both directions ended, the client saw '{}'", o.client_end)));
            }
            if o.client_end.starts_with("error") {
                return Err(mk(format!("C02:door:error-after-fin:{}:{p}", c.client), format!("the destination closed cleanly, the client saw '{}'", o.client_end)));
            }
            Ok(Cow::Owned(format!("fin:{}", o.client_end)))
        }
        _ => {
            if o.client_end == "open" {
                return Err(mk(format!("C02:door:reset-not-passed-on:{}:{p}", c.client), "the destination reset the connection, the client's stream is still open 3 s later".into()));
            }
            if c.h2 && o.client_end == "clean" {
                return Err(mk(format!("C02:door:reset-reported-as-clean-end:{}", c.client), format!("the destination reset the connection after {} bytes; the HTTP/2 client saw a clean end of stream after {} bytes", down.len(), o.to_client.len())));
            }
            Ok(Cow::Owned(format!("rst:{}", if o.client_end == "clean" { "closed" } else { "error" })))
        }
    }
}

/// The destination stops reading while the client keeps uploading; what the destination sends in
/// the meantime must still reach the client (the directions are independent).
async fn stalled_upload_case(h2: bool) -> Result<(usize, usize, bool), String> {
    let dst = tokio::net::TcpListener::bind("127.0.0.1:0").await.map_err(|e| e.to_string())?;
    let daddr = dst.local_addr().unwrap();
    let world = make_world(&Cfg { allow_private: true, clients: vec![("u".into(), "p".into())], ..Cfg::default() })?;
    let peer: SocketAddr = "198.51.100.7:40000".parse().unwrap();
    let (io, d) = door::open(&world.ctx, if h2 { VProtocol::Http2 } else { VProtocol::Http1 }, "m.t", None, peer, 1 << 16);
    let spec = ReqSpec::connect(&daddr.to_string()).with_auth(Some(b"Basic dTpw".to_vec()));
    let mut h1 = None;
    let mut st = None;
    let mut keep = None;
    if h2 {
        let mut cl = H2Client::connect(io).await?;
        st = Some(cl.request(spec.h2_request()?, false).await?);
        keep = Some(cl);
    } else {
        let mut cl = H1Client::new(io);
        cl.send(&spec.h1_bytes()).await;
        h1 = Some(cl);
    }
    let mut acc = Box::pin(dst.accept());
    let Some(Ok((mut ds, _))) = door::until(&mut acc, Duration::from_secs(3)).await else {
        return Err("the destination was not connected".into());
    };
    drop(acc);
    let _ = ds.set_linger(Some(Duration::ZERO));
    if let Some(s) = st.as_mut() {
        if !matches!(s.response(Duration::from_secs(3)).await, H2Outcome::Response(ref r) if r.status == 200) {
            return Err("CONNECT was not answered 200".into());
        }
    }
    if let Some(cl) = h1.as_mut() {
        if cl.response(Duration::from_secs(3)).await.map(|r| r.status) != Some(200) {
            return Err("CONNECT was not answered 200".into());
        }
    }
    // upload until nothing more is taken (the destination never reads)
    let piece = vec![0x55u8; 1 << 16];
    let mut uploaded = 0usize;
    for _ in 0..400 {
        let took = if let Some(cl) = h1.as_mut() {
            let mut w = Box::pin(cl.io.write_all(&piece));
            matches!(door::until(&mut w, Duration::from_millis(150)).await, Some(Ok(())))
        } else {
            let s = st.as_mut().unwrap();
            s.tx.reserve_capacity(piece.len());
            let cap = {
                let mut f = Box::pin(std::future::poll_fn(|cx| s.tx.poll_capacity(cx)));
                door::until(&mut f, Duration::from_millis(150)).await
            };
            match cap {
                Some(Some(Ok(n))) if n > 0 => s.tx.send_data(bytes::Bytes::copy_from_slice(&piece[..n.min(piece.len())]), false).is_ok(),
                _ => false,
            }
        };
        if !took {
            break;
        }
        uploaded += piece.len();
    }
    // the destination answers although it has not read the upload
    let down = pattern(3000, 42);
    {
        let mut w = Box::pin(ds.write_all(&down));
        door::until(&mut w, Duration::from_secs(2)).await;
    }
    let mut got = vec![];
    let t0 = std::time::Instant::now();
    while got.len() < down.len() && t0.elapsed() < Duration::from_secs(3) {
        if let Some(cl) = h1.as_mut() {
            cl.pump(20).await;
            got = cl.inbuf.clone();
            if cl.eof {
                break;
            }
        }
        if let Some(s) = st.as_mut() {
            let (b, ended, _) = s.body(20).await;
            got.extend_from_slice(&b);
            if ended {
                break;
            }
        }
    }
    let intact = down.starts_with(&got);
    drop(ds);
    drop(h1);
    drop(st);
    drop(keep);
    d.task.abort();
    Ok((uploaded, got.len(), intact))
}


/// An HTTP/2 client aborts its stream (RST_STREAM with an error code) in the middle of an upload,
/// the destination is silent: that is a failure of the client side, so the whole tunnel is torn down
/// (the outbound connection is released) - not a clean end of the upload with the other direction
/// left open.
async fn client_abort_case(reason: u32) -> Result<(bool, i64), String> {
    let dst = tokio::net::TcpListener::bind("127.0.0.1:0").await.map_err(|e| e.to_string())?;
    let daddr = dst.local_addr().unwrap();
    let world = make_world(&Cfg { allow_private: true, clients: vec![("u".into(), "p".into())], ..Cfg::default() })?;
    let peer: SocketAddr = "198.51.100.7:40000".parse().unwrap();
    let (io, _d) = door::open(&world.ctx, VProtocol::Http2, "m.t", None, peer, 1 << 16);
    let spec = ReqSpec::connect(&daddr.to_string()).with_auth(Some(b"Basic dTpw".to_vec()));
    let mut cl = H2Client::connect(io).await?;
    let mut st = cl.request(spec.h2_request()?, false).await?;
    let mut acc = Box::pin(dst.accept());
    let Some(Ok((mut ds, _))) = door::until(&mut acc, Duration::from_secs(3)).await else {
        return Err("the destination was not connected".into());
    };
    drop(acc);
    let _ = ds.set_linger(Some(Duration::ZERO));
    if !matches!(st.response(Duration::from_secs(3)).await, H2Outcome::Response(ref r) if r.status == 200) {
        return Err("CONNECT was not answered 200".into());
    }
    let _ = st.tx.send_data(bytes::Bytes::from(vec![0x61u8; 3000]), false);
    let mut got = 0usize;
    let mut tmp = [0u8; 4096];
    let t0 = std::time::Instant::now();
    while got < 3000 && t0.elapsed() < Duration::from_secs(3) {
        let mut r = Box::pin(ds.read(&mut tmp));
        match door::until(&mut r, Duration::from_millis(500)).await {
            Some(Ok(n)) if n > 0 => got += n,
            _ => break,
        }
    }
    if got < 3000 {
        return Err(format!("the destination received {got} of 3000 uploaded bytes"));
    }
    if vh::metrics_snapshot(&world.ctx).outbound_tcp_sockets != 1 {
        return Err("outbound_tcp_sockets is not 1 on an open tunnel".into());
    }
    st.tx.send_reset(h2::Reason::from(reason));
    // the destination sees its connection end ...
    let mut ended = false;
    let t0 = std::time::Instant::now();
    while !ended && t0.elapsed() < Duration::from_secs(3) {
        let mut r = Box::pin(ds.read(&mut tmp));
        match door::until(&mut r, Duration::from_millis(200)).await {
            Some(Ok(0)) | Some(Err(_)) => ended = true,
            _ => {}
        }
    }
    // ... and the endpoint has let go of it
    door::spin(50).await;
    let gauge = vh::metrics_snapshot(&world.ctx).outbound_tcp_sockets;
    drop(cl);
    Ok((ended, gauge))
}

fn cases() -> Vec<Case> {
    let mut v = vec![];
    for h2 in [false, true] {
        for down in [0usize, 5, 3000, 200_000] {
            for end in ["fin", "rst"] {
                for client in ["reads", "upload-then-half-close", "upload-keeps-open"] {
                    v.push(Case { h2, down, end: end.into(), client: client.into() });
                }
            }
        }
    }
    v
}

pub fn run_into(rep: &mut Report, _tier: Tier) {
    let cs = cases();
    let r = sweep_dyn(cs.len() as u64, 1, Duration::from_secs(300), rt::workers(), |i| {
        let c = &cs[i as usize];
        let _g = crate::engine::watch::enter(format!("C02:door:wedged:{}", if c.h2 { "h2" } else { "h1" }), json!({"kind":"door","case":c}).to_string());
        let o = rt::run_real(run_case(c)).map_err(|e| Violation::new("C02:machinery", e, json!({"kind":"door","case":c})))?;
        if std::env::var_os("VERIF_DEBUG").is_some() {
            eprintln!("door {c:?}: status {:?} to_client {} end {} to_dst {} fin {}", o.status, o.to_client.len(), o.client_end, o.to_destination.len(), o.destination_saw_fin);
        }
        judge(c, &o)
    });
    rep.sub.push(json!({"sub":"door-endings","cases":r.evaluations,"completed":r.completed,"classes":r.classes.iter().map(|(k, v)| format!("{k}={}", v.0)).collect::<Vec<_>>(),
        "what":"real accept path + real TCP forwarder: {HTTP/1.1, HTTP/2} x destination sends {0, 5, 3000, 200000} bytes then {FIN, RST} x client {only reads, uploads 3000 bytes then half-closes, uploads and keeps open}; an HTTP/2 upload goes in three DATA frames, the middle one empty"}));
    rep.cov("door_ending_cases", r.evaluations);
    rep.violations(r.violations);
    for (name, reason) in [("cancel", 8u32), ("internal-error", 2)] {
        let case = json!({"kind":"door","client_abort":name});
        match rt::run_real(client_abort_case(reason)) {
            Err(e) => rep.violation(Violation::new("C02:machinery", e, case)),
            Ok((ended, gauge)) => {
                if !ended || gauge != 0 {
                    rep.violation(Violation::new(
                        format!("C02:door:client-abort-not-a-failure:{name}:h2"),
                        format!("the client reset its stream (RST_STREAM {name}) in mid-upload with a silent destination: destination saw its connection end = {ended}, outbound_tcp_sockets afterwards = {gauge} (the tunnel must be torn down, not left half-open)"),
                        case,
                    ));
                }
                rep.sub.push(json!({"sub":"door-client-abort","reason":name,"destination_connection_ended":ended,"outbound_tcp_sockets_after":gauge}));
            }
        }
    }
    for h2 in [false, true] {
        let p = if h2 { "h2" } else { "h1" };
        let case = json!({"kind":"door","stalled_upload":true,"h2":h2});
        match rt::run_real(stalled_upload_case(h2)) {
            Err(e) => rep.violation(Violation::new("C02:machinery", e, case)),
            Ok((uploaded, got, intact)) => {
                if got != 3000 || !intact {
                    rep.violation(Violation::new(
                        format!("C02:door:download-stalled-by-upload-backpressure:{p}"),
                        format!("the destination stopped reading after the client had uploaded {uploaded} bytes and then sent 3000 bytes: the client received {got} of them within 3 s (intact: {intact})"),
                        case,
                    ));
                }
                rep.sub.push(json!({"sub":"door-stalled-upload","protocol":p,"uploaded_before_stall":uploaded,"downloaded":got}));
            }
        }
    }
}

/// ad-hoc probe (not part of any verdict): does an active HTTP/1.1 tunnel survive the client
/// listener timeout? `ttv C02 --replay` with {"case":{"kind":"door","probe":"listener-timeout","h2":false}}
async fn probe_listener_timeout(h2: bool) -> Result<String, String> {
    let dst = tokio::net::TcpListener::bind("127.0.0.1:0").await.map_err(|e| e.to_string())?;
    let daddr = dst.local_addr().unwrap();
    let mut cfg = Cfg { allow_private: true, clients: vec![("u".into(), "p".into())], ..Cfg::default() };
    cfg.listener_timeout = Duration::from_secs(60);
    cfg.tcp_timeout = Duration::from_secs(100_000);
    let world = make_world(&cfg)?;
    let peer: SocketAddr = "198.51.100.7:40000".parse().unwrap();
    let (io, d) = door::open(&world.ctx, if h2 { VProtocol::Http2 } else { VProtocol::Http1 }, "m.t", None, peer, 1 << 16);
    let spec = ReqSpec::connect(&daddr.to_string()).with_auth(Some(b"Basic dTpw".to_vec()));
    let mut h1 = None;
    let mut st = None;
    let mut keep = None;
    if h2 {
        let mut cl = H2Client::connect(io).await?;
        st = Some(cl.request(spec.h2_request()?, false).await?);
        keep = Some(cl);
    } else {
        let mut cl = H1Client::new(io);
        cl.send(&spec.h1_bytes()).await;
        h1 = Some(cl);
    }
    let mut acc = Box::pin(dst.accept());
    let Some(Ok((mut ds, _))) = door::until(&mut acc, Duration::from_secs(3)).await else { return Err("no connect".into()) };
    drop(acc);
    if let Some(s) = st.as_mut() {
        let _ = s.response(Duration::from_secs(3)).await;
    }
    if let Some(cl) = h1.as_mut() {
        let _ = cl.response(Duration::from_secs(3)).await;
    }
    let mut delivered = 0usize;
    for round in 0..12 {
        // 12 x 10 s of virtual time, one byte each way every round
        for _ in 0..10 {
            tokio::time::advance(Duration::from_secs(1)).await;
            door::spin(10).await;
        }
        let mut w = Box::pin(ds.write_all(b"x"));
        let ok = matches!(door::until(&mut w, Duration::from_secs(1)).await, Some(Ok(())));
        drop(w);
        door::spin(40).await;
        let mut got = 0;
        if let Some(s) = st.as_mut() {
            let (b, ended, err) = s.body(20).await;
            got = b.len();
            if ended {
                return Ok(format!("stream ended in round {round} after {delivered} bytes ({err:?})"));
            }
        }
        if let Some(cl) = h1.as_mut() {
            cl.pump(20).await;
            got = cl.inbuf.len();
            cl.inbuf.clear();
            if cl.eof {
                return Ok(format!("connection closed in round {round} (t = {} s) after {delivered} bytes", (round + 1) * 10));
            }
        }
        if !ok || got == 0 {
            return Ok(format!("no delivery in round {round} after {delivered} bytes"));
        }
        delivered += got;
    }
    drop(keep);
    d.task.abort();
    Ok(format!("alive after 120 s with a 60 s listener timeout; {delivered} bytes delivered"))
}

pub fn replay(case: &serde_json::Value) -> Result<(), Violation> {
    if let Some(name) = case["client_abort"].as_str() {
        let reason = if name == "cancel" { 8 } else { 2 };
        let (ended, gauge) = rt::run_real(client_abort_case(reason)).map_err(|e| Violation::new("C02:machinery", e, json!({})))?;
        if !ended || gauge != 0 {
            return Err(Violation::new(format!("C02:door:client-abort-not-a-failure:{name}:h2"), format!("destination saw its connection end = {ended}, outbound_tcp_sockets afterwards = {gauge}"), case.clone()));
        }
        return Ok(());
    }
    if case["stalled_upload"].as_bool() == Some(true) {
        let h2 = case["h2"].as_bool().unwrap_or(false);
        let (uploaded, got, intact) = rt::run_real(stalled_upload_case(h2)).map_err(|e| Violation::new("C02:machinery", e, json!({})))?;
        if got != 3000 || !intact {
            return Err(Violation::new(format!("C02:door:download-stalled-by-upload-backpressure:{}", if h2 { "h2" } else { "h1" }), format!("uploaded {uploaded}, downloaded {got} of 3000 (intact: {intact})"), case.clone()));
        }
        return Ok(());
    }
    if case["probe"].as_str() == Some("listener-timeout") {
        let r = rt::run_paused(probe_listener_timeout(case["h2"].as_bool().unwrap_or(false)));
        eprintln!("probe: {r:?}");
        return Ok(());
    }
    let c: Case = serde_json::from_value(case["case"].clone()).map_err(|_| Violation::new("C02:machinery", "bad replay file", json!({})))?;
    let o = rt::run_real(run_case(&c)).map_err(|e| Violation::new("C02:machinery", e, json!({})))?;
    judge(&c, &o).map(|_| ())
}
