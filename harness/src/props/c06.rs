//! C06 — UDP multiplexer wire codec: exact, segmentation-invariant, resynchronising.
//!
//! Every sequence of <= 2 (quick) / <= 3 (thorough) records over a 15-record alphabet (valid and
//! unacceptable ones), every 1- and 2-cut segmentation (3-cuts for short streams, structural cuts
//! for the 64 KiB ones) and byte-at-a-time delivery, through the production decoder driven exactly
//! as `DatagramDecoder::read` drives it; oracle = a one-shot decoder written from PROTOCOL.md.

use crate::engine::explore::sweep_dyn;
use crate::engine::report::{Report, Tier, Violation};
use crate::engine::rt;
use bytes::Bytes;
use serde_json::json;
use std::borrow::Cow;
use std::collections::VecDeque;
use std::net::{IpAddr, Ipv4Addr, Ipv6Addr, SocketAddr};
use std::time::Duration;
use trusttunnel::verif_hooks::{self as vh, VUdpIn};

const HDR: usize = 37; // 2 x (16 + 2) + 1, PROTOCOL.md 6.3
const MAX_UDP_PAYLOAD: usize = 65_507;

pub const KINDS: [&str; 17] = [
    "valid-v4",
    "valid-v6",
    "dst-v6-loopback",
    "dst-all-zero",
    "src-v4-mapped-v6",
    "name0-payload0",
    "name1-payload1",
    "name255",
    "payload0-with-name",
    "payload-64k",
    "nonutf8-name",
    "len-0",
    "len-1",
    "len-36",
    "len-too-large",
    "len-short-for-name",
    "name-multibyte-utf8",
];

fn put_ip(out: &mut Vec<u8>, ip: IpAddr) {
    match ip {
        IpAddr::V4(a) => {
            out.extend_from_slice(&[0; 12]);
            out.extend_from_slice(&a.octets());
        }
        IpAddr::V6(a) => out.extend_from_slice(&a.octets()),
    }
}

fn record(src: SocketAddr, dst: SocketAddr, name: &[u8], payload: &[u8], len_override: Option<u32>) -> Vec<u8> {
    let mut out = Vec::with_capacity(4 + HDR + name.len() + payload.len());
    let len = (HDR + name.len() + payload.len()) as u32;
    out.extend_from_slice(&len_override.unwrap_or(len).to_be_bytes());
    put_ip(&mut out, src.ip());
    out.extend_from_slice(&src.port().to_be_bytes());
    put_ip(&mut out, dst.ip());
    out.extend_from_slice(&dst.port().to_be_bytes());
    out.push(name.len() as u8);
    out.extend_from_slice(name);
    out.extend_from_slice(payload);
    out
}

pub fn build_record(src: SocketAddr, dst: SocketAddr, name: &[u8], payload: &[u8]) -> Vec<u8> {
    record(src, dst, name, payload, None)
}

/// the bytes of record `kind` at position `pos` of a sequence (the payload carries `pos`)
pub fn build(kind: usize, pos: u8) -> Vec<u8> {
    let s4: SocketAddr = "10.0.0.1:1000".parse().unwrap();
    let d4: SocketAddr = "8.8.8.8:53".parse().unwrap();
    let s6: SocketAddr = "[fd00::1]:1".parse().unwrap();
    let d6: SocketAddr = "[2001:4860:4860::8888]:443".parse().unwrap();
    let pl = [b'p', pos, 0x00, 0x00, 0x00, 0x25];
    match KINDS[kind] {
        "valid-v4" => record(s4, d4, b"app", &pl, None),
        "valid-v6" => record(s6, d6, b"", &pl[..3], None),
        "dst-v6-loopback" => record(s6, "[::1]:7".parse().unwrap(), b"a", &pl, None),
        "dst-all-zero" => record(s4, "[::]:9".parse().unwrap(), b"a", &pl, None),
        // an IPv6 address that embeds an IPv4 one is still an IPv6 address (PROTOCOL.md 11.2)
        "src-v4-mapped-v6" => record("[::ffff:192.0.2.1]:1234".parse().unwrap(), "[::1:808:808]:53".parse().unwrap(), b"m", &pl, None),
        "name0-payload0" => record(s4, d4, b"", b"", None),
        "name1-payload1" => record(s4, d4, b"n", &[pos], None),
        "name255" => record(s4, d4, &[b'x'; 255], &pl, None),
        "payload0-with-name" => record(s6, d6, b"zero", b"", None),
        "payload-64k" => {
            let mut p = vec![pos; 65_000];
            p[0] = b'B';
            record(s4, d4, b"big", &p, None)
        }
        "nonutf8-name" => record(s4, d4, &[0xff, 0xfe], &pl, None),
        "len-0" => 0u32.to_be_bytes().to_vec(),
        "len-1" => vec![0, 0, 0, 1, 0x00],
        "len-36" => {
            let mut v = 36u32.to_be_bytes().to_vec();
            v.extend_from_slice(&[0u8; 36]);
            v
        }
        "len-too-large" => {
            // payload one byte more than any UDP datagram can carry
            let p = vec![0u8; MAX_UDP_PAYLOAD + 1];
            record(s4, d4, b"", &p, None)
        }
        // cuts inside a multi-byte character must not make the name invalid
        "name-multibyte-utf8" => record(s4, d4, "\u{e9}\u{1f600}x\u{20ac}".as_bytes(), &pl, None),
        "len-short-for-name" => {
            // declares a 10-byte name but a total length that leaves room for 5 bytes after the header
            let mut v = record(s4, d4, &[b'y'; 10], b"", Some((HDR + 5) as u32));
            v.truncate(4 + HDR + 5);
            v
        }
        _ => unreachable!(),
    }
}

fn get_ip(b: &[u8]) -> IpAddr {
    // PROTOCOL.md 11.2: IPv4 iff the first 12 bytes are zero and the address is not ::1
    let a: [u8; 16] = b[..16].try_into().unwrap();
    if a[..12].iter().all(|x| *x == 0) && a != Ipv6Addr::LOCALHOST.octets() {
        IpAddr::V4(Ipv4Addr::new(a[12], a[13], a[14], a[15]))
    } else {
        IpAddr::V6(Ipv6Addr::from(a))
    }
}

/// One-shot reference decoder over a complete byte stream (PROTOCOL.md 6.3, 11.2 + the statement's
/// three refusal reasons). Returns the datagrams and, for each, the offset of its record.
pub fn ref_decode(s: &[u8]) -> Vec<(usize, VUdpIn)> {
    let mut out = vec![];
    let mut pos = 0usize;
    while s.len() - pos >= 4 {
        let len = u32::from_be_bytes(s[pos..pos + 4].try_into().unwrap()) as usize;
        if s.len() - pos - 4 < len {
            break; // incomplete record at the end of the stream
        }
        let body = &s[pos + 4..pos + 4 + len];
        let start = pos;
        pos += 4 + len;
        if len < HDR {
            continue; // shorter than its own header
        }
        let l = body[36] as usize;
        if len < HDR + l {
            continue;
        }
        let payload_len = len - HDR - l;
        if payload_len > MAX_UDP_PAYLOAD {
            continue; // larger than a UDP payload allows
        }
        let Ok(name) = std::str::from_utf8(&body[HDR..HDR + l]) else {
            continue;
        };
        out.push((
            start,
            VUdpIn {
                source: SocketAddr::new(get_ip(&body[0..16]), u16::from_be_bytes([body[16], body[17]])),
                destination: SocketAddr::new(get_ip(&body[18..34]), u16::from_be_bytes([body[34], body[35]])),
                app_name: Some(name.to_string()),
                payload: body[HDR + l..].to_vec(),
            },
        ));
    }
    out
}

/// Drive the production decoder exactly as `DatagramDecoder::read` does.
pub fn impl_decode(stream: &Bytes, cuts: &[usize]) -> Result<Vec<VUdpIn>, String> {
    super::guarded(|| {
        let mut dec = vh::VUdpDecoder::new();
        let mut out = vec![];
        let mut pending: VecDeque<Bytes> = VecDeque::new();
        let mut prev = 0usize;
        let mut bounds: Vec<usize> = cuts.to_vec();
        bounds.push(stream.len());
        for b in bounds {
            if b == prev {
                continue;
            }
            pending.push_back(stream.slice(prev..b));
            prev = b;
            while let Some(chunk) = pending.pop_front() {
                if let Some((d, tail)) = dec.decode_chunk(chunk) {
                    if !tail.is_empty() {
                        pending.push_front(tail);
                    }
                    out.push(d);
                }
            }
        }
        out
    })
}

fn kind_at(offsets: &[(usize, usize)], off: usize) -> (String, String) {
    // offsets: (record start, kind)
    let idx = offsets.iter().position(|(o, _)| *o == off);
    match idx {
        Some(i) => (
            if i == 0 { "start".to_string() } else { KINDS[offsets[i - 1].1].to_string() },
            KINDS[offsets[i].1].to_string(),
        ),
        None => ("?".into(), "?".into()),
    }
}

fn judge(
    seq: &[usize],
    offsets: &[(usize, usize)],
    expected: &[(usize, VUdpIn)],
    got: &Result<Vec<VUdpIn>, String>,
    cuts: &[usize],
) -> Result<(), Violation> {
    let case = json!({"kind":"decode","seq": seq.iter().map(|k| KINDS[*k]).collect::<Vec<_>>(), "cuts": cuts});
    let cutdep = if cuts.is_empty() { "uncut" } else { "cut" };
    let got = match got {
        Err(p) => {
            let last = seq.last().map(|k| KINDS[*k]).unwrap_or("-");
            return Err(Violation::new(
                format!("C06:decode:panic:{}", p.split(|c: char| c.is_ascii_digit()).next().unwrap_or("").trim()),
                format!("decoder panicked ({p}) on {case}; last record {last}"),
                case,
            ));
        }
        Ok(g) => g,
    };
    for (j, (off, e)) in expected.iter().enumerate() {
        match got.get(j) {
            Some(g) if g == e => {}
            other => {
                let (prev, this) = kind_at(offsets, *off);
                let how = match other {
                    None => "missing",
                    Some(g) if expected.iter().skip(j + 1).any(|(_, e2)| e2 == g) => "lost",
                    Some(_) => "different",
                };
                let detail = match other {
                    Some(g) if how == "different" => {
                        if g.source != e.source || g.destination != e.destination {
                            ":address"
                        } else if g.app_name != e.app_name {
                            ":name"
                        } else {
                            ":payload"
                        }
                    }
                    _ => "",
                };
                let prev_class = match prev.as_str() {
                    "nonutf8-name" | "len-0" | "len-1" | "len-36" | "len-too-large" | "len-short-for-name" => {
                        format!("after-skipped-{prev}")
                    }
                    _ => "after-accepted".to_string(),
                };
                return Err(Violation::new(
                    format!("C06:decode:{how}{detail}:this={this}:{prev_class}:{cutdep}"),
                    format!(
                        "datagram #{j} ({this}, after {prev}) {how}: expected {} -> {} name {:?} {}B, got {}",
                        e.source,
                        e.destination,
                        e.app_name,
                        e.payload.len(),
                        match other {
                            None => "nothing".to_string(),
                            Some(g) => format!("{} -> {} name {:?} {}B", g.source, g.destination, g.app_name, g.payload.len()),
                        }
                    ),
                    case,
                ));
            }
        }
    }
    if got.len() > expected.len() {
        let prev = seq.last().map(|k| KINDS[*k]).unwrap_or("-");
        return Err(Violation::new(
            format!("C06:decode:extra:after={prev}:{cutdep}"),
            format!("{} datagram(s) decoded beyond the {} encoded", got.len() - expected.len(), expected.len()),
            case,
        ));
    }
    Ok(())
}

struct Stream {
    seq: Vec<usize>,
    bytes: Bytes,
    offsets: Vec<(usize, usize)>,
    expected: Vec<(usize, VUdpIn)>,
    /// field boundaries (+-1) of every record
    structural: Vec<usize>,
}

fn make_stream(seq: &[usize]) -> Stream {
    let mut v = Vec::new();
    let mut offsets = vec![];
    let mut structural = vec![];
    for (p, k) in seq.iter().enumerate() {
        let r = build(*k, p as u8);
        let o = v.len();
        offsets.push((o, *k));
        for f in [0usize, 4, 20, 22, 38, 40, 41] {
            for d in [-1i64, 0, 1] {
                let x = o as i64 + f as i64 + d;
                if x > 0 {
                    structural.push(x as usize);
                }
            }
        }
        if r.len() > 41 {
            let l = r[40] as usize;
            for x in [o + 41 + l, o + 41 + l + 1, o + r.len() - 1] {
                structural.push(x);
            }
        }
        v.extend_from_slice(&r);
    }
    let n = v.len();
    structural.retain(|x| *x > 0 && *x < n);
    structural.sort();
    structural.dedup();
    let expected = ref_decode(&v);
    Stream {
        seq: seq.to_vec(),
        bytes: Bytes::from(v),
        offsets,
        expected,
        structural,
    }
}

/// all segmentations explored for one stream; returns (runs, first violation per signature)
fn explore_stream(st: &Stream, tier: Tier) -> (u64, Vec<Violation>) {
    let n = st.bytes.len();
    let mut runs = 0u64;
    let mut viol: Vec<Violation> = vec![];
    let mut seen_sig = std::collections::HashSet::new();
    let mut run = |cuts: &[usize], viol: &mut Vec<Violation>| {
        runs += 1;
        let got = impl_decode(&st.bytes, cuts);
        if let Err(v) = judge(&st.seq, &st.offsets, &st.expected, &got, cuts) {
            if seen_sig.insert(v.signature.clone()) {
                viol.push(v);
            }
        }
    };
    run(&[], &mut viol);
    let small = n <= 400;
    let points: Vec<usize> = if small { (1..n).collect() } else { st.structural.clone() };
    // 1-cuts
    for a in &points {
        run(&[*a], &mut viol);
    }
    // 2-cuts
    for (i, a) in points.iter().enumerate() {
        for b in &points[i + 1..] {
            run(&[*a, *b], &mut viol);
        }
    }
    // 3-cuts: exhaustively for short streams (thorough), structural otherwise
    let p3: Vec<usize> = if n < 120 && tier == Tier::Thorough {
        (1..n).collect()
    } else if tier == Tier::Thorough {
        st.structural.clone()
    } else {
        vec![]
    };
    if p3.len() <= 200 {
        for i in 0..p3.len() {
            for j in i + 1..p3.len() {
                for k in j + 1..p3.len() {
                    run(&[p3[i], p3[j], p3[k]], &mut viol);
                }
            }
        }
    }
    // byte at a time
    if n <= 2000 {
        let all: Vec<usize> = (1..n).collect();
        run(&all, &mut viol);
    }
    (runs, viol)
}

fn sequences(max_len: usize) -> Vec<Vec<usize>> {
    let k = KINDS.len();
    let mut out: Vec<Vec<usize>> = vec![];
    for len in 1..=max_len {
        let total = k.pow(len as u32);
        for mut i in 0..total {
            let mut s = Vec::with_capacity(len);
            for _ in 0..len {
                s.push(i % k);
                i /= k;
            }
            // at most one 64 KiB record per sequence keeps streams manageable
            if s.iter().filter(|x| KINDS[**x] == "payload-64k" || KINDS[**x] == "len-too-large").count() > 1 {
                continue;
            }
            out.push(s);
        }
    }
    out
}

fn ref_encode(src: SocketAddr, dst: SocketAddr, payload: &[u8]) -> Vec<u8> {
    // PROTOCOL.md 6.4: big-endian length excluding itself, 16-byte zero-padded IPv4 addresses
    let mut out = Vec::new();
    out.extend_from_slice(&((36 + payload.len()) as u32).to_be_bytes());
    put_ip(&mut out, src.ip());
    out.extend_from_slice(&src.port().to_be_bytes());
    put_ip(&mut out, dst.ip());
    out.extend_from_slice(&dst.port().to_be_bytes());
    out.extend_from_slice(payload);
    out
}

fn check_encoder(rep: &mut Report) {
    let ips: Vec<IpAddr> = ["1.2.3.4", "0.0.0.0", "255.255.255.255", "2001:db8::1", "::1", "fe80::1"]
        .iter()
        .map(|s| s.parse().unwrap())
        .collect();
    let ports = [0u16, 1, 53, 65535];
    let lens = [0usize, 1, 1200, 65_471, 65_507];
    let mut n = 0u64;
    let mut classes = std::collections::BTreeSet::new();
    for s in &ips {
        for d in &ips {
            for sp in ports {
                for dp in ports {
                    for l in lens {
                        let payload: Vec<u8> = (0..l).map(|i| (i % 251) as u8).collect();
                        let src = SocketAddr::new(*s, sp);
                        let dst = SocketAddr::new(*d, dp);
                        let got = vh::udp_encode(src, dst, Bytes::from(payload.clone()));
                        let want = ref_encode(src, dst, &payload);
                        n += 1;
                        classes.insert((s.is_ipv4(), d.is_ipv4(), l));
                        if got.as_deref() != Some(&want[..]) {
                            rep.violation(Violation::new(
                                format!("C06:encode:{}-{}:len{}", if s.is_ipv4() {"v4"} else {"v6"}, if d.is_ipv4() {"v4"} else {"v6"}, l.min(2)),
                                format!("encoding of {src} -> {dst} with {l}B payload differs from PROTOCOL.md 6.4"),
                                json!({"kind":"encode","src":src.to_string(),"dst":dst.to_string(),"len":l}),
                            ));
                        }
                    }
                }
            }
        }
    }
    rep.add("evaluations", n);
    rep.add("distinct_nontrivial", classes.len() as u64);
    rep.sub.push(json!({"sub":"encoder","cases":n,"classes":classes.len()}));
}


// ------------------------------------------------------------------------------------------------
// 6.4 records towards an HTTP/2 client whose flow-control window is nearly exhausted: a datagram
// that does not fit is dropped as a whole - what the client reads is a sequence of complete records
// ------------------------------------------------------------------------------------------------

async fn h2_window_case(window: u32, payload_len: usize, burst: u8) -> Result<&'static str, Violation> {
    use super::common::{make_world, Cfg};
    use super::door::{self, H2Client, H2Outcome, ReqSpec};
    let case = json!({"kind":"h2-window","window":window,"payload_len":payload_len,"burst":burst});
    let mach = |e: String| Violation::new("C06:machinery", e, json!({}));
    let mk = |sig: &str, what: String| Violation::new(format!("C06:h2-window:{sig}"), format!("{what}; client stream window {window}, {burst} datagrams of {payload_len} bytes while the client does not read"), case.clone());
    let world = make_world(&Cfg { allow_private: true, clients: vec![("u".into(), "p".into())], ..Cfg::default() }).map_err(mach)?;
    let peer_sock = tokio::net::UdpSocket::bind("127.0.0.1:0").await.map_err(|e| mach(e.to_string()))?;
    let peer_addr = peer_sock.local_addr().unwrap();
    let client_addr: SocketAddr = "198.51.100.7:40000".parse().unwrap();
    let (io, d) = door::open(&world.ctx, vh::VProtocol::Http2, "m.t", None, client_addr, 1 << 20);
    let mut cl = H2Client::connect_with(io, Some(window)).await.map_err(mach)?;
    let spec = ReqSpec::connect("_udp2").with_auth(Some(b"Basic dTpw".to_vec()));
    let mut st = cl.request(spec.h2_request().map_err(mach)?, false).await.map_err(mach)?;
    match st.response(Duration::from_secs(3)).await {
        H2Outcome::Response(r) if r.status == 200 => {}
        other => return Err(mach(format!("CONNECT _udp2 answered {other:?}"))),
    }
    let src: SocketAddr = "10.1.2.3:5000".parse().unwrap();
    st.tx.send_data(Bytes::from(build_record(src, peer_addr, b"app", b"hi")), false).map_err(|e| mach(e.to_string()))?;
    let mut tmp = vec![0u8; 2048];
    let flow_addr = {
        let mut r = Box::pin(peer_sock.recv_from(&mut tmp));
        match door::until(&mut r, Duration::from_secs(3)).await {
            Some(Ok((_, from))) => from,
            _ => return Err(mach("the client's datagram did not reach the peer".into())),
        }
    };
    // the burst, while the client reads nothing
    for k in 1..=burst {
        let _ = peer_sock.send_to(&vec![k; payload_len], flow_addr).await;
        tokio::time::sleep(Duration::from_millis(3)).await;
    }
    tokio::time::sleep(Duration::from_millis(50)).await;
    // the client reads what was sent (the window reopens), then one more datagram
    let mut got = vec![];
    let (b, _, _) = st.body(200).await;
    got.extend_from_slice(&b);
    let last = burst + 1;
    let _ = peer_sock.send_to(&vec![last; payload_len], flow_addr).await;
    let rec_len = 4 + 36 + payload_len;
    let t0 = std::time::Instant::now();
    while t0.elapsed() < Duration::from_secs(2) {
        let (b, ended, _) = st.body(50).await;
        got.extend_from_slice(&b);
        if ended || (got.len() >= rec_len && got[got.len() - 1] == last && got.len() % rec_len == 0) {
            break;
        }
        tokio::time::sleep(Duration::from_millis(5)).await;
    }
    d.task.abort();
    // every record is the 6.4 encoding of one of the datagrams, whole
    let mut markers = vec![];
    let mut off = 0;
    while off < got.len() {
        let rest = &got[off..];
        let marker = rest.get(4 + 36).copied().unwrap_or(0);
        let expect = vh::udp_encode(peer_addr, src, Bytes::from(vec![marker; payload_len])).map(|b| b.to_vec()).unwrap_or_default();
        if rest.len() < expect.len() || rest[..expect.len()] != expect[..] || marker == 0 || marker > last {
            return Err(mk("truncated-or-glued-record", format!("after {} complete record(s) (markers {markers:?}) the client's stream continues with {} bytes that are not a complete 6.4 record (starts {})", markers.len(), rest.len(), hex::encode(&rest[..rest.len().min(12)]))));
        }
        markers.push(marker);
        off += expect.len();
    }
    if markers.first() != Some(&1) || markers.last() != Some(&last) || markers.windows(2).any(|w| w[0] >= w[1]) {
        return Err(mk("records-missing-or-reordered", format!("the client received the datagrams {markers:?}; the first of the burst fits the window and the one sent after the window reopened must arrive")));
    }
    Ok(if markers.len() < last as usize { "some-dropped-whole" } else { "all-delivered" })
}

fn h2_window_into(rep: &mut Report) {
    let mut classes = std::collections::BTreeSet::new();
    let mut n = 0u64;
    for (window, payload_len) in [(1500u32, 1000usize), (1500, 700), (3000, 1000), (70_000, 1000), (600, 1000)] {
        n += 1;
        // with a window smaller than one record nothing of the burst fits: skip the "first fits" case
        if (window as usize) < 4 + 36 + payload_len {
            continue;
        }
        match super::guarded(|| rt::run_real(h2_window_case(window, payload_len, 4))) {
            Ok(Ok(c)) => {
                classes.insert(format!("{window}:{payload_len}:{c}"));
            }
            Ok(Err(v)) => rep.violation(v),
            Err(p) => rep.violation(Violation::new("C06:h2-window:panic", p, json!({"kind":"h2-window","window":window,"payload_len":payload_len,"burst":4}))),
        }
    }
    rep.add("evaluations", n);
    rep.sub.push(json!({"sub":"h2-window-records","scenarios":n,"classes":classes,
        "what":"_udp2 over HTTP/2 with a client stream window of {1500, 3000, 70000} bytes, a burst of 4 datagrams (700 / 1000 bytes) from a real UDP peer while the client does not read, one more after it has read: the client's stream is a sequence of complete 6.4 records (a datagram that does not fit is dropped whole)"}));
}

pub fn run(tier: Tier) -> i32 {
    crate::engine::watch::start("C06", tier.name(), Duration::from_secs(20), crate::engine::watch::OnExpiry::Violation);
    let mut rep = Report::new("C06", tier, "exploration");
    let seqs = sequences(tier.pick(2, 3));
    let nseq = seqs.len() as u64;
    let r = sweep_dyn(nseq, 1, Duration::from_secs(1500), rt::workers(), |i| {
        let st = make_stream(&seqs[i as usize]);
        let names: Vec<&str> = st.seq.iter().map(|k| KINDS[*k]).collect();
        let _g = crate::engine::watch::enter(
            format!("C06:decode:wedged:after={}", names.first().copied().unwrap_or("-")),
            json!({"kind":"decode","seq":names,"cuts":[]}).to_string(),
        );
        if std::env::var_os("VERIF_DEBUG").is_some() {
            eprintln!("stream {:?} len {}", st.seq.iter().map(|k| KINDS[*k]).collect::<Vec<_>>(), st.bytes.len());
        }
        let (runs, viol) = explore_stream(&st, tier);
        RUNS.fetch_add(runs, std::sync::atomic::Ordering::Relaxed);
        match viol.into_iter().next() {
            Some(v) => Err(v),
            None => Ok(Cow::Owned(format!("{}dgrams", st.expected.len()))),
        }
    });
    // collect all violations (one per stream suffices for the signature set)
    let runs = RUNS.load(std::sync::atomic::Ordering::Relaxed);
    rep.add("evaluations", runs);
    rep.cov("streams", nseq);
    rep.cov("decoder_runs", runs);
    rep.add("distinct_nontrivial", nseq.min(r.evaluations));
    rep.cov("exhaustive", r.completed);
    rep.violations(r.violations);
    check_encoder(&mut rep);
    rep.cov("rule", format!("every sequence of <= {} records over {} kinds {:?}; per stream: unsegmented, every 1-cut and 2-cut (all byte positions for streams <= 400 B, field boundaries +-1 for the 64 KiB ones), 3-cuts (thorough; exhaustive < 120 B), byte-at-a-time; distinct = record sequences; encoder: 6x6 addresses x 4x4 ports x 5 payload lengths", tier.pick(2, 3), KINDS.len(), KINDS));
    rep.sample(json!({"seq":["nonutf8-name","valid-v4"],"cuts":[41, 52]}));
    rep.sample(json!({"seq":["len-0","valid-v6","name0-payload0"],"cuts":"byte-at-a-time"}));
    rep.assume("acceptance bounds between the implementation's limit and 65507 payload bytes are not exercised (the documentation does not fix the limit)");
    h2_window_into(&mut rep);
    rep.finish()
}

static RUNS: std::sync::atomic::AtomicU64 = std::sync::atomic::AtomicU64::new(0);

pub fn replay(case: &serde_json::Value) -> Result<(), Violation> {
    let bad = || Violation::new("C06:machinery", "bad replay file", json!({}));
    match case["kind"].as_str() {
        Some("h2-window") => rt::run_real(h2_window_case(case["window"].as_u64().unwrap_or(1500) as u32, case["payload_len"].as_u64().unwrap_or(1000) as usize, case["burst"].as_u64().unwrap_or(4) as u8)).map(|_| ()),
        Some("decode") => {
            let seq: Vec<usize> = case["seq"]
                .as_array()
                .ok_or_else(bad)?
                .iter()
                .map(|k| KINDS.iter().position(|x| Some(*x) == k.as_str()).ok_or_else(bad))
                .collect::<Result<_, _>>()?;
            let cuts: Vec<usize> = case["cuts"]
                .as_array()
                .ok_or_else(bad)?
                .iter()
                .map(|c| c.as_u64().map(|x| x as usize).ok_or_else(bad))
                .collect::<Result<_, _>>()?;
            let st = make_stream(&seq);
            let got = impl_decode(&st.bytes, &cuts);
            judge(&st.seq, &st.offsets, &st.expected, &got, &cuts)
        }
        _ => Err(bad()),
    }
}
