//! C08 — HTTP/1.1 transport: segmentation invariance, no spinning, bounded head buffering.
//!
//! The real accept path (Http1Codec + HttpDownstream + Tunnel + DirectForwarder) over a scripted
//! transport: a corpus of request heads (+ payload) is delivered under every 1- and 2-cut
//! segmentation (structural cuts for the ~1 KiB heads) and byte-at-a-time, the endpoint running to
//! quiescence between pieces. Oracle: the observable outcome (response, bytes reaching the
//! destination, bytes echoed back, closure) equals that of the one-piece delivery, which is checked
//! against an independent expectation; the transport is not polled in a loop while input is
//! outstanding; bytes pulled before a rejection stay within 1 KiB + one read.

use super::c01::{b64, USERS};
use super::common::{make_world, Cfg};
use super::door;
use crate::engine::explore::sweep_dyn;
use crate::engine::report::{Report, Tier, Violation};
use crate::engine::rt;
use crate::engine::sstream;
use crate::engine::sys::{self, HostAnswer};
use serde_json::json;
use std::borrow::Cow;
use std::net::SocketAddr;
use std::time::Duration;
use trusttunnel::verif_hooks::VProtocol;

pub const HEADS: [&str; 18] = [
    "connect-host", "connect-ip", "connect-udp2", "connect-check", "get-absolute", "get-origin-form-host",
    "headers-31", "headers-32", "headers-33", "head-1000B", "head-1023B", "head-1024B", "head-1025B", "head-1100B",
    "expect-on-connect", "http-2.0-version", "bare-lf", "header-without-colon",
];

const PAYLOAD: &[u8] = b"\x01\x02\x03\x04\x05\x06";

#[derive(Clone, Debug, PartialEq, Eq)]
enum Want {
    /// 200 then payload relayed to the destination and echoed back
    Tunnel,
    Ok200,
    /// forwarded as plain HTTP: the origin's answer comes back
    Forwarded,
    Status(u16),
    /// rejected: no success response; bounded buffering
    Rejected,
    /// the statement does not fix accept vs reject (over the size limit depending on reads)
    Unconstrained,
}

fn head(kind: &str, canary: SocketAddr, host: &str) -> (Vec<u8>, Want, bool) {
    let auth = format!("Proxy-Authorization: Basic {}\r\n", b64(USERS[0].0, USERS[0].1));
    let hp = format!("{host}:{}", canary.port());
    let connect = |extra: &str| format!("CONNECT {hp} HTTP/1.1\r\nHost: {hp}\r\n{auth}{extra}\r\n").into_bytes();
    let padded = |total: usize| -> Vec<u8> {
        let base = connect("X-Pad: \r\n").len();
        let pad = "p".repeat(total - base);
        connect(&format!("X-Pad: {pad}\r\n"))
    };
    let n_headers = |n: usize| -> Vec<u8> {
        // Host + Proxy-Authorization + (n - 2) extra headers
        let extra: String = (0..n - 2).map(|i| format!("X-H{i}: v\r\n")).collect();
        connect(&extra)
    };
    match kind {
        "connect-host" => (connect(""), Want::Tunnel, true),
        "connect-ip" => (format!("CONNECT {canary} HTTP/1.1\r\nHost: {canary}\r\n{auth}\r\n").into_bytes(), Want::Tunnel, true),
        "connect-udp2" => (format!("CONNECT _udp2 HTTP/1.1\r\nHost: _udp2\r\n{auth}\r\n").into_bytes(), Want::Ok200, false),
        "connect-check" => (format!("CONNECT _check HTTP/1.1\r\nHost: _check\r\n{auth}\r\n").into_bytes(), Want::Ok200, false),
        "get-absolute" => (format!("GET http://{hp}/p?q=1 HTTP/1.1\r\n{auth}Accept: */*\r\n\r\n").into_bytes(), Want::Forwarded, false),
        "get-origin-form-host" => (format!("GET /p?q=1 HTTP/1.1\r\nHost: {hp}\r\n{auth}Accept: */*\r\n\r\n").into_bytes(), Want::Forwarded, false),
        "headers-31" => (n_headers(31), Want::Tunnel, true),
        "headers-32" => (n_headers(32), Want::Tunnel, true),
        "headers-33" => (n_headers(33), Want::Rejected, true),
        "head-1000B" => (padded(1000), Want::Tunnel, true),
        "head-1023B" => (padded(1023), Want::Tunnel, true),
        "head-1024B" => (padded(1024), Want::Unconstrained, true),
        "head-1025B" => (padded(1025), Want::Unconstrained, true),
        "head-1100B" => (padded(1100), Want::Unconstrained, true),
        "expect-on-connect" => (connect("Expect: 100-continue\r\n"), Want::Status(417), false),
        "http-2.0-version" => (format!("CONNECT {hp} HTTP/2.0\r\nHost: {hp}\r\n{auth}\r\n").into_bytes(), Want::Rejected, false),
        "bare-lf" => (format!("CONNECT {hp} HTTP/1.1\nHost: {hp}\n{}\n", auth.trim_end()).into_bytes(), Want::Unconstrained, true),
        "header-without-colon" => (connect("BrokenHeader\r\n"), Want::Rejected, false),
        _ => unreachable!(),
    }
}

#[derive(Clone, Debug, PartialEq, Eq, Hash, serde::Serialize)]
pub struct Obs {
    status: Option<u16>,
    resp_headers: Vec<String>,
    /// bytes after the response head
    body: Vec<u8>,
    extra_heads: usize,
    to_destination: Vec<u8>,
    closed: bool,
    session_ended: bool,
}

#[derive(Clone, Debug, serde::Serialize, serde::Deserialize)]
pub struct Case {
    pub head: String,
    pub cuts: Vec<usize>,
    /// the client sends only the first `eof_at` bytes of the head (negative: the head less its last
    /// `-eof_at` bytes; always a proper prefix) and then closes its side
    #[serde(default, skip_serializing_if = "Option::is_none")]
    pub eof_at: Option<i64>,
}

struct RunOut {
    obs: Obs,
    spin: Option<u64>,
    pulled_before_end: usize,
    max_read_cap: usize,
    want: Want,
    stream_len: usize,
    with_payload: bool,
}

async fn run_one(c: &Case, tag: &str) -> Result<RunOut, String> {
    let cfg = Cfg { clients: USERS.iter().map(|(u, p)| (u.to_string(), p.to_string())).collect(), ..Cfg::default() };
    let world = make_world(&cfg)?;
    let canary = door::start_canary().await;
    let host = format!("h.{tag}.c08.test");
    sys::script_host(&host, HostAnswer::Addrs(vec!["127.0.0.1".parse().unwrap()]));
    let (mut bytes, mut want, with_payload) = head(&c.head, canary.addr, &host);
    if let Some(e) = c.eof_at {
        // an incomplete head followed by the end of the stream: never a request (the head's length
        // depends on the run's host tag, so the position is clamped to a proper prefix here)
        let hl = bytes.len() as i64;
        let p = if e < 0 { hl + e } else { e }.clamp(1, hl - 1);
        bytes.truncate(p as usize);
        want = Want::Rejected;
    } else if with_payload {
        bytes.extend_from_slice(PAYLOAD);
    }
    let (server, h) = sstream::pair();
    let peer: SocketAddr = "198.51.100.7:40000".parse().unwrap();
    let d = door::open_on(&world.ctx, VProtocol::Http1, "m.t", None, peer, server);
    let mut spin: Option<u64> = None;
    let mut prev = 0usize;
    let mut bounds = c.cuts.clone();
    bounds.push(bytes.len());
    // quiescence: nothing moved on the transport or at the destination for a while
    let settle = |h: sstream::Handle, canary_rx: std::sync::Arc<std::sync::Mutex<Vec<u8>>>| async move {
        let mut last = (h.progress(), canary_rx.lock().unwrap().len());
        let mut stable = 0;
        let t0 = std::time::Instant::now();
        while stable < 40 {
            tokio::task::yield_now().await;
            let now = (h.progress(), canary_rx.lock().unwrap().len());
            if now == last {
                stable += 1;
            } else {
                stable = 0;
                last = now;
            }
            if t0.elapsed() > Duration::from_secs(10) {
                break;
            }
        }
    };
    for b in bounds {
        if b <= prev || b > bytes.len() {
            continue;
        }
        h.push(&bytes[prev..b]);
        prev = b;
        settle(h.clone(), canary.received.clone()).await;
        // a connect to the canary may be in flight (resolver thread): wait for the answer to appear
        let polls = h.empty_read_polls();
        if polls > 8 {
            spin = Some(spin.unwrap_or(0).max(polls));
        }
    }
    // the resolver runs on another thread: give a pending request real time to complete
    let t0 = std::time::Instant::now();
    while c.eof_at.is_none() && h.out_len() == 0 && !h.is_shutdown() && t0.elapsed() < Duration::from_secs(3) {
        settle(h.clone(), canary.received.clone()).await;
        if matches!(want, Want::Rejected) && t0.elapsed() > Duration::from_millis(30) {
            break;
        }
    }
    settle(h.clone(), canary.received.clone()).await;
    let pulled_before_end = h.pulled();
    let max_read_cap = h.0.lock().unwrap().max_read_capacity;
    // the client goes away
    h.close();
    settle(h.clone(), canary.received.clone()).await;
    let out = h.take_out();
    let mut cl_buf = out.clone();
    let mut status = None;
    let mut resp_headers = vec![];
    let mut extra_heads = 0;
    {
        let mut headers = [httparse::EMPTY_HEADER; 64];
        let mut r = httparse::Response::new(&mut headers);
        if let Ok(httparse::Status::Complete(n)) = r.parse(&cl_buf) {
            status = r.code;
            resp_headers = r.headers.iter().map(|x| format!("{}: {}", x.name.to_ascii_lowercase(), String::from_utf8_lossy(x.value))).collect();
            resp_headers.sort();
            cl_buf.drain(..n);
        }
    }
    if matches!(want, Want::Forwarded) {
        // the origin's body follows; a second response head would be an extra final response
    } else if cl_buf.starts_with(b"HTTP/1.") {
        extra_heads += 1;
    }
    let mut task = d.task;
    let ended = {
        let mut f = Box::pin(&mut task);
        let mut done = false;
        for _ in 0..2000 {
            if door::poll_once(&mut f).await.is_some() {
                done = true;
                break;
            }
            tokio::task::yield_now().await;
        }
        done
    };
    if !ended {
        task.abort();
    }
    sys::unscript_host(&host);
    let to_destination = canary.received.lock().unwrap().clone();
    Ok(RunOut {
        obs: Obs { status, resp_headers, body: cl_buf, extra_heads, to_destination, closed: h.is_shutdown(), session_ended: ended },
        spin,
        pulled_before_end,
        max_read_cap,
        want,
        stream_len: bytes.len(),
        with_payload,
    })
}

fn normalise(mut o: Obs, tag: &str) -> Obs {
    // host names and ports differ between runs: compare modulo them
    let strip = |v: &mut Vec<u8>| {
        let s = String::from_utf8_lossy(v).into_owned();
        let s = s.replace(tag, "TAG");
        let mut out = String::new();
        let mut it = s.split("c08.test:").peekable();
        if let Some(first) = it.next() {
            out.push_str(first);
        }
        for part in it {
            out.push_str("c08.test:PORT");
            out.push_str(part.trim_start_matches(|c: char| c.is_ascii_digit()));
        }
        *v = out.into_bytes();
    };
    strip(&mut o.to_destination);
    strip(&mut o.body);
    o
}

fn judge_reference(c: &Case, r: &RunOut) -> Result<(), Violation> {
    let case = json!({"case": c});
    let o = &r.obs;
    let mk = |sig: String, what: String| Violation::new(sig, format!("{what}; head={} observed={o:?}", c.head), case.clone());
    match &r.want {
        Want::Tunnel => {
            if o.status != Some(200) {
                return Err(mk(format!("C08:valid-request-not-accepted:{}", c.head), format!("status {:?}", o.status)));
            }
            if o.to_destination != PAYLOAD {
                return Err(mk(format!("C08:payload-not-forwarded:{}", c.head), format!("destination received {:?}", o.to_destination)));
            }
            if o.body != PAYLOAD {
                return Err(mk(format!("C08:payload-not-relayed-back:{}", c.head), format!("client received {:?} after the response", o.body)));
            }
        }
        Want::Ok200 => {
            if o.status != Some(200) {
                return Err(mk(format!("C08:valid-request-not-accepted:{}", c.head), format!("status {:?}", o.status)));
            }
        }
        Want::Forwarded => {
            if o.status != Some(200) || !String::from_utf8_lossy(&o.to_destination).starts_with("GET /p?q=1 HTTP/1.1\r\n") {
                return Err(mk(format!("C08:plain-request-not-forwarded:{}", c.head), format!("status {:?}, origin saw {:?}", o.status, String::from_utf8_lossy(&o.to_destination))));
            }
        }
        Want::Status(s) => {
            if o.status != Some(*s) {
                return Err(mk(format!("C08:wrong-status:{}", c.head), format!("status {:?}, expected {s}", o.status)));
            }
        }
        Want::Rejected => {
            if o.status.map(|s| (200..300).contains(&s)).unwrap_or(false) || !o.to_destination.is_empty() {
                return Err(mk(format!("C08:invalid-request-accepted:{}", c.head), format!("status {:?}", o.status)));
            }
        }
        Want::Unconstrained => {}
    }
    if o.extra_heads > 0 {
        return Err(mk(format!("C08:second-response:{}", c.head), "more than one response head on the connection".into()));
    }
    if !o.session_ended {
        return Err(mk(format!("C08:session-survives-client-close:{}", c.head), "the session task is alive after the client closed".into()));
    }
    Ok(())
}

fn judge_common(c: &Case, r: &RunOut) -> Result<(), Violation> {
    let case = json!({"case": c});
    if let Some(p) = r.spin {
        return Err(Violation::new(
            format!("C08:spin-while-waiting:{}", if c.cuts.len() > 3 { "byte-at-a-time" } else { "cut" }),
            format!("the transport was polled {p} times for input that had not arrived (head {}, cuts {:?})", c.head, c.cuts),
            case,
        ));
    }
    let rejected = !r.obs.status.map(|s| (200..300).contains(&s)).unwrap_or(false);
    if rejected && r.stream_len > 1024 + r.max_read_cap && r.pulled_before_end > 1024 + r.max_read_cap {
        return Err(Violation::new(
            "C08:unbounded-head-buffering",
            format!("{} bytes were pulled from the transport before the head was rejected (limit 1024 + one read of {})", r.pulled_before_end, r.max_read_cap),
            case,
        ));
    }
    Ok(())
}

fn cuts_for(len: usize, head_len: usize, tier: Tier) -> Vec<Vec<usize>> {
    let mut v: Vec<Vec<usize>> = vec![];
    let pts: Vec<usize> = if len <= tier.pick(140, 260) {
        (1..len).collect()
    } else {
        // structural: around the request line end, header ends, the head end and the limit
        let mut p = vec![1, 2, 7, 8, 16, 17, head_len / 2, head_len - 5, head_len - 4, head_len - 3, head_len - 2, head_len - 1, head_len, head_len + 1, len - 1, 1000, 1022, 1023, 1024, 1025];
        p.retain(|x| *x > 0 && *x < len);
        p.sort();
        p.dedup();
        p
    };
    for a in &pts {
        v.push(vec![*a]);
    }
    let pts2: Vec<usize> = if tier == Tier::Quick && pts.len() > 40 {
        pts.iter().cloned().step_by(pts.len() / 40 + 1).chain([head_len - 2, head_len, len - 1].into_iter().filter(|x| *x > 0 && *x < len)).collect::<std::collections::BTreeSet<_>>().into_iter().collect()
    } else {
        pts.clone()
    };
    for (i, a) in pts2.iter().enumerate() {
        for b in &pts2[i + 1..] {
            v.push(vec![*a, *b]);
        }
    }
    if len <= 1300 {
        v.push((1..len).collect());
    }
    v
}

pub fn run(tier: Tier) -> i32 {
    crate::engine::watch::start("C08", tier.name(), Duration::from_secs(30), crate::engine::watch::OnExpiry::Violation);
    let mut rep = Report::new("C08", tier, "exploration");
    // reference runs (one piece) define the expected observation per head
    let mut work: Vec<(Case, Obs)> = vec![];
    let mut n_cases = 0u64;
    for hk in HEADS {
        let c0 = Case { head: hk.to_string(), cuts: vec![], eof_at: None };
        let _g = crate::engine::watch::enter(format!("C08:wedged:{hk}:one-piece"), json!({"case": c0}).to_string());
        let tag = format!("ref-{hk}");
        match rt::run_paused(run_one(&c0, &tag)) {
            Err(e) => {
                rep.violation(Violation::new("C08:machinery", e, json!({"case": c0})));
                continue;
            }
            Ok(r) => {
                if let Err(v) = judge_reference(&c0, &r).and_then(|_| judge_common(&c0, &r)) {
                    rep.violation(v);
                }
                let head_len = r.stream_len - if r.obs.to_destination == PAYLOAD || matches!(r.want, Want::Tunnel | Want::Rejected | Want::Unconstrained) && r.stream_len > PAYLOAD.len() { 0 } else { 0 };
                let reference = normalise(r.obs.clone(), &tag);
                for cuts in cuts_for(r.stream_len, head_len.saturating_sub(PAYLOAD.len()).max(8), tier) {
                    work.push((Case { head: hk.to_string(), cuts, eof_at: None }, reference.clone()));
                }
                // the client goes away in the middle of the head: every prefix (short heads) or the
                // structural positions (long heads), in one piece and byte at a time
                let full_head = r.stream_len - if r.with_payload { PAYLOAD.len() } else { 0 };
                let mut ends: Vec<usize> = if full_head <= tier.pick(140, 1200) {
                    (1..full_head).collect()
                } else {
                    let mut p = vec![1, 2, 7, 8, 16, 17, 40, full_head / 2, 1000, 1022, 1023, 1024, 1025, full_head - 5, full_head - 4, full_head - 3, full_head - 2, full_head - 1];
                    p.retain(|x| *x > 0 && *x < full_head);
                    p
                };
                ends.sort();
                ends.dedup();
                for (k, e) in ends.iter().enumerate() {
                    work.push((Case { head: hk.to_string(), cuts: vec![], eof_at: Some(*e as i64) }, reference.clone()));
                    if k % 7 == 0 && *e <= 300 {
                        work.push((Case { head: hk.to_string(), cuts: (1..*e).collect(), eof_at: Some(*e as i64) }, reference.clone()));
                    }
                }
                for back in 1..=tier.pick(8i64, 40i64) {
                    work.push((Case { head: hk.to_string(), cuts: vec![], eof_at: Some(-back) }, reference.clone()));
                }
                n_cases += 1;
            }
        }
    }
    let r = sweep_dyn(work.len() as u64, 4, Duration::from_secs(tier.pick(45, 1500)), rt::workers(), |i| {
        let (c, reference) = &work[i as usize];
        let kind = if c.eof_at.is_some() { "eof-in-mid-head" } else if c.cuts.len() > 3 { "byte-at-a-time" } else if c.cuts.len() == 2 { "2-cut" } else { "1-cut" };
        let _g = crate::engine::watch::enter(format!("C08:wedged:{}:{kind}", c.head), json!({"case": c}).to_string());
        let tag = format!("w{i}");
        let out = rt::run_paused(run_one(c, &tag)).map_err(|e| Violation::new("C08:machinery", e, json!({"case": c})))?;
        judge_common(c, &out)?;
        if let Some(e) = c.eof_at {
            // Want::Rejected: no success response, nothing forwarded, the session ends with its client
            judge_reference(c, &out).map_err(|mut v| {
                v.signature = format!("{}:eof-in-mid-head", v.signature);
                v
            })?;
            return Ok(Cow::Owned(format!("{}:eof@{}:{:?}", c.head, if (0..20).contains(&e) { "request-line" } else { "headers" }, out.obs.status)));
        }
        let got = normalise(out.obs.clone(), &tag);
        let unconstrained_limit = matches!(c.head.as_str(), "head-1024B" | "head-1025B" | "head-1100B");
        if got != *reference && !unconstrained_limit {
            let field = if got.status != reference.status { "status" } else if got.to_destination != reference.to_destination { "forwarded-bytes" } else if got.body != reference.body { "returned-bytes" } else if got.resp_headers != reference.resp_headers { "response-headers" } else { "closure" };
            return Err(Violation::new(
                format!("C08:segmentation-dependent:{field}:{}:{kind}", c.head),
                format!("head {} delivered with cuts {:?}: observed {got:?}, one-piece delivery gave {reference:?}", c.head, c.cuts),
                json!({"case": c}),
            ));
        }
        if unconstrained_limit {
            // whichever way the limit falls the outcome must be one of the two legitimate ones
            judge_reference(c, &out)?;
        }
        Ok(Cow::Owned(format!("{}:{:?}", c.head, got.status)))
    });
    rep.add("evaluations", r.evaluations + n_cases);
    rep.add("distinct_nontrivial", r.classes.len() as u64);
    rep.violations(r.violations);
    rep.cov("exhaustive", r.completed);
    rep.cov("rule", format!("{} request heads (+6 payload bytes) x every 1-cut and 2-cut (all byte positions for streams <= {} B, structural positions for the ~1 KiB heads) + byte-at-a-time; + the client closing after every proper prefix of the head (all positions for heads <= {} B, structural positions above; one piece and byte at a time): no success response, nothing forwarded, the session ends, no spin; distinct = (head, status) classes", HEADS.len(), tier.pick(140, 260), tier.pick(140, 1200)));
    rep.sample(json!({"head":"connect-host","cuts":[17, 60]}));
    rep.assume("the endpoint runs to quiescence between pieces (40 consecutive idle scheduler turns); select! start index fixed at 0");
    rep.assume("heads of 1024 bytes and more may be accepted or rejected depending on read sizes; only bounded buffering is required of them");
    rep.finish()
}

pub fn replay(case: &serde_json::Value) -> Result<(), Violation> {
    let c: Case = serde_json::from_value(case["case"].clone()).map_err(|_| Violation::new("C08:machinery", "bad replay file", json!({})))?;
    crate::engine::watch::start("C08", "quick", Duration::from_secs(30), crate::engine::watch::OnExpiry::Violation);
    let kind = if c.eof_at.is_some() { "eof-in-mid-head" } else if c.cuts.len() > 3 { "byte-at-a-time" } else if c.cuts.len() == 2 { "2-cut" } else if c.cuts.is_empty() { "one-piece" } else { "1-cut" };
    let _g = crate::engine::watch::enter(format!("C08:wedged:{}:{kind}", c.head), json!({"case": c}).to_string());
    let c0 = Case { head: c.head.clone(), cuts: vec![], eof_at: None };
    let r0 = rt::run_paused(run_one(&c0, "r0")).map_err(|e| Violation::new("C08:machinery", e, json!({})))?;
    let r1 = rt::run_paused(run_one(&c, "r1")).map_err(|e| Violation::new("C08:machinery", e, json!({})))?;
    judge_reference(&c0, &r0)?;
    judge_common(&c, &r1)?;
    if c.eof_at.is_some() {
        return judge_reference(&c, &r1);
    }
    if normalise(r0.obs, "r0") != normalise(r1.obs, "r1") && !matches!(c.head.as_str(), "head-1024B" | "head-1025B" | "head-1100B") {
        return Err(Violation::new(format!("C08:segmentation-dependent:{}", c.head), "differs from one-piece delivery", json!({"case": c})));
    }
    Ok(())
}
