//! C19 — graceful shutdown reaches every participant and completes when all finish.
//!
//! (a) every interleaving of {participant: register | wait | finish, submit, completion} at the
//! granularity of single `Shutdown` API calls, on the real `Shutdown` through the crate's doors,
//! on the harness's own single-threaded executor (the chooser picks which enabled task runs next;
//! no partial-order reduction). (b) wind-down on the wire through the real accept path.

use super::common::{make_world, Cfg};
use super::door::{self, H1Client, H2Client, ReqSpec};
use crate::engine::explore::{explore, hash_of, run_one, Bounds, Chooser};
use crate::engine::report::{Report, Tier, Violation};
use crate::engine::rt;
use serde_json::json;
use std::cell::{Cell, RefCell};
use std::future::Future;
use std::pin::Pin;
use std::rc::Rc;
use std::sync::atomic::{AtomicBool, Ordering};
use std::sync::{Arc, Mutex};
use std::task::{Context, Poll, Wake};
use std::time::Duration;
use trusttunnel::shutdown::Shutdown;
use trusttunnel::verif_hooks::{self as vh, VProtocol};

#[derive(Clone, Debug, serde::Serialize, serde::Deserialize)]
pub struct Case {
    /// participants that register, wait for the notification, do graceful work, finish
    pub waiters: usize,
    /// participants that register and finish without ever waiting (e.g. a session that ends by itself)
    pub early: usize,
    pub submits: usize,
    /// the application gives up its first wait for completion (a timeout, a lost select! branch)
    /// and waits again
    #[serde(default)]
    pub abandon_first_wait: bool,
}

struct Flag(AtomicBool);
impl Wake for Flag {
    fn wake(self: Arc<Self>) {
        self.0.store(true, Ordering::SeqCst);
    }
    fn wake_by_ref(self: &Arc<Self>) {
        self.0.store(true, Ordering::SeqCst);
    }
}

/// a scheduling point: pending once
struct SchedPoint(bool);
impl Future for SchedPoint {
    type Output = ();
    fn poll(mut self: Pin<&mut Self>, cx: &mut Context<'_>) -> Poll<()> {
        if self.0 {
            Poll::Ready(())
        } else {
            self.0 = true;
            cx.waker().wake_by_ref();
            Poll::Pending
        }
    }
}
fn sched() -> SchedPoint {
    SchedPoint(false)
}

#[derive(Default)]
struct World {
    submitted: Cell<bool>,
    live_guards: Cell<i32>,
    completion_started: Cell<bool>,
    completion_returned_with_guards: Cell<Option<i32>>,
    /// per participant: (registered before submit, got Ok from wait, finished)
    parts: RefCell<Vec<(Option<bool>, Option<bool>, bool)>>,
    /// task index currently blocked on the mutex
    blocked: RefCell<Vec<bool>>,
    log: RefCell<Vec<String>>,
}

struct GuardCount<'a>(Option<vh::VCompletionGuard>, &'a World);
impl Drop for GuardCount<'_> {
    fn drop(&mut self) {
        if self.0.take().is_some() {
            self.1.live_guards.set(self.1.live_guards.get() - 1);
        }
    }
}

fn scenario(case: Case) -> impl Fn(&mut Chooser) -> Result<u64, Violation> + Sync {
    move |ch: &mut Chooser| {
        let shutdown: Arc<Mutex<Shutdown>> = Shutdown::new();
        let w = Rc::new(World::default());
        let n_parts = case.waiters + case.early;
        *w.parts.borrow_mut() = vec![(None, None, false); n_parts];
        let mut tasks: Vec<(String, Pin<Box<dyn Future<Output = ()>>>)> = vec![];
        let n_tasks = n_parts + case.submits.min(1) + 1;
        *w.blocked.borrow_mut() = vec![false; n_tasks];

        // lock with "blocked" modelled as disabled-until-free
        macro_rules! lock {
            ($m:expr, $w:expr, $ti:expr) => {{
                loop {
                    match $m.try_lock() {
                        Ok(g) => {
                            $w.blocked.borrow_mut()[$ti] = false;
                            break g;
                        }
                        Err(_) => {
                            $w.blocked.borrow_mut()[$ti] = true;
                            sched().await;
                        }
                    }
                }
            }};
        }

        for i in 0..n_parts {
            let m = shutdown.clone();
            let w = w.clone();
            let waits = i < case.waiters;
            tasks.push((
                format!("P{i}"),
                Box::pin(async move {
                    sched().await;
                    // register: handler + guard under one lock, as the library does
                    let (mut n, g) = {
                        let s = lock!(m, w, i);
                        let n = vh::shutdown_notification_handler(&s);
                        let g = vh::shutdown_completion_guard(&s);
                        (n, g)
                    };
                    let before = !w.submitted.get();
                    w.parts.borrow_mut()[i].0 = Some(before);
                    if g.is_some() {
                        w.live_guards.set(w.live_guards.get() + 1);
                    }
                    let g = GuardCount(g, &w);
                    w.log.borrow_mut().push(format!("P{i}:register({})", if before { "before-submit" } else { "after-submit" }));
                    sched().await;
                    if waits && before {
                        let r = n.wait().await;
                        w.parts.borrow_mut()[i].1 = Some(r.is_ok());
                        w.log.borrow_mut().push(format!("P{i}:notified({})", r.is_ok()));
                        sched().await;
                    }
                    drop(g);
                    w.parts.borrow_mut()[i].2 = true;
                    w.log.borrow_mut().push(format!("P{i}:finished"));
                }),
            ));
        }
        if case.submits > 0 {
            let m = shutdown.clone();
            let w = w.clone();
            let ti = n_parts;
            let times = case.submits;
            tasks.push((
                "S".into(),
                Box::pin(async move {
                    for _ in 0..times {
                        sched().await;
                        let s = lock!(m, w, ti);
                        s.submit();
                        drop(s);
                        w.submitted.set(true);
                        w.log.borrow_mut().push("S:submit".into());
                    }
                }),
            ));
        }
        {
            let m = shutdown.clone();
            let w = w.clone();
            let ti = tasks.len();
            let abandon = case.abandon_first_wait;
            tasks.push((
                "C".into(),
                Box::pin(async move {
                    sched().await;
                    // the application waits for completion only after it has submitted the shutdown
                    while !w.submitted.get() {
                        sched().await;
                    }
                    // as endpoint/src/main.rs does: the lock is held across the await
                    if abandon {
                        let mut s = lock!(m, w, ti);
                        let gave_up = {
                            let first = Box::pin(s.completion());
                            matches!(futures::future::select(first, Box::pin(sched())).await, futures::future::Either::Right(_))
                        };
                        drop(s);
                        w.log.borrow_mut().push(format!("C:first-wait-{}", if gave_up { "abandoned" } else { "returned" }));
                        if !gave_up {
                            w.completion_started.set(true);
                            w.completion_returned_with_guards.set(Some(w.live_guards.get()));
                            return;
                        }
                        sched().await;
                    }
                    let mut s = lock!(m, w, ti);
                    w.completion_started.set(true);
                    w.log.borrow_mut().push("C:completion-start".into());
                    s.completion().await;
                    w.completion_returned_with_guards.set(Some(w.live_guards.get()));
                    w.log.borrow_mut().push("C:completion-returned".into());
                }),
            ));
        }
        let n = tasks.len();
        let flags: Vec<Arc<Flag>> = (0..n).map(|_| Arc::new(Flag(AtomicBool::new(true)))).collect();
        let mut done = vec![false; n];
        let mut steps = 0u32;
        loop {
            let lock_free = shutdown.try_lock().is_ok();
            let enabled: Vec<usize> = (0..n)
                .filter(|i| !done[*i] && flags[*i].0.load(Ordering::SeqCst) && (lock_free || !w.blocked.borrow()[*i]))
                // C spinning on "not submitted yet" is not a real step: only offer it when it can progress
                .filter(|i| !(tasks[*i].0 == "C" && !w.submitted.get() && steps > 0 && !w.completion_started.get() && (0..n).any(|j| j != *i && !done[j] && flags[j].0.load(Ordering::SeqCst))))
                .collect();
            if enabled.is_empty() {
                break;
            }
            let k = if enabled.len() > 1 { ch.pick_free("run", enabled.len()) } else { 0 };
            let i = enabled[k];
            flags[i].0.store(false, Ordering::SeqCst);
            let waker = std::task::Waker::from(flags[i].clone());
            let mut cx = Context::from_waker(&waker);
            if tasks[i].1.as_mut().poll(&mut cx).is_ready() {
                done[i] = true;
            }
            steps += 1;
            if steps > 10_000 {
                break;
            }
        }
        let trace = w.log.borrow().clone();
        let mk = |sig: &str, what: String| Violation::new(format!("C19:{sig}"), format!("{what}; schedule: {}", trace.join(" ")), json!({"case": case, "schedule": trace}));
        // oracle
        if let Some(g) = w.completion_returned_with_guards.get() {
            if g != 0 {
                return Err(mk("completion-returned-early", format!("completion() returned while {g} registered participant(s) had not finished")));
            }
        }
        for (i, (before, notified, finished)) in w.parts.borrow().iter().enumerate() {
            if *before == Some(true) && i < case.waiters && case.submits > 0 {
                match notified {
                    Some(true) => {}
                    Some(false) => return Err(mk("participant-got-error-instead-of-notification", format!("P{i} registered before the submission and wait() failed"))),
                    None => return Err(mk("participant-never-notified", format!("P{i} registered before the submission and was never notified"))),
                }
            }
            if case.submits > 0 && !*finished {
                return Err(mk("participant-stuck", format!("P{i} never finished")));
            }
        }
        if case.submits > 0 {
            let c_done = done[n - 1];
            if !c_done {
                return Err(mk("completion-hangs", "every participant finished and completion() never returned".into()));
            }
        }
        let _ = steps;
        let digest = hash_of(&(w.parts.borrow().iter().map(|p| (p.0, p.1)).collect::<Vec<_>>(), w.completion_returned_with_guards.get()));
        drop(tasks);
        Ok(digest)
    }
}

// ------------------------------------------------------------------------------------------------
// (b) wind-down on the wire
// ------------------------------------------------------------------------------------------------

/// `racing_request`: scheduler turns between the submission and a new HTTP/2 request
async fn wire_case(h2: bool, with_tunnel: bool, racing_request: Option<u32>) -> Result<&'static str, Violation> {
    let case = json!({"kind":"wire","h2":h2,"with_tunnel":with_tunnel,"racing_request":racing_request});
    let mk = |sig: String, what: String| Violation::new(sig, what, case.clone());
    let world = make_world(&Cfg::default()).map_err(|e| Violation::new("C19:machinery", e, json!({})))?;
    let canary = door::start_canary().await;
    let peer: std::net::SocketAddr = "198.51.100.7:40000".parse().unwrap();
    let proto = if h2 { VProtocol::Http2 } else { VProtocol::Http1 };
    let (io, d) = door::open(&world.ctx, proto, "m.t", None, peer, 1 << 16);
    let wall = Duration::from_secs(5);
    let spec = ReqSpec::connect(&canary.addr.to_string());
    let mut h1 = None;
    let mut h2c = None;
    let mut h2s = None;
    if !h2 {
        let mut cl = H1Client::new(io);
        if with_tunnel {
            cl.send(&spec.h1_bytes()).await;
            let r = cl.response(wall).await;
            if r.map(|r| r.status) != Some(200) {
                return Err(Violation::new("C19:machinery", "tunnel not established", case));
            }
        }
        h1 = Some(cl);
    } else {
        let mut cl = H2Client::connect(io).await.map_err(|e| Violation::new("C19:machinery", e, case.clone()))?;
        if with_tunnel {
            let mut st = cl.request(spec.h2_request().unwrap(), false).await.map_err(|e| Violation::new("C19:machinery", e, case.clone()))?;
            match st.response(wall).await {
                door::H2Outcome::Response(r) if r.status == 200 => {}
                other => return Err(Violation::new("C19:machinery", format!("tunnel not established: {other:?}"), case)),
            }
            h2s = Some(st);
        } else {
            door::spin(50).await;
        }
        h2c = Some(cl);
    }
    // the session must have registered before the submission (a later one is not concerned)
    door::spin(100).await;
    // HTTP/2: a new request may be on its way when the shutdown is submitted (received by the
    // endpoint, not yet taken up by the session)
    if racing_request.is_some() {
        if let Some(cl) = h2c.as_mut() {
            let mut ready = Box::pin(std::future::poll_fn(|cx| cl.send.poll_ready(cx)));
            let _ = door::until(&mut ready, Duration::from_secs(2)).await;
        }
    }
    // submit; the racing request goes out `turns` scheduler turns before (turns < RACING_TURNS / 2)
    // or after the submission
    let mut _racing = None;
    let half = RACING_TURNS / 2;
    if let (Some(turns), Some(cl)) = (racing_request, h2c.as_mut()) {
        if turns < half {
            _racing = cl.send.send_request(ReqSpec::connect("_check").h2_request().unwrap(), true).ok();
            door::spin(turns).await;
        }
    }
    world.shutdown.lock().unwrap().submit();
    if let (Some(turns), Some(cl)) = (racing_request, h2c.as_mut()) {
        if turns >= half {
            door::spin(turns - half).await;
            _racing = cl.send.send_request(ReqSpec::connect("_check").h2_request().unwrap(), true).ok();
        }
    }
    door::spin(200).await;
    let kind = if h2 && racing_request.is_some() { "h2-racing-request" } else if h2 { "h2" } else { "h1" };
    if let Some(mut cl) = h1 {
        cl.pump(200).await;
        if std::env::var_os("VERIF_DEBUG").is_some() {
            eprintln!("h1 after submit: eof={} err={:?} inbuf={:?} task_finished={}", cl.eof, cl.io_error, String::from_utf8_lossy(&cl.inbuf), d.task.is_finished());
        }
        if !cl.eof {
            return Err(mk(format!("C19:no-close-after-submit:{kind}:tunnel={with_tunnel}"), "HTTP/1.1 session still open after the shutdown was submitted".into()));
        }
    }
    if let Some(cl) = h2c {
        // GOAWAY(NO_ERROR): the client connection task ends gracefully once streams are done
        drop(h2s);
        let mut conn = cl.conn;
        drop(cl.send);
        let mut f = Box::pin(&mut conn);
        match door::until(&mut f, Duration::from_secs(3)).await {
            Some(Ok(Ok(()))) => {}
            Some(Ok(Err(e))) => {
                if !e.contains("NO_ERROR") && !e.to_lowercase().contains("broken pipe") && !e.to_lowercase().contains("closed") {
                    return Err(mk(format!("C19:h2-not-graceful:tunnel={with_tunnel}"), format!("HTTP/2 session ended with {e} instead of GOAWAY(NO_ERROR)")));
                }
            }
            _ => return Err(mk(format!("C19:no-close-after-submit:{kind}:tunnel={with_tunnel}"), "HTTP/2 connection still open after the shutdown was submitted".into())),
        }
    }
    // the session task must end and completion() must return
    let mut task = d.task;
    let mut f = Box::pin(&mut task);
    if door::until(&mut f, Duration::from_secs(3)).await.is_none() {
        return Err(mk(format!("C19:session-survives-shutdown:{kind}:tunnel={with_tunnel}"), "the session task is still alive after the shutdown".into()));
    }
    let sd = world.shutdown.clone();
    let comp = async move {
        #[allow(clippy::await_holding_lock)]
        let mut g = sd.lock().unwrap();
        g.completion().await
    };
    let mut comp = Box::pin(comp);
    if door::until(&mut comp, Duration::from_secs(3)).await.is_none() {
        return Err(mk(format!("C19:completion-hangs-after-session-end:{kind}:tunnel={with_tunnel}"), "completion() did not return after the only session ended".into()));
    }
    Ok("wound-down")
}

/// Every channel's session registers a completion guard; `completion()` may return only after the
/// session's graceful close is over. The transport's shutdown is held back to make the close slow.
const RACING_TURNS: u32 = 24;

async fn slow_close_case(channel: &str) -> Result<&'static str, Violation> {
    use crate::engine::sstream;
    let case = json!({"kind":"slow-close","channel":channel});
    let mk = |sig: String, what: String| Violation::new(sig, what, case.clone());
    let world = make_world(&Cfg { reverse_proxy: Some(("127.0.0.1:9".parse().unwrap(), "/app".into())), reverse_proxy_hosts: vec!["r.t".into()], ping_hosts: vec!["p.t".into()], speedtest_hosts: vec!["s.t".into()], ..Cfg::default() }).map_err(|e| Violation::new("C19:machinery", e, json!({})))?;
    let (server, h) = sstream::pair();
    h.hold_shutdown(true);
    let peer: std::net::SocketAddr = "198.51.100.7:40000".parse().unwrap();
    let ctx = world.ctx.clone();
    let ch = channel.to_string();
    let task = tokio::spawn(async move {
        let io = vh::wrap_io(server, peer);
        match ch.as_str() {
            "tunnel" => vh::on_tunnel_request(&ctx, VProtocol::Http1, io, "m.t".into(), None).await,
            "ping" => vh::ping_listen(&ctx, VProtocol::Http1, io).await,
            "speedtest" => vh::speedtest_listen(&ctx, VProtocol::Http1, io).await,
            _ => vh::reverse_proxy_listen(&ctx, VProtocol::Http1, io, "r.t".into()).await,
        }
    });
    door::spin(100).await;
    world.shutdown.lock().unwrap().submit();
    door::spin(300).await;
    if !h.shutdown_requested() {
        return Err(mk(format!("C19:channel-ignores-shutdown:{channel}"), format!("the {channel} session did not start closing its transport after the shutdown was submitted")));
    }
    // the session is still closing: completion must not return yet
    let sd = world.shutdown.clone();
    let mut comp = Box::pin(async move {
        #[allow(clippy::await_holding_lock)]
        let mut g = sd.lock().unwrap();
        g.completion().await
    });
    let mut early = false;
    for _ in 0..300 {
        if door::poll_once(&mut comp).await.is_some() {
            early = true;
            break;
        }
        tokio::task::yield_now().await;
    }
    if early {
        return Err(mk(format!("C19:completion-before-session-closed:{channel}"), format!("completion() returned while the {channel} session was still closing its connection")));
    }
    h.hold_shutdown(false);
    if door::until(&mut comp, Duration::from_secs(3)).await.is_none() {
        return Err(mk(format!("C19:completion-hangs-after-session-end:{channel}"), format!("completion() did not return after the {channel} session finished closing")));
    }
    let mut task = task;
    let mut f = Box::pin(&mut task);
    let _ = door::until(&mut f, Duration::from_secs(1)).await;
    Ok("completion-after-close")
}

pub fn run(tier: Tier) -> i32 {
    crate::engine::watch::start("C19", tier.name(), Duration::from_secs(120), crate::engine::watch::OnExpiry::Machinery);
    let mut rep = Report::new("C19", tier, "model_checking");
    let cases: Vec<Case> = tier.pick(
        vec![Case { waiters: 2, early: 0, submits: 1, abandon_first_wait: false }, Case { waiters: 1, early: 1, submits: 1, abandon_first_wait: false }, Case { waiters: 1, early: 0, submits: 2, abandon_first_wait: false }, Case { waiters: 2, early: 0, submits: 1, abandon_first_wait: true }, Case { waiters: 1, early: 1, submits: 1, abandon_first_wait: true }],
        vec![Case { waiters: 2, early: 0, submits: 1, abandon_first_wait: false }, Case { waiters: 1, early: 1, submits: 1, abandon_first_wait: false }, Case { waiters: 2, early: 1, submits: 1, abandon_first_wait: false }, Case { waiters: 3, early: 0, submits: 1, abandon_first_wait: false }, Case { waiters: 2, early: 0, submits: 2, abandon_first_wait: false } , Case { waiters: 2, early: 0, submits: 1, abandon_first_wait: true }, Case { waiters: 2, early: 1, submits: 1, abandon_first_wait: true }, Case { waiters: 1, early: 0, submits: 2, abandon_first_wait: true }],
    );
    let mut total = 0u64;
    let mut cps = 0u64;
    let mut outcomes = std::collections::HashSet::new();
    let mut capped = false;
    for case in cases {
        let b = Bounds { max_deviations: 0, max_executions: u64::MAX, wall: Duration::from_secs(tier.pick(40, 1200)), workers: rt::workers() };
        let sc = scenario(case.clone());
        let (st, viol, obs) = explore(&sc, &b, &|| {});
        total += st.executions;
        cps += st.choice_points;
        capped |= st.capped;
        outcomes.extend(obs);
        rep.sub.push(json!({"sub":"barrier","case":case,"schedules":st.executions,"capped":st.capped,"distinct_outcomes":st.distinct_obs}));
        let mut viol = viol;
        viol.sort_by_key(|(t, _)| t.len());
        for (t, mut v) in viol {
            v.case["picks"] = json!(t.iter().map(|c| c.picked).collect::<Vec<_>>());
            rep.violation(v);
        }
    }
    // (b)
    let mut wire = 0;
    for h2 in [false, true] {
        for with_tunnel in [false, true] {
            wire += 1;
            match rt::run_paused(wire_case(h2, with_tunnel, None)) {
                Ok(_) => {}
                Err(v) => rep.violation(v),
            }
            if h2 {
                for turns in 0..RACING_TURNS {
                    wire += 1;
                    if let Err(v) = rt::run_paused(wire_case(h2, with_tunnel, Some(turns))) {
                        rep.violation(v);
                    }
                }
            }
        }
    }
    for channel in ["tunnel", "ping", "speedtest", "reverse-proxy"] {
        wire += 1;
        if let Err(v) = rt::run_paused(slow_close_case(channel)) {
            rep.violation(v);
        }
    }
    rep.sub.push(json!({"sub":"wind-down-on-the-wire","scenarios":wire,"what":"h1/h2 x with/without an open tunnel (h2 also with a new request sent 0..12 scheduler turns before or after the submission): session closes after submit and completion() returns; 4 channels with a held-back transport shutdown: completion() not before the session's close is over, and right after it"}));
    rep.cov("states", cps);
    rep.cov("transitions", cps);
    rep.cov("traces_validated_against_impl", total);
    rep.cov("schedules", total);
    rep.cov("distinct_outcomes", outcomes.len() as u64);
    rep.cov("exhaustive", !capped);
    rep.sample(json!({"schedule":["P0:register(before-submit)","S:submit","P1:register(after-submit)","C:completion-start","P0:notified(true)","P0:finished","P1:finished","C:completion-returned"]}));
    rep.cov("explanation", "every complete interleaving of the tasks at the granularity of single Shutdown API calls (plain DFS over 'which enabled task next', no partial-order reduction); each schedule is an execution of the real Shutdown; a task blocked on the std mutex that completion() holds across its await is modelled as disabled");
    rep.assume("each Shutdown operation is a single mutex-protected or tokio-primitive operation, so thread-level interleavings reduce to the explored orders; exhaustion of worker threads by tasks blocked on the mutex is not modelled");
    if outcomes.len() < 2 && rep.n_violations() == 0 {
        eprintln!("MACHINERY: vacuous exploration");
        return 2;
    }
    super::cq::c19_into(&mut rep);
    rep.finish()
}

pub fn replay(case: &serde_json::Value) -> Result<(), Violation> {
    if case.get("kind").and_then(|k| k.as_str()) == Some("slow-close") {
        return rt::run_paused(slow_close_case(case["channel"].as_str().unwrap_or("tunnel"))).map(|_| ());
    }
    if case.get("kind").and_then(|k| k.as_str()) == Some("wire") {
        return rt::run_paused(wire_case(case["h2"].as_bool().unwrap_or(false), case["with_tunnel"].as_bool().unwrap_or(false), case["racing_request"].as_u64().map(|t| t as u32))).map(|_| ());
    }
    let c: Case = serde_json::from_value(case["case"].clone()).map_err(|_| Violation::new("C19:machinery", "bad replay file", json!({})))?;
    let picks: Vec<u16> = case["picks"].as_array().map(|a| a.iter().map(|x| x.as_u64().unwrap_or(0) as u16).collect()).unwrap_or_default();
    let sc = scenario(c);
    let (_, r) = run_one(&sc, picks);
    r.map(|_| ())
}
