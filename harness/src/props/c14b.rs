//! C14 (b) — establishment and TLS handshake timeouts through the door. Built later in the round.
use crate::engine::report::{Report, Tier, Violation};
use serde_json::json;

pub fn run_into(rep: &mut Report, _tier: Tier) {
    rep.sub.push(json!({"sub":"establishment-and-handshake-timeouts","status":"not built yet"}));
}

pub fn replay(_case: &serde_json::Value) -> Result<(), Violation> {
    Err(Violation::new("C14:machinery", "no replay yet", json!({})))
}
