//! C14 (b) — establishment and TLS-handshake timeouts: they fire at the limit (not before), the
//! client is told 502/302 resp. the connection is dropped, and sockets and tasks are released.

use super::c01::{b64, USERS};
use super::common::{make_world, Cfg};
use super::door::{self, H1Client, H2Client, H2Outcome, ReqSpec};
use crate::engine::report::{Report, Tier, Violation};
use crate::engine::rt;
use crate::engine::sys::{self, ConnectAnswer};
use serde_json::json;
use std::cell::Cell;
use std::net::SocketAddr;
use std::time::Duration;
use tokio::io::{AsyncReadExt, AsyncWriteExt};
use trusttunnel::verif_hooks::{self as vh, VProtocol};

thread_local! {
    static HOLE: Cell<u16> = const { Cell::new(0) };
}

fn to_hole(_a: &SocketAddr, _t: i32) -> ConnectAnswer {
    ConnectAnswer::RedirectLoopback(HOLE.with(|h| h.get()))
}

const EST_MS: u64 = 3000;

/// Where the outbound attempt stalls: the TCP connect itself (direct forwarder), or a SOCKS5
/// upstream that accepts and then says nothing / stops after its method selection.
const STALLS: [&str; 3] = ["connect", "socks5-silent", "socks5-silent-after-method-selection"];

async fn establishment(h2: bool, stall: &'static str) -> Result<&'static str, Violation> {
    let case = json!({"kind":"establishment","sub":"connect","h2":h2,"stall":stall});
    let mk = |sig: &str, what: String| Violation::new(format!("C14:establishment:{sig}:{}{}", if h2 { "h2" } else { "h1" }, if stall == "connect" { String::new() } else { format!(":{stall}") }), what, case.clone());
    let mach = |e: String| Violation::new("C14:machinery", e, json!({}));
    let mut cfg = Cfg { clients: USERS.iter().map(|(u, p)| (u.to_string(), p.to_string())).collect(), connect_timeout: Duration::from_millis(EST_MS), ..Cfg::default() };
    // the SOCKS5 upstream: reports when the endpoint's connection to it ends
    let (gone_tx, mut gone_rx) = tokio::sync::mpsc::unbounded_channel::<()>();
    let mut _socks_task = None;
    if stall != "connect" {
        let l = tokio::net::TcpListener::bind("127.0.0.1:0").await.map_err(|e| mach(e.to_string()))?;
        cfg.socks5 = Some((l.local_addr().unwrap(), false));
        _socks_task = Some(tokio::spawn(async move {
            while let Ok((mut s, _)) = l.accept().await {
                let gone_tx = gone_tx.clone();
                tokio::spawn(async move {
                    let mut buf = [0u8; 512];
                    if stall == "socks5-silent-after-method-selection" {
                        let _ = s.read(&mut buf).await;
                        let _ = s.write_all(&[5, 0]).await;
                    }
                    loop {
                        match s.read(&mut buf).await {
                            Ok(0) | Err(_) => break,
                            Ok(_) => {}
                        }
                    }
                    let _ = gone_tx.send(());
                });
            }
        }));
    }
    let world = make_world(&cfg).map_err(mach)?;
    let hole = door::black_hole().map_err(mach)?;
    HOLE.with(|h| h.set(hole.port));
    sys::script_connect(if stall == "connect" { Some(to_hole) } else { None });
    let handle = tokio::runtime::Handle::current();
    door::spin(20).await;
    let tasks_before = handle.metrics().num_alive_tasks();
    let peer: SocketAddr = "198.51.100.7:40000".parse().unwrap();
    let proto = if h2 { VProtocol::Http2 } else { VProtocol::Http1 };
    let (io, d) = door::open(&world.ctx, proto, "m.t", None, peer, 1 << 16);
    let spec = ReqSpec::connect("93.184.216.34:443").with_auth(Some(format!("Basic {}", b64(USERS[0].0, USERS[0].1)).into_bytes()));
    let mut h1 = None;
    let mut h2c = None;
    let mut st = None;
    if !h2 {
        let mut cl = H1Client::new(io);
        cl.send(&spec.h1_bytes()).await;
        h1 = Some(cl);
    } else {
        let mut cl = H2Client::connect(io).await.map_err(|e| Violation::new("C14:machinery", e, json!({})))?;
        st = Some(cl.request(spec.h2_request().unwrap(), false).await.map_err(|e| Violation::new("C14:machinery", e, json!({})))?);
        h2c = Some(cl);
    }
    door::spin(300).await;
    if stall == "connect" && vh::metrics_snapshot(&world.ctx).outbound_tcp_sockets != 1 {
        return Err(Violation::new("C14:machinery", "the connection attempt did not start", case));
    }
    // just before the limit nothing may have been answered
    tokio::time::advance(Duration::from_millis(EST_MS - 1)).await;
    door::spin(200).await;
    let early = if let Some(cl) = h1.as_mut() {
        cl.pump(50).await;
        cl.take_response().map(|r| r.status)
    } else {
        match st.as_mut().unwrap().response(Duration::from_millis(1)).await {
            H2Outcome::Response(r) => Some(r.status),
            _ => None,
        }
    };
    if let Some(s) = early {
        return Err(mk("fired-early", format!("answered {s} after {} ms, before the establishment timeout of {EST_MS} ms", EST_MS - 1)));
    }
    tokio::time::advance(Duration::from_millis(2)).await;
    let resp = if let Some(cl) = h1.as_mut() {
        cl.response(Duration::from_secs(3)).await
    } else {
        match st.as_mut().unwrap().response(Duration::from_secs(3)).await {
            H2Outcome::Response(r) => Some(r),
            _ => None,
        }
    };
    match &resp {
        Some(r) if r.status == 502 && r.header("x-warning").unwrap_or("").starts_with("302") => {}
        other => return Err(mk("not-reported-as-502-302", format!("after the establishment timeout the client got {other:?}"))),
    }
    door::spin(200).await;
    let g = vh::metrics_snapshot(&world.ctx).outbound_tcp_sockets;
    if g != 0 {
        return Err(mk("attempt-not-abandoned", format!("outbound_tcp_sockets = {g} after the attempt timed out and was reported")));
    }
    if stall != "connect" {
        let mut f = Box::pin(gone_rx.recv());
        if door::until(&mut f, Duration::from_secs(3)).await.is_none() {
            return Err(mk("attempt-not-abandoned", "the connection to the SOCKS5 upstream is still open after the attempt timed out and was reported".into()));
        }
    }
    drop(st);
    drop(h2c);
    drop(h1);
    let mut task = d.task;
    let mut f = Box::pin(&mut task);
    if door::until(&mut f, Duration::from_secs(3)).await.is_none() {
        return Err(mk("session-not-released", "the session task is alive after the client left".into()));
    }
    door::spin(300).await;
    let tasks_after = handle.metrics().num_alive_tasks();
    if tasks_after > tasks_before {
        return Err(mk("tasks-not-released", format!("{} task(s) still alive after the connection ended (before: {tasks_before}, after: {tasks_after})", tasks_after - tasks_before)));
    }
    Ok("502-302-and-released")
}

const TLS_MS: u64 = 2000;

/// first bytes of a TLS record carrying a ClientHello (never completed)
const HELLO_PREFIX: &[u8] = &[0x16, 0x03, 0x01, 0x02, 0x00, 0x01, 0x00, 0x01, 0xfc, 0x03, 0x03];

async fn tls_handshake(sent: usize) -> Result<&'static str, Violation> {
    let case = json!({"kind":"establishment","sub":"tls","sent":sent});
    let mk = |sig: &str, what: String| Violation::new(format!("C14:tls-handshake:{sig}"), what, case.clone());
    // a free loopback port
    let port = {
        let l = std::net::TcpListener::bind("127.0.0.1:0").map_err(|e| Violation::new("C14:machinery", e.to_string(), json!({})))?;
        l.local_addr().unwrap().port()
    };
    let cfg = Cfg { listen: SocketAddr::from(([127, 0, 0, 1], port)), tls_timeout: Duration::from_millis(TLS_MS), ..Cfg::default() };
    let world = make_world(&cfg).map_err(|e| Violation::new("C14:machinery", e, json!({})))?;
    let handle = tokio::runtime::Handle::current();
    let core = std::sync::Arc::new(world.core);
    let c2 = core.clone();
    let listen = tokio::spawn(async move { c2.listen().await });
    door::spin(200).await;
    let tasks_before = handle.metrics().num_alive_tasks();
    let mut connect = Box::pin(tokio::net::TcpStream::connect(("127.0.0.1", port)));
    let mut s = match door::until(&mut connect, Duration::from_secs(3)).await {
        Some(Ok(s)) => s,
        other => return Err(Violation::new("C14:machinery", format!("cannot connect to the endpoint: {:?}", other.map(|r| r.map(|_| ()))), case)),
    };
    drop(connect);
    if sent > 0 {
        let mut w = Box::pin(s.write_all(&HELLO_PREFIX[..sent]));
        let _ = door::until(&mut w, Duration::from_secs(1)).await;
    }
    door::spin(300).await;
    tokio::time::advance(Duration::from_millis(TLS_MS - 1)).await;
    door::spin(300).await;
    let mut buf = [0u8; 64];
    {
        let mut r = Box::pin(s.read(&mut buf));
        if let Some(x) = door::poll_once(&mut r).await {
            return Err(mk("dropped-early", format!("connection ended ({x:?}) {} ms into the handshake, before the timeout of {TLS_MS} ms", TLS_MS - 1)));
        }
    }
    tokio::time::advance(Duration::from_millis(2)).await;
    let closed = {
        let mut r = Box::pin(s.read(&mut buf));
        door::until(&mut r, Duration::from_secs(3)).await
    };
    match closed {
        Some(Ok(0)) | Some(Err(_)) => {}
        Some(Ok(n)) => return Err(mk("answered-instead-of-dropped", format!("{n} bytes received from a connection whose handshake never completed"))),
        None => return Err(mk("not-dropped", format!("the connection is still open after the TLS handshake timeout ({TLS_MS} ms)"))),
    }
    drop(s);
    door::spin(300).await;
    let tasks_after = handle.metrics().num_alive_tasks();
    if tasks_after > tasks_before {
        return Err(mk("tasks-not-released", format!("{} task(s) still alive after the connection was dropped", tasks_after - tasks_before)));
    }
    listen.abort();
    let _ = world.shutdown;
    Ok("dropped-and-released")
}

pub fn run_into(rep: &mut Report, _tier: Tier) {
    let mut n = 0u64;
    let mut classes = std::collections::BTreeSet::new();
    for h2 in [false, true] {
        for stall in STALLS {
            n += 1;
            match rt::run_paused(establishment(h2, stall)) {
                Ok(k) => {
                    classes.insert(format!("{stall}:{h2}:{k}"));
                }
                Err(v) => rep.violation(v),
            }
        }
    }
    for sent in [0usize, 1, 5, HELLO_PREFIX.len()] {
        n += 1;
        match rt::run_paused(tls_handshake(sent)) {
            Ok(k) => {
                classes.insert(format!("tls:{sent}:{k}"));
            }
            Err(v) => rep.violation(v),
        }
    }
    rep.sub.push(json!({"sub":"establishment-and-handshake-timeouts","scenarios":n,"passed_classes":classes.len(),
        "what":"outbound attempt stalled at {black-hole connect, SOCKS5 upstream silent after accept, SOCKS5 upstream silent after its method selection} x {h1,h2}: nothing answered at T-1ms, 502/302 at T+1ms, outbound_tcp_sockets back to 0, session and tasks released; real Core::listen on loopback with a ClientHello stalled after {0,1,5,11} bytes: open at T-1ms, dropped at T+1ms, tasks released"}));
}

pub fn replay(case: &serde_json::Value) -> Result<(), Violation> {
    match case["sub"].as_str() {
        Some("connect") => {
            let stall = STALLS.iter().find(|s| Some(**s) == case["stall"].as_str()).copied().unwrap_or("connect");
            rt::run_paused(establishment(case["h2"].as_bool().unwrap_or(false), stall)).map(|_| ())
        }
        Some("tls") => rt::run_paused(tls_handshake(case["sent"].as_u64().unwrap_or(0) as usize)).map(|_| ()),
        _ => Err(Violation::new("C14:machinery", "bad replay file", json!({}))),
    }
}
