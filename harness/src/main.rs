//! ttv <PROPERTY> <quick|thorough> | ttv <PROPERTY> --replay <file>
#![allow(dead_code, clippy::type_complexity)]
mod engine;
mod props;

use engine::report::Tier;

#[global_allocator]
static ALLOC: engine::alloc::Counting = engine::alloc::Counting;

fn usage() -> ! {
    eprintln!("usage: ttv <C01..C20> <quick|thorough> | ttv <ID> --replay <file>");
    std::process::exit(2);
}

fn main() {
    let args: Vec<String> = std::env::args().collect();
    if args.len() < 3 {
        usage();
    }
    let id = args[1].as_str();
    if std::env::var_os("VERIF_LOG").is_some() {
        engine::logcap::install();
    }
    // a panic anywhere outside an oracle-guarded region is a machinery failure (exit 2), never a verdict
    let default_hook = std::panic::take_hook();
    std::panic::set_hook(Box::new(move |info| {
        if props::panics_are_expected() {
            return;
        }
        default_hook(info);
    }));
    let code = if args[2] == "--replay" {
        let path = args.get(3).cloned().unwrap_or_else(|| usage());
        let body = std::fs::read_to_string(&path).unwrap_or_else(|e| {
            eprintln!("MACHINERY: cannot read {path}: {e}");
            std::process::exit(2)
        });
        let v: serde_json::Value = serde_json::from_str(&body).unwrap_or_else(|e| {
            eprintln!("MACHINERY: cannot parse {path}: {e}");
            std::process::exit(2)
        });
        props::replay(id, &v)
    } else {
        let tier = match args[2].as_str() {
            "quick" => Tier::Quick,
            "thorough" => Tier::Thorough,
            _ => usage(),
        };
        props::run(id, tier)
    };
    std::process::exit(code);
}
